(** Pinned statements of the C15 property theorems: compiled on every check, so a theorem cannot be
    weakened silently. *)
From Coq Require Import Sorting.Permutation.
From V Require Import Base.Util Gql.Ast C15.Model C15.Spec C15.Proofs C15.Proofs2 C15.Reify C15.CheckBridge C15.CheckSim C15.CheckSim2 C15.CheckRespects C15.EmitSim C15.EmitIface C15.EmitDen C15.Corr C15.Properties.

Check (C15_routes_agree : forall st meta M D,
  model_ok M = true ->
  doc_equiv D (sdl_doc M) ->
  parsed_positions D ->
  exists Sj, json_route (introspect st meta M) = Ok Sj /\ schema_equiv_on (vis_of M) Sj (ast_to_type_system D)).
Print Assumptions C15_routes_agree.
Check (C15_json_route_total : forall st meta M, exists Sj, json_route (introspect st meta M) = Ok Sj).
Print Assumptions C15_json_route_total.
Check (C15_json_key_style_irrelevant : forall meta M,
  json_route (introspect Full meta M) = json_route (introspect Minimal meta M)).
Print Assumptions C15_json_key_style_irrelevant.
Check (C15_sdl_route_respects_doc_equiv : forall D D0 n,
  doc_equiv D D0 ->
  option_map norm_typedef (get_type (ast_to_type_system D) n) = option_map norm_typedef (get_type (ast_to_type_system D0) n)
  /\ option_map norm_directive (get_directive (ast_to_type_system D) n) = option_map norm_directive (get_directive (ast_to_type_system D0) n)).
Print Assumptions C15_sdl_route_respects_doc_equiv.
Check (C15_shadow_root_agrees :
  exists D Sj,
    doc_equiv D (sdl_doc C15.Proofs.shadow_model) /\ parsed_positions D
    /\ json_route (introspect Full false C15.Proofs.shadow_model) = Ok Sj
    /\ get_type Sj (s "Mutation") <> None
    /\ root_type Sj Mutation = None
    /\ root_type (ast_to_type_system D) Mutation = None).
Print Assumptions C15_shadow_root_agrees.
Check (C15_unreferenced_builtin_refuted :
  exists M D Sj,
    model_ok M = true /\ doc_equiv D (sdl_doc M) /\ parsed_positions D
    /\ json_route (introspect Full true M) = Ok Sj
    /\ get_type Sj (s "Float") = None
    /\ get_type (ast_to_type_system D) (s "Float") <> None).
Print Assumptions C15_unreferenced_builtin_refuted.
Check (C15_meta_types_refuted :
  exists M D Sj,
    model_ok M = true /\ doc_equiv D (sdl_doc M) /\ parsed_positions D
    /\ json_route (introspect Full true M) = Ok Sj
    /\ get_type Sj (s "__Schema") <> None
    /\ get_type (ast_to_type_system D) (s "__Schema") = None).
Print Assumptions C15_meta_types_refuted.
Check (C15_printer_schema_on_json_route : forall sc,
  keys_match sc ->
  let sc' := ast_to_type_system (type_system_to_ast sc) in
  option_map nval (sc_desc sc') = option_map nval (sc_desc sc)
  /\ (forall op, option_map nval (declared_root (nval (sc_roots sc')) op) = option_map nval (declared_root (nval (sc_roots sc)) op))
  /\ (forall n, option_map norm_typedef (get_type sc' n) = option_map (fun d => norm_typedef (strip_typedef d)) (get_type sc n))
  /\ (forall n, get_directive sc' n = None)).
Print Assumptions C15_printer_schema_on_json_route.
Check (C15_front_ends_keys_match :
  (forall j sc, json_route j = Ok sc -> keys_match sc) /\ (forall D, keys_match (ast_to_type_system D))).
Print Assumptions C15_front_ends_keys_match.
Check (C15_printers_see_same_types : forall st meta M D,
  model_ok M = true -> doc_equiv D (sdl_doc M) -> parsed_positions D ->
  exists Sj, json_route (introspect st meta M) = Ok Sj /\
    forall n, vis_of M n = true ->
      option_map norm_typedef (get_type (ast_to_type_system (type_system_to_ast Sj)) n)
      = option_map (fun d => strip_typedef (norm_typedef d)) (get_type (ast_to_type_system D) n)).
Print Assumptions C15_printers_see_same_types.
Check (C15_schema_equiv_b_sound : forall vis a b, schema_equiv_b vis a b = true -> schema_equiv_on vis a b).
Print Assumptions C15_schema_equiv_b_sound.
Check (C15_doc_equiv_b_sound : forall D D0, doc_equiv_b D D0 = true -> doc_equiv D D0).
Print Assumptions C15_doc_equiv_b_sound.
Check (C15_certified_case : forall st meta M D J out_sdl out_json docs,
  agree (CRoutes false true st meta [] M D J out_sdl out_json docs) = true ->
  exists Sj, out_json = Ok Sj /\ schema_equiv_on (vis_of M) Sj out_sdl).
Print Assumptions C15_certified_case.
Check (C15_routes_agree_any_order : forall st meta M D types,
  model_ok M = true ->
  Permutation types (listed_types meta M) ->
  nodup_str (map mt_name types) = true ->
  doc_equiv D (sdl_doc M) ->
  parsed_positions D ->
  exists Sj, json_route (introspect_of st types M) = Ok Sj /\ schema_equiv_on (vis_of M) Sj (ast_to_type_system D)).
Print Assumptions C15_routes_agree_any_order.
Check (C15_checker_model_reads_schema : forall S,
  (forall n, option_map conv_td (V.C03.Model.get_type S n) = lookup n (sc_types (ast_to_type_system S)))
  /\ (forall n, option_map conv_dd (V.C03.Model.get_directive S n) = lookup n (sc_dirs (ast_to_type_system S)))
  /\ map convert_type_definition (V.C03.Model.iter_types S) = sc_types (ast_to_type_system S)
  /\ roots_rel (V.C03.Model.root_types S) (sc_roots (ast_to_type_system S))).
Print Assumptions C15_checker_model_reads_schema.
Check (C15_root_decision_agrees : forall st meta M D,
  model_ok M = true -> doc_equiv D (sdl_doc M) -> parsed_positions D ->
  exists Sj, json_route (introspect st meta M) = Ok Sj /\
    forall fuel fm op,
      (root_type Sj (op_type op) = None -> exists e, V.C03.Model.check_operation fuel D fm op = [e])
      /\ (forall n, root_type Sj (op_type op) = Some n ->
            exists root, V.C03.Model.get_type D n = Some root
              /\ option_map norm_typedef (get_type Sj n) = Some (norm_typedef (nval (conv_td root)))
              /\ V.C03.Model.check_operation fuel D fm op =
                   V.C03.Model.check_directives D (op_vars op) (V.C03.Model.op_location (op_type op)) (op_dirs op)
                   ++ match op_vars op with Some vs => V.C03.Model.check_variables_definition D vs | None => [] end
                   ++ (if optype_eqb (op_type op) Subscription && Nat.ltb 1 (length (V.C03.Model.collect_response_keys fuel fm [] (op_sel op) []))
                       then [V.C03.Model.err0 V.C03.Model.SubscriptionMustHaveExactlyOneRootField (op_pos op)] else [])
                   ++ V.C03.Model.check_selection_set fuel D fm (op_vars op) [] root (op_sel op))).
Print Assumptions C15_root_decision_agrees.
Check (C15_reify_equiv : forall sc,
  keys_match sc -> dir_keys_match sc ->
  schema_equiv_on (fun _ => true) (ast_to_type_system (doc_of_schema sc)) sc).
Print Assumptions C15_reify_equiv.
Check (C15_check_value_respects_lookups : forall S1 S2 P vars,
  (forall n, P n = true -> orel td_rel (V.C03.Model.get_type S1 n) (V.C03.Model.get_type S2 n)) ->
  (forall n d p nm ds fs kw, P n = true -> V.C03.Model.get_type S1 n = Some (TDInput d p nm ds fs kw) -> inputs_ok P fs = true) ->
  forall v t1 t2, ty_rel t1 t2 -> ty_ok P t1 = true ->
    map V.C03.Model.e_msg (V.C03.Model.check_value S1 vars v t1) = map V.C03.Model.e_msg (V.C03.Model.check_value S2 vars v t2)).
Print Assumptions C15_check_value_respects_lookups.
Check (C15_check_respects_equiv_docs : forall S1 S2 P D,
  schema_equiv_on P (ast_to_type_system S1) (ast_to_type_system S2) ->
  doc_closed_b P S1 = true -> implements_nothing_b P S1 = true -> implements_nothing_b P S2 = true ->
  P V.C03.Model.str_String = true ->
  (forall o n, root_type (ast_to_type_system S1) o = Some n -> P n = true) ->
  opdoc_ok P D = true ->
  (V.C03.Model.check_operation_document S1 D = [] <-> V.C03.Model.check_operation_document S2 D = [])).
Print Assumptions C15_check_respects_equiv_docs.
Check (C15_check_respects_equiv : forall st meta M Dsdl,
  model_ok M = true -> doc_equiv Dsdl (sdl_doc M) -> parsed_positions Dsdl ->
  exists Sj, json_route (introspect st meta M) = Ok Sj /\
    (sim_guard_b (vis_of M) Dsdl (doc_of_schema Sj) = true ->
     forall D, opdoc_ok (vis_of M) D = true ->
       (V.C03.Model.check_operation_document Dsdl D = [] <-> V.C03.Model.check_operation_document (doc_of_schema Sj) D = []))).
Print Assumptions C15_check_respects_equiv.
Check (C15_certified_check : forall st meta M D J out_sdl out_json docs,
  agree (CRoutes false true st meta [] M D J out_sdl out_json docs) = true ->
  exists Sj, out_json = Ok Sj /\
    forall doc, opdoc_ok (vis_of M) doc = true ->
      (V.C03.Model.check_operation_document D doc = [] <-> V.C03.Model.check_operation_document (doc_of_schema Sj) doc = [])).
Print Assumptions C15_certified_check.
Check (C15_emit_respects_equiv : forall st meta M Dsdl,
  model_ok M = true -> doc_equiv Dsdl (sdl_doc M) -> parsed_positions Dsdl ->
  exists Sj, json_route (introspect st meta M) = Ok Sj /\
    let DA := type_system_to_ast Sj in
    forall o tg,
      bag_equiv_b (V.C10.Model.c_bag (V.C10.Model.make_ctx o DA tg)) (V.C10.Model.c_bag (V.C10.Model.make_ctx o Dsdl tg)) = true ->
      forall n tA tD, vis_of M n = true ->
        Ts.TsDen.assoc n (V.C10.Model.c_scalars (V.C10.Model.make_ctx o DA tg)) = Ts.TsDen.assoc n (V.C10.Model.c_scalars (V.C10.Model.make_ctx o Dsdl tg)) ->
        V.C10.Model.get_type DA n = Some tA -> V.C10.Model.get_type Dsdl n = Some tD ->
        emit_closed (vis_of M) tA = true ->
        (forall d p nm i ds fs k, tA <> TDInterface d p nm i ds fs k) ->
        res_shape (V.C10.Model.type_member (V.C10.Model.make_ctx o DA tg) tA) = res_shape (V.C10.Model.type_member (V.C10.Model.make_ctx o Dsdl tg) tD)).
Print Assumptions C15_emit_respects_equiv.
Check (C15_emit_respects_equiv_interface : forall st meta M Dsdl,
  model_ok M = true -> doc_equiv Dsdl (sdl_doc M) -> parsed_positions Dsdl ->
  exists Sj, json_route (introspect st meta M) = Ok Sj /\
    let DA := type_system_to_ast Sj in
    forall o tg,
      bag_equiv_b (V.C10.Model.c_bag (V.C10.Model.make_ctx o DA tg)) (V.C10.Model.c_bag (V.C10.Model.make_ctx o Dsdl tg)) = true ->
      objects_outside_b (vis_of M) DA = true -> objects_outside_b (vis_of M) Dsdl = true ->
      forall n d1 p1 n1 i1 ds1 f1 k1 d2 p2 n2 i2 ds2 f2 k2, vis_of M n = true ->
        V.C10.Model.get_type DA n = Some (TDInterface d1 p1 n1 i1 ds1 f1 k1) ->
        V.C10.Model.get_type Dsdl n = Some (TDInterface d2 p2 n2 i2 ds2 f2 k2) ->
        iface_rel (V.C10.Model.type_member (V.C10.Model.make_ctx o DA tg) (TDInterface d1 p1 n1 i1 ds1 f1 k1))
                  (V.C10.Model.type_member (V.C10.Model.make_ctx o Dsdl tg) (TDInterface d2 p2 n2 i2 ds2 f2 k2))).
Print Assumptions C15_emit_respects_equiv_interface.
Check (C15_alias_denotations_agree : forall st meta M Dsdl,
  model_ok M = true -> doc_equiv Dsdl (sdl_doc M) -> parsed_positions Dsdl ->
  exists Sj, json_route (introspect st meta M) = Ok Sj /\
    let DA := type_system_to_ast Sj in
    forall o t nssA nssD T bodyA bodyD,
      V.C10.Spec.wf_schema o DA = true -> V.C10.Spec.wf_schema o Dsdl = true ->
      V.C10.Model.schema_decls o DA = V.C10.Model.Ok nssA -> V.C10.Model.schema_decls o Dsdl = V.C10.Model.Ok nssD ->
      doc_emit_closed_b (vis_of M) DA = true ->
      objects_outside_b (vis_of M) DA = true -> objects_outside_b (vis_of M) Dsdl = true ->
      vis_of M T = true -> V.C10.Spec.applicable DA t T = true ->
      V.C10.Spec.alias_of (V.C10.Spec.namespace_of nssA t) T = Some bodyA ->
      V.C10.Spec.alias_of (V.C10.Spec.namespace_of nssD t) T = Some bodyD ->
      forall v,
        (Ts.TsDen.In_type (V.C10.Spec.ns_env (V.C10.Spec.namespace_of nssA t)) bodyA v <->
         Ts.TsDen.In_type (V.C10.Spec.ns_env (V.C10.Spec.namespace_of nssD t)) bodyD v)
        /\ (Ts.TsDen.NotIn_type (V.C10.Spec.ns_env (V.C10.Spec.namespace_of nssA t)) bodyA v <->
            Ts.TsDen.NotIn_type (V.C10.Spec.ns_env (V.C10.Spec.namespace_of nssD t)) bodyD v)).
Print Assumptions C15_alias_denotations_agree.
Check (C15_certified_alias_denotations : forall st M D J out_sdl out_json docs,
  agree (CRoutes false true st false [] M D J out_sdl out_json docs) = true ->
  exists Sj, out_json = Ok Sj /\
    forall t nssA nssD T bodyA bodyD,
      V.C10.Model.schema_decls guard_opts (type_system_to_ast Sj) = V.C10.Model.Ok nssA ->
      V.C10.Model.schema_decls guard_opts D = V.C10.Model.Ok nssD ->
      vis_of M T = true -> V.C10.Spec.applicable (type_system_to_ast Sj) t T = true ->
      V.C10.Spec.alias_of (V.C10.Spec.namespace_of nssA t) T = Some bodyA ->
      V.C10.Spec.alias_of (V.C10.Spec.namespace_of nssD t) T = Some bodyD ->
      forall v,
        (Ts.TsDen.In_type (V.C10.Spec.ns_env (V.C10.Spec.namespace_of nssA t)) bodyA v <->
         Ts.TsDen.In_type (V.C10.Spec.ns_env (V.C10.Spec.namespace_of nssD t)) bodyD v)
        /\ (Ts.TsDen.NotIn_type (V.C10.Spec.ns_env (V.C10.Spec.namespace_of nssA t)) bodyA v <->
            Ts.TsDen.NotIn_type (V.C10.Spec.ns_env (V.C10.Spec.namespace_of nssD t)) bodyD v)).
Print Assumptions C15_certified_alias_denotations.
