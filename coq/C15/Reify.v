(** C15 — reification of a Schema as a resolved schema document.

    [doc_of_schema sc] is a document whose [ast_to_type_system] image is [sc] on every observation the operation
    checker makes (description, root node position and declared roots, every type definition, every directive
    definition; modulo positions inside definitions and default-value text).  Unlike type_system_to_ast (the conversion
    nitrogql uses for printing) it keeps directive definitions, deprecations and the root position bit.  It lets the
    checker model of C03, which takes a schema document, be run on the Schema of the JSON route. *)
From V Require Import Base.Util Gql.Ast C15.Model C15.Spec C15.Proofs1 C15.Proofs2 C15.Proofs3 C15.Proofs4.

Definition depr_dir (d : option str) : list directive :=
  match d with
  | None => []
  | Some r => [mkDir pos0 (mkId (s "deprecated") pos0) (Some (mkArgs pos0 [(mkId (s "reason") pos0, VString pos0 r)]))]
  end.
Definition full_input (i : sinput) : inputvaldef :=
  mkInputVal (to_desc (si_desc i)) pos0 (to_ident (si_name i)) (back_type (si_type i))
             (option_map (fun _ => VNull pos0) (si_default i)) (depr_dir (si_depr i)).
Definition full_arguments (l : list sinput) : option (list inputvaldef) :=
  match l with [] => None | _ => Some (map full_input l) end.
Definition full_field (f : sfield) : fielddef :=
  mkFieldDef (to_desc (sf_desc f)) (to_ident (sf_name f)) (full_arguments (sf_args f)) (back_type (sf_type f)) (depr_dir (sf_depr f)).
Definition full_member (e : smember) : enumvaldef := mkEnumVal (to_desc (sm_desc e)) (to_ident (sm_name e)) (depr_dir (sm_depr e)).
Definition full_typedef (d : stypedef) : typedef :=
  match d with
  | SDScalar n ds => TDScalar (to_desc ds) pos0 (to_ident n) [] (kw "scalar")
  | SDObject n ds fs is_ => TDObject (to_desc ds) pos0 (to_ident n) (map to_ident is_) [] (map full_field fs) (kw "type")
  | SDInterface n ds fs is_ => TDInterface (to_desc ds) pos0 (to_ident n) (map to_ident is_) [] (map full_field fs) (kw "interface")
  | SDUnion n ds ps => TDUnion (to_desc ds) pos0 (to_ident n) [] (map to_ident ps) (kw "union")
  | SDEnum n ds ms => TDEnum (to_desc ds) pos0 (to_ident n) [] (map full_member ms) (kw "enum")
  | SDInput n ds fs => TDInput (to_desc ds) pos0 (to_ident n) [] (map full_input fs) (kw "input")
  end.
Definition full_dirdef (d : sdirective) : directivedef :=
  mkDirDef (to_desc (sdr_desc d)) pos0 (to_ident (sdr_name d)) (full_arguments (sdr_args d))
           (option_map (fun _ => mkId (s "repeatable") pos0) (sdr_repeatable d)) (map to_ident (sdr_locations d)) (kw "directive").

Definition doc_of_schema (sc : schema) : tsdoc :=
  let r := nval (sc_roots sc) in
  TSSchema (mkSchemaDef (to_desc (sc_desc sc)) (npos (sc_roots sc)) []
              (opt_root Query (r_query r) ++ opt_root Mutation (r_mutation r) ++ opt_root Subscription (r_subscription r)))
  :: map (fun kv => TSDirective (full_dirdef (nval (snd kv)))) (sc_dirs sc)
  ++ map (fun kv => TSType (full_typedef (nval (snd kv)))) (sc_types sc).

Definition dir_keys_match (sc : schema) : Prop :=
  Forall (fun kv => fst kv = nval (sdr_name (nval (snd kv)))) (sc_dirs sc).

(* ------------------------------------------------------------------------------------------ *)

Lemma convert_deprecation_depr_dir d : convert_deprecation (depr_dir d) = d.
Proof. destruct d; reflexivity. Qed.

Lemma norm_full_input i : norm_input (convert_input (full_input i)) = norm_input i.
Proof.
  destruct i as [n d t dv dp]. unfold convert_input, full_input, norm_input.
  cbn [iv_name iv_desc iv_type iv_default iv_dirs si_name si_desc si_type si_default si_depr].
  rewrite norm_back_type, nopt_to_desc, convert_deprecation_depr_dir. destruct dv; reflexivity.
Qed.
Lemma norm_full_arguments l : map norm_input (convert_arguments (full_arguments l)) = map norm_input l.
Proof.
  destruct l as [|a r]; [reflexivity|]. unfold full_arguments. cbn [convert_arguments].
  rewrite !map_map. apply map_ext. intros x. apply norm_full_input.
Qed.
Lemma norm_full_field f : norm_field (convert_field (full_field f)) = norm_field f.
Proof.
  destruct f as [n d t args dp]. unfold convert_field, full_field, norm_field.
  cbn [fd_name fd_desc fd_type fd_args fd_dirs sf_name sf_desc sf_type sf_args sf_depr].
  now rewrite norm_back_type, nopt_to_desc, norm_full_arguments, convert_deprecation_depr_dir.
Qed.
Lemma norm_full_member e : norm_member (convert_member (full_member e)) = norm_member e.
Proof.
  destruct e as [n d dp]. unfold convert_member, full_member, norm_member.
  cbn [ev_name ev_desc ev_dirs sm_name sm_desc sm_depr]. now rewrite nopt_to_desc, convert_deprecation_depr_dir.
Qed.

Lemma norm_full_typedef d : norm_typedef (nval (conv_td (full_typedef d))) = norm_typedef d.
Proof.
  destruct d as [n ds|n ds fs is_|n ds fs is_|n ds ps|n ds ms|n ds fs]; unfold conv_td;
    cbn [full_typedef convert_type_definition snd nval norm_typedef];
    rewrite ?nopt_to_desc, ?nnode_back_idents; try reflexivity.
  - f_equal. rewrite !map_map. apply map_ext. intros f. apply norm_full_field.
  - f_equal. rewrite !map_map. apply map_ext. intros f. apply norm_full_field.
  - f_equal. rewrite !map_map. apply map_ext. intros e. apply norm_full_member.
  - f_equal. rewrite !map_map. apply map_ext. intros f. apply norm_full_input.
Qed.
Lemma norm_full_dirdef d : norm_directive (nval (conv_dd (full_dirdef d))) = norm_directive d.
Proof.
  destruct d as [n ds args locs rep]. unfold conv_dd, full_dirdef, norm_directive.
  cbn [convert_directive_definition snd nval dd_name dd_desc dd_args dd_locs dd_repeatable dd_pos
       sdr_name sdr_desc sdr_args sdr_locations sdr_repeatable].
  rewrite nopt_to_desc, nnode_back_idents, norm_full_arguments. destruct rep; reflexivity.
Qed.

Lemma full_typedef_name d : iname (typedef_name (full_typedef d)) = nval (stypedef_name d).
Proof. destruct d; reflexivity. Qed.

Lemma find_full_types n (l : list (str * node stypedef)) :
  Forall (fun kv => fst kv = nval (stypedef_name (nval (snd kv)))) l ->
  find_typedef n (map (fun kv => TSType (full_typedef (nval (snd kv)))) l)
  = option_map (fun d => full_typedef (nval d)) (lookup n l).
Proof.
  induction l as [|[key d] r IH]; intros H; cbn [map find_typedef lookup option_map fst snd]; [reflexivity|].
  inversion H as [|? ? Hk Hr]; subst. cbn [fst snd] in Hk. rewrite full_typedef_name, <- Hk.
  destruct (str_eqb n key); [reflexivity|]. now apply IH.
Qed.
Lemma find_full_dirs n (l : list (str * node sdirective)) :
  Forall (fun kv => fst kv = nval (sdr_name (nval (snd kv)))) l ->
  find_dirdef n (map (fun kv => TSDirective (full_dirdef (nval (snd kv)))) l)
  = option_map (fun d => full_dirdef (nval d)) (lookup n l).
Proof.
  induction l as [|[key d] r IH]; intros H; cbn [map find_dirdef lookup option_map fst snd]; [reflexivity|].
  inversion H as [|? ? Hk Hr]; subst. cbn [fst snd] in Hk. cbn [full_dirdef dd_name to_ident iname]. rewrite <- Hk.
  destruct (str_eqb n key); [reflexivity|]. now apply IH.
Qed.
Lemma find_typedef_fulldirs n (l : list (str * node sdirective)) :
  find_typedef n (map (fun kv => TSDirective (full_dirdef (nval (snd kv)))) l) = None.
Proof. induction l; cbn [map find_typedef]; auto. Qed.
Lemma find_dirdef_fulltypes n (l : list (str * node stypedef)) :
  find_dirdef n (map (fun kv => TSType (full_typedef (nval (snd kv)))) l) = None.
Proof. induction l; cbn [map find_dirdef]; auto. Qed.
Lemma schema_defs_fulldirs (l : list (str * node sdirective)) :
  schema_defs (map (fun kv => TSDirective (full_dirdef (nval (snd kv)))) l) = [].
Proof. induction l; cbn [map schema_defs]; auto. Qed.
Lemma schema_defs_fulltypes (l : list (str * node stypedef)) :
  schema_defs (map (fun kv => TSType (full_typedef (nval (snd kv)))) l) = [].
Proof. induction l; cbn [map schema_defs]; auto. Qed.

(** what [ast_to_type_system (doc_of_schema sc)] is, observation by observation *)
Theorem reify_observations sc :
  keys_match sc -> dir_keys_match sc ->
  let sc' := ast_to_type_system (doc_of_schema sc) in
  option_map nval (sc_desc sc') = option_map nval (sc_desc sc)
  /\ npos (sc_roots sc') = npos (sc_roots sc)
  /\ (forall op, root_names (nval (sc_roots sc')) op = root_names (nval (sc_roots sc)) op)
  /\ (forall n, option_map norm_typedef (get_type sc' n) = option_map norm_typedef (get_type sc n))
  /\ (forall n, option_map norm_directive (get_directive sc' n) = option_map norm_directive (get_directive sc n)).
Proof.
  intros Hk Hd. cbn zeta. unfold doc_of_schema.
  set (sd := mkSchemaDef _ _ _ _). set (ds := map _ (sc_dirs sc)). set (tys := map _ (sc_types sc)).
  destruct (desc_roots_ast (TSSchema sd :: ds ++ tys)) as [Hde Hr]. cbn [schema_defs] in Hde, Hr.
  rewrite schema_defs_app in Hde, Hr. unfold ds, tys in Hde, Hr. rewrite schema_defs_fulldirs, schema_defs_fulltypes in Hde, Hr.
  cbn [app fold_left] in Hde, Hr. fold ds tys in Hde, Hr.
  repeat split.
  - rewrite Hde. unfold sd_step, sd. cbn [fst convert_schema_definition b_desc sd_desc]. destruct (sc_desc sc); reflexivity.
  - rewrite Hr. reflexivity.
  - intros op. rewrite Hr. unfold sd_step, sd.
    cbn [snd fst convert_schema_definition b_roots sd_ops sd_pos nval]. unfold root_names.
    destruct (nval (sc_roots sc)) as [q mu su]. cbn [r_query r_mutation r_subscription].
    destruct q, mu, su, op; reflexivity.
  - intros n. rewrite get_type_ast. cbn [find_typedef]. rewrite find_typedef_app. unfold ds, tys.
    rewrite find_typedef_fulldirs, (find_full_types n _ Hk).
    unfold get_type. destruct (lookup n (sc_types sc)) as [d|]; cbn [option_map]; [|reflexivity].
    now rewrite norm_full_typedef.
  - intros n. rewrite get_directive_ast. cbn [find_dirdef]. rewrite find_dirdef_app. unfold ds, tys.
    rewrite (find_full_dirs n _ Hd), find_dirdef_fulltypes.
    unfold get_directive. destruct (lookup n (sc_dirs sc)) as [d|]; cbn [option_map]; [|reflexivity].
    now rewrite norm_full_dirdef.
Qed.

(** hence the reified document denotes an equivalent Schema, on every name *)
Theorem reify_equiv sc :
  keys_match sc -> dir_keys_match sc ->
  schema_equiv_on (fun _ => true) (ast_to_type_system (doc_of_schema sc)) sc.
Proof.
  intros Hk Hd. destruct (reify_observations sc Hk Hd) as [Hde [Hp [Hn [Hty Hdir]]]].
  split; [assumption|]. split; [|split; [intros n _; apply Hty|assumption]].
  intros op. rewrite !root_type_def.
  assert (Hrn : root_name (ast_to_type_system (doc_of_schema sc)) op = root_name sc op).
  { unfold root_name, roots_explicit. rewrite Hp.
    pose proof (Hn op) as Ho. pose proof (Hn Query) as Hq. unfold root_names in Ho, Hq. cbn [declared_root] in Hq.
    destruct (declared_root (nval (sc_roots (ast_to_type_system (doc_of_schema sc)))) op) as [x|],
             (declared_root (nval (sc_roots sc)) op) as [y|]; cbn [option_map] in Ho; try discriminate.
    - congruence.
    - destruct (r_query (nval (sc_roots (ast_to_type_system (doc_of_schema sc))))), (r_query (nval (sc_roots sc)));
        cbn [option_map] in Hq; try discriminate; reflexivity. }
  rewrite Hrn. destruct (root_name sc op) as [n|]; [|reflexivity].
  pose proof (Hty n) as E.
  rewrite <- (is_some_option_map norm_typedef (get_type (ast_to_type_system (doc_of_schema sc)) n)), E, is_some_option_map.
  reflexivity.
Qed.

(** the JSON route establishes both key invariants *)
Theorem json_route_dir_keys_match j sc : json_route j = Ok sc -> dir_keys_match sc.
Proof.
  unfold json_route. destruct (de_result j) as [v|]; [|discriminate]. unfold introspection.
  destruct (map_res as_type_definition (is_types v)) as [tys|e]; cbn [bind]; [|discriminate].
  intros H. injection H as <-. unfold dir_keys_match, build. cbn [sc_dirs b_dirs].
  apply Forall_extend_all; [constructor|]. apply Forall_forall. intros kv Hin.
  apply in_map_iff in Hin as [t [<- _]]. reflexivity.
Qed.
