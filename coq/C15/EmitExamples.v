(** C15 — non-vacuity of C15_emit_respects_equiv on the example model: the hypotheses hold for a scalar configuration that
    maps the built-in scalars and Date, and the compared declarations are real ones (an object with a deprecated field,
    an input object with a self reference, a union, an enum, a custom scalar). *)
From V Require Import Base.Util Gql.Ast Ts.TsType C15.Model C15.Spec C15.Proofs1 C15.Proofs C15.EmitSim.

Module X := V.C10.Model.

Definition ex_opts : X.sopts :=
  X.mkSOpts [(s "Int", X.ScSingle (s "number")); (s "Float", X.ScSingle (s "number")); (s "String", X.ScSingle (s "string"));
             (s "Boolean", X.ScSingle (s "boolean")); (s "ID", X.ScSingle (s "string | number")); (s "Date", X.ScSingle (s "string"))]
            (s "__nitrogql_schema") true false.
Definition ex_sj : schema := json_schema (listed_types true ex_model) ex_model.
Definition ex_da : tsdoc := type_system_to_ast ex_sj.
Definition ex_dd : tsdoc := reposition (sdl_doc ex_model).

Example ex_emit_guards :
  forallb (fun tg => bag_equiv_b (X.c_bag (X.make_ctx ex_opts ex_da tg)) (X.c_bag (X.make_ctx ex_opts ex_dd tg))) X.all_targets = true
  /\ forallb (fun n => match X.get_type ex_da n with Some t => emit_closed (vis_of ex_model) t | None => false end)
             (map mt_name (m_types ex_model)) = true.
Proof. split; vm_compute; reflexivity. Qed.

(** the conclusion, computed: every type of the model except the interface, in every namespace *)
Example ex_emit_conclusion :
  forallb (fun tg =>
    forallb (fun n =>
      match X.get_type ex_da n, X.get_type ex_dd n with
      | Some ta, Some td =>
          match res_shape (X.type_member (X.make_ctx ex_opts ex_da tg) ta), res_shape (X.type_member (X.make_ctx ex_opts ex_dd tg) td) with
          | X.Ok (Some (l1, _)), X.Ok (Some (l2, _)) => str_eqb l1 l2
          | X.Ok None, X.Ok None => true
          | _, _ => false
          end
      | _, _ => false
      end) (map mt_name (m_types ex_model))) X.all_targets = true.
Proof. vm_compute. reflexivity. Qed.

(* ------------------------------------------------------------------------------------------ *)
(** * non-vacuity of C15_emit_respects_equiv_interface and C15_alias_denotations_agree *)
From V Require Import C15.EmitIface C15.EmitDen.
From V Require C10.Spec.
Module XS := V.C10.Spec.

(** an introspection result without the introspection types (their names start with `__`, which C10's [wf_schema] excludes) *)
Definition ex_sj0 : schema := json_schema (listed_types false ex_model) ex_model.
Definition ex_da0 : tsdoc := type_system_to_ast ex_sj0.

Definition res_ok {A} (r : X.res A) : bool := match r with X.Ok _ => true | _ => false end.
Definition alias_present (o : X.sopts) (D : tsdoc) (t : X.target) (T : str) : bool :=
  match X.schema_decls o D with
  | X.Ok nss => match XS.alias_of (XS.namespace_of nss t) T with Some _ => true | None => false end
  | _ => false
  end.

Example ex_den_guards :
  XS.wf_schema ex_opts ex_da0 = true /\ XS.wf_schema ex_opts ex_dd = true
  /\ res_ok (X.schema_decls ex_opts ex_da0) = true /\ res_ok (X.schema_decls ex_opts ex_dd) = true
  /\ doc_emit_closed_b (vis_of ex_model) ex_da0 = true
  /\ objects_outside_b (vis_of ex_model) ex_da0 = true /\ objects_outside_b (vis_of ex_model) ex_dd = true
  /\ objects_outside_b (vis_of ex_model) ex_da = true.
Proof. repeat split; vm_compute; reflexivity. Qed.

(** every type of the model that has an alias in a namespace has it on both routes: the interface Node, the union U and the
    objects in the output namespaces, the input object in the input namespaces, scalars and the enum everywhere *)
Example ex_den_aliases :
  forallb (fun t => forallb (fun T => Bool.eqb (XS.applicable ex_da0 t T) (alias_present ex_opts ex_da0 t T)
                                      && Bool.eqb (XS.applicable ex_da0 t T) (alias_present ex_opts ex_dd t T))
                            (map mt_name (m_types ex_model))) X.all_targets = true
  /\ XS.applicable ex_da0 X.OpOut (s "Node") = true /\ XS.applicable ex_da0 X.ResIn (s "Filter") = true.
Proof. repeat split; vm_compute; reflexivity. Qed.

(** the interface: the two routes list the implementers of Node in different documents but as the same set *)
Example ex_iface_members :
  X.interface_implementers ex_da (s "Node") <> [] /\
  map iname (X.interface_implementers ex_da (s "Node")) = map iname (X.interface_implementers ex_dd (s "Node")).
Proof. split; [vm_compute; discriminate|vm_compute; reflexivity]. Qed.
