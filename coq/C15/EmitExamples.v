(** C15 — non-vacuity of C15_emit_respects_equiv on the example model: the hypotheses hold for a scalar configuration that
    maps the built-in scalars and Date, and the compared declarations are real ones (an object with a deprecated field,
    an input object with a self reference, a union, an enum, a custom scalar). *)
From V Require Import Base.Util Gql.Ast Ts.TsType C15.Model C15.Spec C15.Proofs1 C15.Proofs C15.EmitSim.

Module X := V.C10.Model.

Definition ex_opts : X.sopts :=
  X.mkSOpts [(s "Int", X.ScSingle (s "number")); (s "Float", X.ScSingle (s "number")); (s "String", X.ScSingle (s "string"));
             (s "Boolean", X.ScSingle (s "boolean")); (s "ID", X.ScSingle (s "string | number")); (s "Date", X.ScSingle (s "string"))]
            (s "__nitrogql_schema") true false.
Definition ex_sj : schema := json_schema (listed_types true ex_model) ex_model.
Definition ex_da : tsdoc := type_system_to_ast ex_sj.
Definition ex_dd : tsdoc := reposition (sdl_doc ex_model).

Example ex_emit_guards :
  forallb (fun tg => bag_equiv_b (X.c_bag (X.make_ctx ex_opts ex_da tg)) (X.c_bag (X.make_ctx ex_opts ex_dd tg))) X.all_targets = true
  /\ forallb (fun n => match X.get_type ex_da n with Some t => emit_closed (vis_of ex_model) t | None => false end)
             (map mt_name (m_types ex_model)) = true.
Proof. split; vm_compute; reflexivity. Qed.

(** the conclusion, computed: every type of the model except the interface, in every namespace *)
Example ex_emit_conclusion :
  forallb (fun tg =>
    forallb (fun n =>
      match X.get_type ex_da n, X.get_type ex_dd n with
      | Some ta, Some td =>
          match res_shape (X.type_member (X.make_ctx ex_opts ex_da tg) ta), res_shape (X.type_member (X.make_ctx ex_opts ex_dd tg) td) with
          | X.Ok (Some (l1, _)), X.Ok (Some (l2, _)) => str_eqb l1 l2
          | X.Ok None, X.Ok None => true
          | _, _ => false
          end
      | _, _ => false
      end) (map mt_name (m_types ex_model))) X.all_targets = true.
Proof. vm_compute. reflexivity. Qed.
