(** C15 — check_respects_equiv: the operation-checker model of C03 gives the same verdict on two schema documents whose
    Schemas are equivalent on the compared names, for every operation document that mentions compared names only; and
    its instance for the two routes: the SDL document of a model and the reified Schema of the JSON route. *)
From V Require Import Base.Util Gql.Ast C15.Model C15.Spec C15.Proofs1 C15.Proofs2 C15.Proofs3 C15.Proofs4
                      C15.Reify C15.CheckBridge C15.CheckSim C15.CheckSim2.

Module K := V.C03.Model.

(* ------------------------------------------------------------------------------------------ *)
(** * computable guards on schema documents *)
Section Guards.
  Variable P : str -> bool.

  Definition typedef_closed (t : typedef) : bool :=
    negb (P (K.tname t)) ||
    match t with
    | TDInput _ _ _ _ fs _ => inputs_ok P fs
    | TDObject _ _ _ _ _ fs _ | TDInterface _ _ _ _ _ fs _ => fields_ok P fs
    | TDUnion _ _ _ _ ms _ => forallb (fun m => P (iname m)) ms
    | _ => true
    end.
  (** every definition of a compared name, and every directive definition, mentions compared names only *)
  Definition doc_closed_b (S : tsdoc) : bool :=
    forallb (fun d => match d with
                      | TSType t => typedef_closed t
                      | TSDirective dd => inputs_ok P (K.dd_argdefs dd)
                      | _ => true
                      end) S.
  (** a type that is not compared implements no interface *)
  Definition implements_nothing_b (S : tsdoc) : bool :=
    forallb (fun d => match d with
                      | TSType t => P (K.tname t) || match K.object_impls t with Some (_ :: _) => false | _ => true end
                      | _ => true
                      end) S.

  Lemma get_type_in S n t : K.get_type S n = Some t -> In (TSType t) S.
  Proof.
    induction S as [|d S IH]; cbn [K.get_type]; [discriminate|]. destruct d as [sd|t'|dd|se|te]; try (intros H; right; now apply IH).
    destruct (str_eqb (iname (typedef_name t')) n); [intros H; injection H as <-; now left|intros H; right; now apply IH].
  Qed.
  Lemma get_directive_in S n d : K.get_directive S n = Some d -> In (TSDirective d) S.
  Proof.
    induction S as [|x S IH]; cbn [K.get_directive]; [discriminate|]. destruct x as [sd|t'|dd|se|te]; try (intros H; right; now apply IH).
    destruct (str_eqb (iname (dd_name dd)) n); [intros H; injection H as <-; now left|intros H; right; now apply IH].
  Qed.

  Lemma closed_typedef S n t : doc_closed_b S = true -> P n = true -> K.get_type S n = Some t ->
    typedef_closed t = true /\ P (K.tname t) = true.
  Proof.
    intros Hc Hp Hg. unfold doc_closed_b in Hc. rewrite forallb_forall in Hc. split; [exact (Hc _ (get_type_in _ _ _ Hg))|].
    now rewrite (get_type_tname _ _ _ Hg).
  Qed.
  Lemma implements_nothing_sound S : implements_nothing_b S = true -> implements_nothing P S.
  Proof.
    intros H t Hin Hp. unfold implements_nothing_b in H. rewrite forallb_forall in H.
    pose proof (H _ (get_type_in _ _ _ (proj1 (in_iter_types S t) Hin))) as Ht. cbn beta iota in Ht. rewrite Hp in Ht. cbn [orb] in Ht.
    destruct (K.object_impls t) as [[|i l]|]; try exact I. discriminate.
  Qed.
End Guards.

Lemma frag_get_in fm n f : K.frag_get fm n = Some f -> In f fm.
Proof. unfold K.frag_get. intros H. apply find_some in H as [H _]. now apply in_rev. Qed.
Lemma doc_frags_ok P D n f : opdoc_ok P D = true -> K.frag_get (K.doc_frags D) n = Some f ->
  P (iname (fr_cond f)) = true /\ selset_ok P (fr_sel f) = true.
Proof.
  intros Hok Hg. apply frag_get_in in Hg. unfold K.doc_frags in Hg. apply in_flat_map in Hg as [d [Hd Hf]].
  unfold opdoc_ok in Hok. rewrite forallb_forall in Hok. specialize (Hok d Hd).
  destruct d as [o|f'|i]; cbn in Hf; try contradiction. destruct Hf as [<-|[]]. cbn [def_ok] in Hok. now apply Bool.andb_true_iff in Hok.
Qed.

(* ------------------------------------------------------------------------------------------ *)
(** * the general theorem *)

Lemma option_map_comp' {A B C} (g : B -> C) (f : A -> B) o : option_map g (option_map f o) = option_map (fun x => g (f x)) o.
Proof. destruct o; reflexivity. Qed.
Lemma orel_of_norm {A B} (f : A -> B) (a b : option A) : option_map f a = option_map f b -> orel (fun x y => f x = f y) a b.
Proof. destruct a, b; cbn; intros H; try discriminate; [now injection H|exact I]. Qed.

Theorem check_respects_equiv_docs S1 S2 P D :
  schema_equiv_on P (ast_to_type_system S1) (ast_to_type_system S2) ->
  doc_closed_b P S1 = true -> implements_nothing_b P S1 = true -> implements_nothing_b P S2 = true ->
  P K.str_String = true ->
  (forall o n, root_type (ast_to_type_system S1) o = Some n -> P n = true) ->
  opdoc_ok P D = true ->
  (K.check_operation_document S1 D = [] <-> K.check_operation_document S2 D = []).
Proof.
  intros [_ [Hroot [Hty Hdir]]] Hcl Hi1 Hi2 Hstr HrootP Hok.
  assert (Hty' : forall n, P n = true -> orel td_rel (K.get_type S1 n) (K.get_type S2 n)).
  { intros n Hp. specialize (Hty n Hp). rewrite !get_type_ast, <- !k_get_type in Hty.
    change V.C03.Model.get_type with K.get_type in Hty.
    rewrite !option_map_comp' in Hty. exact (orel_of_norm _ _ _ Hty). }
  assert (Hdir' : forall n, orel dd_rel (K.get_directive S1 n) (K.get_directive S2 n)).
  { intros n. specialize (Hdir n). rewrite !get_directive_ast, <- !k_get_directive in Hdir.
    change V.C03.Model.get_directive with K.get_directive in Hdir.
    rewrite !option_map_comp' in Hdir. exact (orel_of_norm _ _ _ Hdir). }
  assert (C1 : forall n d p nm ds fs kw, P n = true -> K.get_type S1 n = Some (TDInput d p nm ds fs kw) -> inputs_ok P fs = true).
  { intros n d p nm ds fs kw Hp Hg. destruct (closed_typedef P S1 n _ Hcl Hp Hg) as [Hc Hpn]. unfold typedef_closed in Hc. rewrite Hpn in Hc. exact Hc. }
  assert (C2 : forall n dd, K.get_directive S1 n = Some dd -> inputs_ok P (K.dd_argdefs dd) = true).
  { intros n dd Hg. unfold doc_closed_b in Hcl. rewrite forallb_forall in Hcl. exact (Hcl _ (get_directive_in _ _ _ Hg)). }
  assert (C3 : forall n td, P n = true -> K.get_type S1 n = Some td -> out_ok P td = true).
  { intros n td Hp Hg. destruct (closed_typedef P S1 n _ Hcl Hp Hg) as [Hc Hpn]. unfold typedef_closed in Hc. rewrite Hpn in Hc. cbn [negb orb] in Hc.
    destruct td; exact Hc || reflexivity. }
  pose proof (implements_nothing_sound P S1 Hi1) as I1. pose proof (implements_nothing_sound P S2 Hi2) as I2.
  assert (Hfm : forall n f, K.frag_get (K.doc_frags D) n = Some f -> P (iname (fr_cond f)) = true /\ selset_ok P (fr_sel f) = true).
  { intros n f Hg. exact (doc_frags_ok P D n f Hok Hg). }
  unfold K.check_operation_document, K.check_operation_document_fuel.
  apply vrel_app.
  - (* operations and fragment definitions *)
    exact (definitions_vrel S1 S2 P Hty' Hdir' C1 C2 C3 Hstr I1 I2 (K.doc_frags D) Hfm Hroot HrootP _ _ _ _ Hok).
  - (* fragments that no operation spreads, checked on their own (UnknownVariable dropped): the same messages *)
    apply msgs_vrel. exact (unspread_rel S1 S2 P Hty' Hdir' C1 C2 C3 Hstr I1 I2 (K.doc_frags D) Hfm _ _ _ Hok).
Qed.

(* ------------------------------------------------------------------------------------------ *)
(** * the two routes *)

Definition sim_guard_b (P : str -> bool) (Dsdl Djson : tsdoc) : bool :=
  doc_closed_b P Dsdl && implements_nothing_b P Dsdl && implements_nothing_b P Djson && P K.str_String.

Theorem check_respects_equiv st meta M Dsdl :
  model_ok M = true -> doc_equiv Dsdl (sdl_doc M) -> parsed_positions Dsdl ->
  exists Sj, json_route (introspect st meta M) = Ok Sj /\
    (sim_guard_b (vis_of M) Dsdl (doc_of_schema Sj) = true ->
     forall D, opdoc_ok (vis_of M) D = true ->
       (K.check_operation_document Dsdl D = [] <-> K.check_operation_document (doc_of_schema Sj) D = [])).
Proof.
  intros Hok He Hp. destruct (routes_agree st meta M Dsdl Hok He Hp) as [Sj [Hj [Hdesc [Hroot [Hty Hdir]]]]].
  exists Sj. split; [assumption|]. intros Hg D HD.
  unfold sim_guard_b in Hg. apply Bool.andb_true_iff in Hg as [Hg Hstr]. apply Bool.andb_true_iff in Hg as [Hg Hi2].
  apply Bool.andb_true_iff in Hg as [Hcl Hi1].
  destruct (reify_equiv Sj (json_route_keys_match _ _ Hj) (json_route_dir_keys_match _ _ Hj)) as [Rdesc [Rroot [Rty Rdir]]].
  apply (check_respects_equiv_docs Dsdl (doc_of_schema Sj) (vis_of M) D); try assumption.
  - split; [now rewrite Rdesc|]. split; [intros o; now rewrite Rroot|]. split.
    + intros n Hv. rewrite (Rty n eq_refl). symmetry. now apply Hty.
    + intros n. rewrite Rdir. symmetry. apply Hdir.
  - intros o n Hn. rewrite <- Hroot in Hn. unfold root_type in Hn.
    destruct (root_name Sj o) as [m|] eqn:Hrn; [|discriminate]. destruct (get_type Sj m); [|discriminate]. injection Hn as ->.
    exact (root_names_are_compared st meta M Sj o n Hok Hj Hrn).
Qed.
