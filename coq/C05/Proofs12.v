(** C05 — proofs, part 12: a document that gets no diagnostic has no `implements` cycle (spec 3.7:
    an interface may not implement itself, together with the transitive-declaration rule). *)
From V Require Import Base.Util Gql.Ast C05.Model C05.Spec C05.Proofs C05.Proofs2 C05.Proofs3.

Section Acyclic.
  Variable doc : tsdoc.
  Hypothesis Hchk : check_doc doc = [].
  Hypothesis Huniq : unique_names doc = true.

  (** with unique names there is one entry of [comps] per name, and it is what the name looks up *)
  Lemma comp_lookup c : In c (comps doc) -> exists t, lookup_t doc (iname (fst (fst c))) = Some t /\ comp_parts t = Some c.
  Proof.
    intros Hc. apply In_comps in Hc as [t [Ht Hp]]. exists t. split; [|exact Hp].
    assert (Hn : tn t = iname (fst (fst c))).
    { destruct t; cbn [comp_parts] in Hp; try discriminate; injection Hp as <-; reflexivity. }
    rewrite <- Hn. apply lookup_t_self; assumption.
  Qed.
  Lemma comp_unique c c' : In c (comps doc) -> In c' (comps doc) -> iname (fst (fst c)) = iname (fst (fst c')) -> c = c'.
  Proof.
    intros H H' E. destruct (comp_lookup c H) as [t [L P]]. destruct (comp_lookup c' H') as [t' [L' P']].
    rewrite E in L. rewrite L in L'. injection L' as <-. congruence.
  Qed.

  Lemma declares_In impls b : declares impls b = true -> exists i, In i impls /\ iname i = b.
  Proof. unfold declares. intros H. apply existsb_exists in H as [i [Hi He]]. apply str_eqb_eq in He. eauto. Qed.

  (** following declarations for one or more steps stays inside what the first type declares *)
  Lemma path_declares k : forall a b, ipath doc (S k) a b ->
    forall n impls fs, In (n, impls, fs) (comps doc) -> iname n = a ->
    declares impls b = true /\ exists d p n' ii ds ifs kw, lookup_t doc b = Some (TDInterface d p n' ii ds ifs kw).
  Proof.
    induction k as [|k IH]; intros a b Hp n impls fs Hc Hn; inversion Hp as [|? ? x ? He Hp']; subst.
    - inversion Hp'; subst. destruct He as [n0 [impls0 [fs0 [Hc0 [Hn0 Hd]]]]].
      assert (E : (n0, impls0, fs0) = (n, impls, fs)) by (apply comp_unique; [exact Hc0 | exact Hc | cbn; congruence]).
      injection E as -> -> ->. split; [exact Hd|].
      apply declares_In in Hd as [i [Hi Hb]].
      destruct (clean_comp doc Hchk _ _ _ Hc) as [_ [_ [bs [Himp _]]]].
      destruct (implements_entry doc Huniq _ _ _ _ _ Himp Hi) as [_ [d [p [n' [ii [ds [ifs [kw [Hl _]]]]]]]]].
      rewrite Hb in Hl. do 7 eexists. exact Hl.
    - destruct He as [n0 [impls0 [fs0 [Hc0 [Hn0 Hd]]]]].
      assert (E : (n0, impls0, fs0) = (n, impls, fs)) by (apply comp_unique; [exact Hc0 | exact Hc | cbn; congruence]).
      injection E as -> -> ->.
      apply declares_In in Hd as [i [Hi Hx]].
      destruct (clean_comp doc Hchk _ _ _ Hc) as [_ [_ [bs [Himp _]]]].
      destruct (implements_entry doc Huniq _ _ _ _ _ Himp Hi) as [_ [d [p [n' [ii [ds [ifs [kw [Hl _]]]]]]]]].
      (* the comps entry of x *)
      pose proof (lookup_t_In _ _ _ Hl) as [Hlin Hln].
      assert (Hcx : In (n', ii, ifs) (comps doc)) by (apply In_comps; eexists; split; [exact Hlin | reflexivity]).
      assert (Hnx : iname n' = x) by (unfold tn in Hln; cbn [typedef_name] in Hln; congruence).
      destruct (IH x b Hp' n' ii ifs Hcx Hnx) as [Hdb Hib]. split; [|exact Hib].
      (* transitivity rule for (n, impls, fs) and its declared interface x *)
      pose proof (sound_missing_transitive doc Hchk Huniq) as HT. unfold ok_missing_transitive in HT.
      rewrite forallb_forall in HT. specialize (HT _ Hc). cbn [fst snd] in HT. rewrite forallb_forall in HT.
      assert (Hj : In (n', ii, ifs) (declared_ifaces doc impls)).
      { unfold declared_ifaces. apply in_flat_map. exists i. split; [exact Hi|]. rewrite Hl. left; reflexivity. }
      specialize (HT _ Hj). cbn [fst snd] in HT. rewrite forallb_forall in HT.
      apply declares_In in Hdb as [kk [Hkk Hkb]]. specialize (HT kk Hkk). rewrite Hkb in HT. exact HT.
  Qed.

  Theorem no_implements_cycle : implements_acyclic doc.
  Proof.
    intros k a Hp.
    assert (He : exists n impls fs, In (n, impls, fs) (comps doc) /\ iname n = a).
    { inversion Hp as [|? ? x ? [n [impls [fs [Hc [Hn _]]]]] _]; subst. eauto. }
    destruct He as [n [impls [fs [Hc Hn]]]].
    destruct (path_declares k a a Hp n impls fs Hc Hn) as [Hd [d [p [n' [ii [ds [ifs [kw Hl]]]]]]]].
    (* a is an interface, so its comps entry is that interface's *)
    destruct (comp_lookup _ Hc) as [t [Lt Pt]]. cbn [fst] in Lt. rewrite Hn, Hl in Lt. injection Lt as <-.
    cbn [comp_parts] in Pt. injection Pt as -> -> ->.
    pose proof (sound_implements_self doc Hchk Huniq) as HS. unfold ok_implements_self in HS. rewrite forallb_forall in HS.
    apply lookup_t_In in Hl as [Hlin _]. specialize (HS _ Hlin). cbn beta iota in HS.
    apply negb_true_iff in HS. unfold declares in Hd. rewrite Hn in HS. congruence.
  Qed.
End Acyclic.
