(** C05 — proofs, part 3: IsValidImplementation.  check_doc doc = [] -> the interface rules. *)
From V Require Import Base.Util Gql.Ast C05.Model C05.Spec C05.Proofs C05.Proofs2.

Lemma find_ext {A} (f g : A -> bool) l : (forall x, f x = g x) -> find f l = find g l.
Proof. intros H. induction l as [|a l IH]; cbn [find]; [reflexivity|]. rewrite H, IH. reflexivity. Qed.
Lemma find_none_forall {A} (f : A -> bool) l : find f l = None <-> forallb (fun x => negb (f x)) l = true.
Proof.
  induction l as [|a l IH]; cbn [find forallb]; [tauto|].
  destruct (f a); cbn [negb andb]; [split; discriminate | exact IH].
Qed.

Lemma find_fielddef_named n fs : find_fielddef n fs = field_named fs n.
Proof. apply find_ext. intros x. apply str_eqb_sym. Qed.
Lemma find_inputval_named n l : find_inputval n l = arg_named l n.
Proof. reflexivity. Qed.
Lemma ty_is_same_same a b : ty_is_same a b = same_type a b.
Proof. revert b. induction a; intros []; cbn [ty_is_same same_type]; auto. Qed.
Lemma opt_list_args_of {A} (o : option (list A)) : opt_list o = match o with Some l => l | None => [] end.
Proof. reflexivity. Qed.

(** unwrapping commutes with the way is_subtype strips its second argument *)
Lemma base_strip (t : ty) : base_name (match t with TNonNull i => i | _ => t end) = base_name t.
Proof. destruct t; reflexivity. Qed.

Lemma is_subtype_none doc a b :
  is_subtype doc a b = None -> defined doc (base_name a) = false \/ defined doc (base_name b) = false.
Proof.
  revert b. induction a as [n|a IH|p a IH]; intros b H; cbn [is_subtype] in H.
  - unfold base_name at 1. cbn [ty_unwrapped]. unfold defined at 1. rewrite <- first_type_lookup.
    destruct b as [o| |]; cbn in H.
    + destruct (str_eqb (iname n) (iname o)); [discriminate|].
      destruct (first_type doc (iname n)) as [td|]; [|left; reflexivity]. right.
      unfold base_name. cbn [ty_unwrapped]. unfold defined. rewrite <- first_type_lookup.
      destruct td; try discriminate;
        destruct (existsb _ _); try discriminate;
        destruct (first_type doc (iname o)) as [[]|]; try discriminate; try reflexivity;
        destruct (existsb _ _); discriminate.
    + destruct (first_type doc (iname n)) as [[]|]; try discriminate. left; reflexivity.
    + destruct (first_type doc (iname n)) as [[]|]; try discriminate. left; reflexivity.
  - apply IH in H. rewrite base_strip in H. exact H.
  - destruct b; try discriminate. apply IH in H. exact H.
Qed.

Section Impl.
  Variable doc : tsdoc.
  Hypothesis Hchk : check_doc doc = [].
  Hypothesis Huniq : unique_names doc = true.

  (** every name in an `implements` list of a definition of the document is an interface *)
  Lemma impls_are_interfaces t n impls fs i :
    In t (types_of doc) -> comp_parts t = Some (n, impls, fs) -> In i impls -> is_interface doc (iname i) = Some true.
  Proof.
    intros Ht Hc Hi. assert (Hin : In (n, impls, fs) (comps doc)) by (apply In_comps; eauto).
    apply (clean_comp doc Hchk) in Hin as [_ [_ [b [Himp _]]]].
    destruct (implements_entry doc Huniq _ _ _ _ _ Himp Hi) as [_ [d [p [n' [ii [ds [ifs [kw [Hl _]]]]]]]]].
    unfold is_interface. rewrite Hl. reflexivity.
  Qed.

  Lemma is_subtype_true a b : is_subtype doc a b = Some true -> valid_impl_field_type doc a b = true.
  Proof.
    revert b. induction a as [n|a IH|p a IH]; intros b H; cbn [is_subtype valid_impl_field_type] in *.
    - destruct b as [o| |]; cbn in H.
      + destruct (str_eqb (iname n) (iname o)) eqn:E; [reflexivity|]. cbn [orb].
        rewrite first_type_lookup in H.
        destruct (lookup_t doc (iname n)) as [td|] eqn:L; [|discriminate].
        apply lookup_t_In in L as [Lin Ln].
        pose proof (lookup_t_self doc td Huniq Lin) as Lself. rewrite Ln in Lself.
        destruct td; try discriminate.
        * (* object *)
          unfold is_object, is_obj_or_iface, declares_iface. rewrite Lself.
          destruct (existsb (fun i => str_eqb (iname i) (iname o)) impls) eqn:Ex.
          -- apply existsb_exists in Ex as [i [Hi He]]. apply str_eqb_eq in He.
             rewrite (orb_comm (true && _)). cbn [andb]. unfold declares. 
             assert (Hd : existsb (fun i0 => str_eqb (iname i0) (iname o)) impls = true)
               by (apply existsb_exists; exists i; split; [exact Hi | apply str_eqb_eq; exact He]).
             rewrite Hd. rewrite <- He. erewrite impls_are_interfaces; [reflexivity | exact Lin | reflexivity | exact Hi].
          -- rewrite first_type_lookup in H. unfold is_union_member.
             destruct (lookup_t doc (iname o)) as [[]|]; try discriminate.
             destruct (existsb (fun m => str_eqb (iname m) (iname n)) members); [reflexivity | discriminate].
        * (* interface *)
          unfold is_object, is_obj_or_iface, declares_iface. rewrite Lself. cbn [andb orb].
          destruct (existsb (fun i => str_eqb (iname i) (iname o)) impls) eqn:Ex.
          -- unfold declares. rewrite Ex. apply existsb_exists in Ex as [i [Hi He]]. apply str_eqb_eq in He.
             rewrite <- He. erewrite impls_are_interfaces; [reflexivity | exact Lin | reflexivity | exact Hi].
          -- rewrite first_type_lookup in H. destruct (lookup_t doc (iname o)); discriminate.
      + destruct (first_type doc (iname n)) as [[]|]; discriminate.
      + destruct (first_type doc (iname n)) as [[]|]; discriminate.
    - apply IH. exact H.
    - destruct b; try discriminate. apply IH. exact H.
  Qed.

  (** what check_valid_implementation = [] gives for a type [c] and an interface it declares *)
  Lemma impl_facts n impls fs j :
    In (n, impls, fs) (comps doc) -> In j (declared_ifaces doc impls) ->
    check_valid_implementation doc n fs impls (fst (fst j)) (snd (fst j)) (snd j) = [].
  Proof.
    intros Hc Hj. apply (clean_comp doc Hchk) in Hc as [_ [_ [b [Himp _]]]].
    unfold declared_ifaces in Hj. apply in_flat_map in Hj as [i [Hi Hj]].
    destruct (implements_entry doc Huniq _ _ _ _ _ Himp Hi) as [_ [d [p [n' [ii [ds [ifs [kw [Hl Hv]]]]]]]]].
    rewrite Hl in Hj. destruct Hj as [<-|[]]. exact Hv.
  Qed.

  Lemma sound_missing_transitive : ok_missing_transitive doc = true.
  Proof.
    unfold ok_missing_transitive. apply forallb_forall. intros [[n impls] fs] Hc. cbn [fst snd].
    apply forallb_forall. intros j Hj. apply forallb_forall. intros k Hk.
    pose proof (impl_facts _ _ _ _ Hc Hj) as H. unfold check_valid_implementation in H. split_nil H.
    rewrite flat_map_nil in Hn. specialize (Hn k Hk). unfold declares.
    destruct (existsb _ impls); [reflexivity | discriminate].
  Qed.

  Lemma impl_field_facts n impls fs j jf :
    In (n, impls, fs) (comps doc) -> In j (declared_ifaces doc impls) -> In jf (snd j) ->
    exists f, field_named fs (iname (fd_name jf)) = Some f /\
              check_impl_field doc (iname (fst (fst j))) f jf = [].
  Proof.
    intros Hc Hj Hjf. pose proof (impl_facts _ _ _ _ Hc Hj) as H. unfold check_valid_implementation in H. split_nil H.
    rewrite flat_map_nil in H. specialize (H jf Hjf). rewrite find_fielddef_named in H.
    destruct (field_named fs (iname (fd_name jf))) as [f|]; [|discriminate]. exists f. split; [reflexivity | exact H].
  Qed.

  Lemma sound_iface_field_missing : ok_iface_field_missing doc = true.
  Proof.
    unfold ok_iface_field_missing, forall_impl_fields. apply forallb_forall. intros [[n impls] fs] Hc. cbn [fst snd].
    apply forallb_forall. intros j Hj. apply forallb_forall. intros jf Hjf.
    destruct (impl_field_facts _ _ _ _ _ Hc Hj Hjf) as [f [-> _]]. reflexivity.
  Qed.

  Lemma sound_iface_arg_missing : ok_iface_arg_missing doc = true.
  Proof.
    unfold ok_iface_arg_missing, forall_impl_fields. apply forallb_forall. intros [[n impls] fs] Hc. cbn [fst snd].
    apply forallb_forall. intros j Hj. apply forallb_forall. intros jf Hjf.
    destruct (impl_field_facts _ _ _ _ _ Hc Hj Hjf) as [f [-> H]].
    unfold check_impl_field in H. split_nil H. apply forallb_forall. intros ja Hja.
    rewrite flat_map_nil in Hn. specialize (Hn ja Hja). rewrite find_inputval_named in Hn.
    unfold args_of. rewrite opt_list_args_of in Hn. destruct (arg_named _ _); [reflexivity | discriminate].
  Qed.

  Lemma sound_iface_arg_type : ok_iface_arg_type doc = true.
  Proof.
    unfold ok_iface_arg_type, forall_impl_fields. apply forallb_forall. intros [[n impls] fs] Hc. cbn [fst snd].
    apply forallb_forall. intros j Hj. apply forallb_forall. intros jf Hjf.
    destruct (impl_field_facts _ _ _ _ _ Hc Hj Hjf) as [f [-> H]].
    unfold check_impl_field in H. split_nil H. apply forallb_forall. intros ja Hja.
    rewrite flat_map_nil in Hn. specialize (Hn ja Hja). rewrite find_inputval_named in Hn.
    unfold args_of. rewrite opt_list_args_of in Hn. destruct (arg_named _ _) as [fa|]; [|reflexivity].
    rewrite <- ty_is_same_same. destruct (ty_is_same _ _); [reflexivity | discriminate].
  Qed.

  Lemma sound_iface_extra_required_arg : ok_iface_extra_required_arg doc = true.
  Proof.
    unfold ok_iface_extra_required_arg, forall_impl_fields. apply forallb_forall. intros [[n impls] fs] Hc. cbn [fst snd].
    apply forallb_forall. intros j Hj. apply forallb_forall. intros jf Hjf.
    destruct (impl_field_facts _ _ _ _ _ Hc Hj Hjf) as [f [-> H]].
    unfold check_impl_field in H. split_nil H. apply forallb_forall. intros a Ha.
    rewrite flat_map_nil in Hn0. specialize (Hn0 a Ha). unfold args_of. rewrite opt_list_args_of in Hn0.
    destruct (arg_named _ (iname (iv_name a))) eqn:E; [reflexivity|].
    apply find_none_forall in E. rewrite E in Hn0. unfold is_required. unfold iv_required in Hn0.
    destruct (iv_type a), (iv_default a); cbn [ty_is_nonnull andb] in Hn0; try reflexivity. discriminate.
  Qed.

  Lemma sound_iface_field_type : ok_iface_field_type doc = true.
  Proof.
    unfold ok_iface_field_type, forall_impl_fields. apply forallb_forall. intros [[n impls] fs] Hc. cbn [fst snd].
    apply forallb_forall. intros j Hj. apply forallb_forall. intros jf Hjf.
    destruct (impl_field_facts _ _ _ _ _ Hc Hj Hjf) as [f [-> H]].
    unfold check_impl_field in H. split_nil H.
    destruct (ty_defined doc (fd_type f) && ty_defined doc (fd_type jf)) eqn:D; [|reflexivity].
    apply andb_true_iff in D as [D1 D2]. unfold ty_defined in *.
    destruct (is_subtype doc (fd_type f) (fd_type jf)) as [[]|] eqn:S.
    - apply is_subtype_true. exact S.
    - discriminate.
    - apply is_subtype_none in S as [S|S]; congruence.
  Qed.
End Impl.
