(** C05 — proofs, part 8: the statements collected (soundness of every implemented rule), the three former
    deviations now behaving as specified, observations, non-vacuity. *)
From V Require Import Base.Util Gql.Ast C05.Model C05.Spec C05.Witness
     C05.Proofs C05.Proofs2 C05.Proofs3 C05.Proofs4 C05.Proofs5 C05.Proofs6 C05.Proofs7.

Lemma sound_all doc :
  check_doc doc = [] -> unique_names doc = true -> forall r, rule_ok r doc = true.
Proof.
  intros Hc Hu r. unfold rule_ok. destruct r; cbn [rule_ok_gen].
  - apply sound_reserved; assumption.
  - apply sound_dup_field; assumption.
  - apply sound_dup_arg; assumption.
  - apply sound_dup_enum_value; assumption.
  - apply sound_dup_union_member; assumption.
  - apply sound_dup_input_field; assumption.
  - apply nodup_str_NoDup. apply check_doc_user_directives_unique. exact Hc.
  - apply sound_unknown_type; assumption.
  - apply sound_input_in_output; assumption.
  - apply sound_output_in_input; assumption.
  - apply sound_not_interface; assumption.
  - apply sound_implements_self; assumption.
  - apply sound_missing_transitive; assumption.
  - apply sound_iface_field_missing; assumption.
  - apply sound_iface_field_type; assumption.
  - apply sound_iface_arg_missing; assumption.
  - apply sound_iface_arg_type; assumption.
  - apply sound_iface_extra_required_arg; assumption.
  - apply sound_union_member_not_object; assumption.
  - apply sound_directive_unknown; assumption.
  - apply sound_directive_misplaced; assumption.
  - apply sound_directive_repeated; assumption.
  - apply sound_directive_args; assumption.
  - apply sound_directive_recursive; assumption.
Qed.

(** since 451006c duplicate directive definitions are diagnosed, so uniqueness of the schema's own directive names is
    no premise any more: what remains is unique type names and "the built-in directive definitions are not redefined" *)
Lemma sound_dup_directive doc : check_doc doc = [] -> ok_dup_directive doc = true.
Proof. intros H. apply nodup_str_NoDup. apply check_doc_user_directives_unique. exact H. Qed.
Lemma sound_all_weak doc :
  check_doc doc = [] -> unique_type_names doc = true -> builtins_not_redefined doc = true ->
  forall r, rule_ok r doc = true.
Proof.
  intros Hc Ht Hb. apply sound_all; [exact Hc|]. apply unique_names_from; [exact Ht | apply sound_dup_directive; exact Hc | exact Hb].
Qed.

(** since 556742c an Int literal outside the signed 32-bit range is reported *)
Lemma int_range_rejected :
  ok_directive_args w_int_range = false /\ check_doc w_int_range = w_int_range_errs /\ w_int_range_errs <> [].
Proof. vm_compute. repeat split. discriminate. Qed.

(** since fe470c6 an additional non-null argument with a default value is accepted *)
Lemma extra_default_accepted : spec_valid w_extra_default = true /\ check_doc w_extra_default = [].
Proof. vm_compute. repeat split. Qed.

(** since 2bc0346 directive recursion through nested input types is reported; an input-object cycle alone is not *)
Lemma nested_recursion_rejected :
  ok_directive_recursive w_nested = false /\ check_doc w_nested = w_nested_errs /\ w_nested_errs <> [].
Proof. vm_compute. repeat split. discriminate. Qed.
Lemma input_cycle_recursion_rejected :
  ok_directive_recursive w_input_cycle_rec = false /\ check_doc w_input_cycle_rec = w_input_cycle_rec_errs /\ w_input_cycle_rec_errs <> [].
Proof. vm_compute. repeat split. discriminate. Qed.
Lemma input_cycle_alone_accepted : spec_valid w_input_cycle = true /\ check_doc w_input_cycle = [].
Proof. vm_compute. repeat split. Qed.

(** since 7d19234 every occurrence of an argument given twice is type-checked *)
Lemma dup_arg_ill_typed_rejected :
  ok_directive_args w_dup_arg_ill_typed = false /\ check_doc w_dup_arg_ill_typed = w_dup_arg_ill_typed_errs /\ w_dup_arg_ill_typed_errs <> [].
Proof. vm_compute. repeat split. discriminate. Qed.

(** observations outside the implemented rules.  An object type without fields and a union without members (they
    parse since 530788b / 3814a72) get no diagnostic, although the specification asks for one or more fields / member
    types; an input-object literal naming a field twice with well-typed values gets none either (Input Object Field
    Uniqueness is not implemented; before 7d19234 it was rejected by an accident of the occurrence count) *)
Lemma empty_object_accepted : check_doc w_empty_object = [] /\ nonempty_ok w_empty_object = false /\ spec_valid w_empty_object = false.
Proof. vm_compute. repeat split. Qed.
Lemma empty_union_accepted : check_doc w_empty_union = [] /\ nonempty_ok w_empty_union = false /\ spec_valid w_empty_union = false.
Proof. vm_compute. repeat split. Qed.
Lemma dup_literal_field_accepted :
  check_doc w_dup_literal_field = [] /\ ok_literal_field_unique w_dup_literal_field = false /\ spec_valid w_dup_literal_field = false.
Proof. vm_compute. repeat split. Qed.

(** non-vacuity: the hypotheses of [sound_all] hold of a document with directive applications, nested list and
    input-object literals; and a recursive directive definition is reported *)
Example sound_all_nonvacuous : check_doc w_valid = [] /\ unique_names w_valid = true /\ spec_valid w_valid = true.
Proof. vm_compute. repeat split. Qed.
Example reached_twice_is_not_recursion : check_doc w_twice = [] /\ spec_valid w_twice = true.
Proof. vm_compute. repeat split. Qed.
Example self_recursion_reported : check_doc w_self = w_self_errs /\ w_self_errs <> [] /\ ok_directive_recursive w_self = false.
Proof. vm_compute. repeat split. discriminate. Qed.

(** the resolver rejects two definitions of one kind with one name *)
Lemma same_kind_typedef_kind a b : same_kind a b = tkind_eqb (typedef_kind a) (typedef_kind b).
Proof. destruct a, b; reflexivity. Qed.
Lemma resolve_rejects_same_kind_dup doc : same_kind_dup doc = true -> resolve_fails doc = true.
Proof.
  unfold resolve_fails. intros H. apply orb_true_iff. left.
  induction doc as [|d r IH]; [discriminate|]. cbn [same_kind_dup has_dup_original] in *.
  destruct d as [sd|t|dd|se|te]; try (apply orb_true_iff; right; apply IH; exact H).
  apply orb_true_iff in H as [H|H]; [|apply orb_true_iff; right; apply IH; exact H].
  apply orb_true_iff. left. cbn [item_key]. apply existsb_exists in H as [x [Hx Hk]]. apply existsb_exists. exists x. split; [exact Hx|].
  destruct x as [sd'|t'|dd'|se'|te']; try discriminate. unfold same_key. cbn [item_key].
  rewrite <- same_kind_typedef_kind. unfold tn, tname in *. exact Hk.
Qed.
