(** Pinned statements of the C05 property theorems: compiled on every check, so a theorem cannot be weakened silently. *)
From V Require Import Base.Util Gql.Ast C05.Model C05.Spec C05.Witness C05.Proofs6 C05.Properties.

Check (C05_complete : forall doc, spec_valid doc = true -> check_doc doc = []).
Check (C05_complete_extra_default_accepted : spec_valid Witness.w_extra_default = true /\ check_doc Witness.w_extra_default = []).
Check (C05_sound : forall doc, check_doc doc = [] -> unique_type_names doc = true -> builtins_not_redefined doc = true ->
                   forall r, rule_ok r doc = true).
Check (C05_exact : forall doc, wf_doc doc = true -> (check_doc doc = [] <-> forall r, rule_ok r doc = true)).
Check (C05_sound_local : forall doc, check_doc doc = [] ->
  ok_reserved doc = true /\ ok_dup_field doc = true /\ ok_dup_arg doc = true /\ ok_dup_input_field doc = true /\
  ok_dup_enum_value doc = true /\ ok_dup_union_member doc = true /\ ok_input_in_output doc = true /\
  ok_output_in_input doc = true /\ ok_directive_unknown doc = true /\ ok_directive_misplaced doc = true /\
  ok_directive_repeated doc = true /\ ok_directive_args doc = true /\ ok_dup_directive doc = true).
Check (C05_sound_directive_args_int_range_rejected :
  rule_ok RDirectiveArgs Witness.w_int_range = false /\ check_doc Witness.w_int_range <> []).
Check (C05_sound_directive_recursive_nested_rejected :
  rule_ok RDirectiveRecursive Witness.w_nested = false /\ check_doc Witness.w_nested <> [] /\
  rule_ok RDirectiveRecursive Witness.w_input_cycle_rec = false /\ check_doc Witness.w_input_cycle_rec <> [] /\
  spec_valid Witness.w_input_cycle = true /\ check_doc Witness.w_input_cycle = []).
Check (C05_sound_directive_args_duplicate_rejected :
  rule_ok RDirectiveArgs Witness.w_dup_arg_ill_typed = false /\ check_doc Witness.w_dup_arg_ill_typed <> []).
Check (C05_directive_recursion_exact : forall doc d, unique_names doc = true -> In d (directives_of doc) ->
  (check_directive_recursion doc d = [] <-> forall n y, reach doc (S n) d y -> dname y <> dname d)).
Check (C05_recursion_fuel_enough : forall doc d e,
  In d (directives_of doc) -> In e (check_directive_recursion doc d) -> e_msg e <> EOutOfFuel).
Check (C05_type_traversal_fuel_enough : forall doc d, next_of_fuel_ok doc d = true).
Check (C05_is_subtype_covariant_correct : forall doc a b, check_doc doc = [] -> unique_names doc = true ->
  defined doc (base_name a) = true -> defined doc (base_name b) = true ->
  (is_subtype doc a b = Some true <-> valid_impl_field_type doc a b = true)).
Check (C05_no_implements_cycle : forall doc, check_doc doc = [] -> unique_names doc = true -> implements_acyclic doc).
Check (C05_resolve_rejects_same_kind_dup : forall doc, same_kind_dup doc = true -> resolve_fails doc = true).
(* the definitions the statements rest on are the ones the correspondence run evaluates *)
Check (eq_refl : rule_ok = rule_ok_gen true).
Check (eq_refl : rule_ok RDirectiveArgs = ok_directive_args).
Check (eq_refl : rule_ok RDirectiveRecursive = ok_directive_recursive).
Check (eq_refl : wf_doc = fun doc => unique_type_names doc && builtins_not_redefined doc && ok_app_args_nonempty doc).
Check (eq_refl : rule_ok RDupDirective = ok_dup_directive).
Print Assumptions C05_complete.
Print Assumptions C05_complete_extra_default_accepted.
Print Assumptions C05_sound.
Print Assumptions C05_exact.
Print Assumptions C05_sound_local.
Print Assumptions C05_sound_directive_args_int_range_rejected.
Print Assumptions C05_sound_directive_recursive_nested_rejected.
Print Assumptions C05_sound_directive_args_duplicate_rejected.
Print Assumptions C05_directive_recursion_exact.
Print Assumptions C05_recursion_fuel_enough.
Print Assumptions C05_type_traversal_fuel_enough.
Print Assumptions C05_is_subtype_covariant_correct.
Print Assumptions C05_no_implements_cycle.
Print Assumptions C05_resolve_rejects_same_kind_dup.
