From V Require Import Base.Util Gql.Ast C05.Model C05.Spec C05.Properties.
