(** C05 — specification side.  Written from the GraphQL specification (October 2021, section 3
    "Type System") and from the rule list in the property text, not from nitrogql's code: one
    boolean per implemented rule ([ok_*], true = the rule is respected) over the resolved
    type-system document, and [spec_valid], the conjunction of those with the further
    schema-validity conditions of the specification that nitrogql does not implement.
    Lookups assume what the specification assumes: type and directive names are unique
    ([unique_names]); the rule booleans are only read under that guard.  Definitions only. *)
From V Require Import Base.Util Gql.Ast.

(** * helpers *)
Fixpoint nodup_str (l : list str) : bool :=
  match l with [] => true | x :: r => negb (existsb (str_eqb x) r) && nodup_str r end.

Definition reserved (n : str) : bool := match n with 95%N :: 95%N :: _ => true | _ => false end.

Definition types_of (doc : tsdoc) : list typedef := flat_map (fun d => match d with TSType t => [t] | _ => [] end) doc.
Definition directives_of (doc : tsdoc) : list directivedef :=
  flat_map (fun d => match d with TSDirective x => [x] | _ => [] end) doc.
Definition schemas_of (doc : tsdoc) : list schemadef := flat_map (fun d => match d with TSSchema x => [x] | _ => [] end) doc.

Definition tn (t : typedef) : str := iname (typedef_name t).
Definition lookup_t (doc : tsdoc) (n : str) : option typedef := find (fun t => str_eqb (tn t) n) (types_of doc).
Definition lookup_d (doc : tsdoc) (n : str) : option directivedef :=
  find (fun d => str_eqb (iname (dd_name d)) n) (directives_of doc).

(** directive definitions written in the schema, and those the toolchain adds (positioned as built-in) *)
Definition user_directives (doc : tsdoc) : list directivedef :=
  filter (fun d => negb (pbuiltin (dd_pos d))) (directives_of doc).
Definition builtin_directives (doc : tsdoc) : list directivedef :=
  filter (fun d => pbuiltin (dd_pos d)) (directives_of doc).
Definition dn (d : directivedef) : str := iname (dd_name d).
Definition unique_type_names (doc : tsdoc) : bool := nodup_str (map tn (types_of doc)).
(** the built-in directive definitions are distinct and the schema does not redefine one of them
    (nitrogql tolerates such a redefinition; its two lookups then disagree for that name) *)
Definition builtins_not_redefined (doc : tsdoc) : bool :=
  nodup_str (map dn (builtin_directives doc)) &&
  forallb (fun d => negb (existsb (str_eqb (dn d)) (map dn (builtin_directives doc)))) (user_directives doc).

Definition unique_names (doc : tsdoc) : bool :=
  nodup_str (map tn (types_of doc)) && nodup_str (map (fun d => iname (dd_name d)) (directives_of doc)).

(** IsInputType / IsOutputType (spec 3.4.2) on a named type; None = undefined *)
Definition is_input_named (doc : tsdoc) (n : str) : option bool :=
  match lookup_t doc n with
  | None => None
  | Some (TDScalar _ _ _ _ _) | Some (TDEnum _ _ _ _ _ _) | Some (TDInput _ _ _ _ _ _) => Some true
  | Some _ => Some false
  end.
Definition is_output_named (doc : tsdoc) (n : str) : option bool :=
  match lookup_t doc n with
  | None => None
  | Some (TDInput _ _ _ _ _ _) => Some false
  | Some _ => Some true
  end.
Definition base_name (t : ty) : str := iname (ty_unwrapped t).

Definition args_of (o : option (list inputvaldef)) : list inputvaldef := match o with Some l => l | None => [] end.

(** fields of an object or interface type, with the interfaces it declares *)
Definition comp_parts (t : typedef) : option (ident * list ident * list fielddef) :=
  match t with
  | TDObject _ _ n impls _ fs _ | TDInterface _ _ n impls _ fs _ => Some (n, impls, fs)
  | _ => None
  end.
Definition comps (doc : tsdoc) : list (ident * list ident * list fielddef) :=
  flat_map (fun t => match comp_parts t with Some x => [x] | None => [] end) (types_of doc).
Definition all_fields (doc : tsdoc) : list fielddef := flat_map (fun c => snd c) (comps doc).
(** every arguments definition: of fields and of directive definitions *)
Definition all_arg_lists (doc : tsdoc) : list (list inputvaldef) :=
  map (fun f => args_of (fd_args f)) (all_fields doc) ++ map (fun d => args_of (dd_args d)) (directives_of doc).
Definition all_input_field_lists (doc : tsdoc) : list (list inputvaldef) :=
  flat_map (fun t => match t with TDInput _ _ _ _ fs _ => [fs] | _ => [] end) (types_of doc).

(** * Reserved names *)
Definition ok_reserved (doc : tsdoc) : bool :=
  forallb (fun t => negb (reserved (tn t))) (types_of doc) &&
  forallb (fun d => negb (reserved (iname (dd_name d)))) (directives_of doc) &&
  forallb (fun f => negb (reserved (iname (fd_name f)))) (all_fields doc) &&
  forallb (forallb (fun a => negb (reserved (iname (iv_name a))))) (all_arg_lists doc) &&
  forallb (forallb (fun a => negb (reserved (iname (iv_name a))))) (all_input_field_lists doc).

(** * Uniqueness *)
Definition ok_dup_field (doc : tsdoc) : bool :=
  forallb (fun c => nodup_str (map (fun f => iname (fd_name f)) (snd c))) (comps doc).
Definition ok_dup_arg (doc : tsdoc) : bool :=
  forallb (fun l => nodup_str (map (fun a => iname (iv_name a)) l)) (all_arg_lists doc).
Definition ok_dup_input_field (doc : tsdoc) : bool :=
  forallb (fun l => nodup_str (map (fun a => iname (iv_name a)) l)) (all_input_field_lists doc).
Definition ok_dup_enum_value (doc : tsdoc) : bool :=
  forallb (fun t => match t with TDEnum _ _ _ _ vs _ => nodup_str (map (fun v => iname (ev_name v)) vs) | _ => true end)
          (types_of doc).
Definition ok_dup_union_member (doc : tsdoc) : bool :=
  forallb (fun t => match t with TDUnion _ _ _ _ ms _ => nodup_str (map iname ms) | _ => true end) (types_of doc).

(** directive names are unique (spec 3.13: "all directives within a GraphQL schema must have unique names") --
    among the definitions the schema itself writes *)
Definition ok_dup_directive (doc : tsdoc) : bool := nodup_str (map dn (user_directives doc)).

(** * Known types, input/output positions *)
Definition defined (doc : tsdoc) (n : str) : bool := match lookup_t doc n with Some _ => true | None => false end.
Definition ok_unknown_type (doc : tsdoc) : bool :=
  forallb (fun f => defined doc (base_name (fd_type f))) (all_fields doc) &&
  forallb (forallb (fun a => defined doc (base_name (iv_type a)))) (all_arg_lists doc) &&
  forallb (forallb (fun a => defined doc (base_name (iv_type a)))) (all_input_field_lists doc) &&
  forallb (fun c => forallb (fun i => defined doc (iname i)) (snd (fst c))) (comps doc) &&
  forallb (fun t => match t with TDUnion _ _ _ _ ms _ => forallb (fun m => defined doc (iname m)) ms | _ => true end)
          (types_of doc).
Definition not_false (o : option bool) : bool := match o with Some false => false | _ => true end.
Definition ok_input_in_output (doc : tsdoc) : bool :=
  forallb (fun f => not_false (is_output_named doc (base_name (fd_type f)))) (all_fields doc).
Definition ok_output_in_input (doc : tsdoc) : bool :=
  forallb (forallb (fun a => not_false (is_input_named doc (base_name (iv_type a))))) (all_arg_lists doc) &&
  forallb (forallb (fun a => not_false (is_input_named doc (base_name (iv_type a))))) (all_input_field_lists doc).

(** * Interfaces (spec 3.6 / 3.7, IsValidImplementation) *)
Definition is_interface (doc : tsdoc) (n : str) : option bool :=
  match lookup_t doc n with
  | None => None | Some (TDInterface _ _ _ _ _ _ _) => Some true | Some _ => Some false end.
Definition ok_not_interface (doc : tsdoc) : bool :=
  forallb (fun c => forallb (fun i => not_false (is_interface doc (iname i))) (snd (fst c))) (comps doc).
Definition ok_implements_self (doc : tsdoc) : bool :=
  forallb (fun t => match t with
                    | TDInterface _ _ n impls _ _ _ => negb (existsb (fun i => str_eqb (iname i) (iname n)) impls)
                    | _ => true end) (types_of doc).
(** the interface definitions a type declares *)
Definition declared_ifaces (doc : tsdoc) (impls : list ident) : list (ident * list ident * list fielddef) :=
  flat_map (fun i => match lookup_t doc (iname i) with
                     | Some (TDInterface _ _ n ii _ fs _) => [(n, ii, fs)] | _ => [] end) impls.
Definition declares (impls : list ident) (n : str) : bool := existsb (fun i => str_eqb (iname i) n) impls.
Definition ok_missing_transitive (doc : tsdoc) : bool :=
  forallb (fun c => forallb (fun j => forallb (fun k => declares (snd (fst c)) (iname k)) (snd (fst j)))
                            (declared_ifaces doc (snd (fst c)))) (comps doc).

Definition field_named (fs : list fielddef) (n : str) : option fielddef := find (fun f => str_eqb (iname (fd_name f)) n) fs.
Definition arg_named (l : list inputvaldef) (n : str) : option inputvaldef := find (fun a => str_eqb (iname (iv_name a)) n) l.

(** for every (implementing type X, declared interface J, field f of J) *)
Definition forall_impl_fields (doc : tsdoc) (p : list fielddef -> fielddef -> bool) : bool :=
  forallb (fun c => forallb (fun j => forallb (p (snd c)) (snd j)) (declared_ifaces doc (snd (fst c)))) (comps doc).

Definition ok_iface_field_missing (doc : tsdoc) : bool :=
  forall_impl_fields doc (fun fs jf => match field_named fs (iname (fd_name jf)) with Some _ => true | None => false end).

Fixpoint same_type (a b : ty) : bool :=
  match a, b with
  | TNamed x, TNamed y => str_eqb (iname x) (iname y)
  | TNonNull x, TNonNull y => same_type x y
  | TList _ x, TList _ y => same_type x y
  | _, _ => false
  end.
Definition is_union_member (doc : tsdoc) (u o : str) : bool :=
  match lookup_t doc u with Some (TDUnion _ _ _ _ ms _) => existsb (fun m => str_eqb (iname m) o) ms | _ => false end.
Definition declares_iface (doc : tsdoc) (x j : str) : bool :=
  match lookup_t doc x with
  | Some (TDObject _ _ _ impls _ _ _) | Some (TDInterface _ _ _ impls _ _ _) => declares impls j
  | _ => false end.
Definition is_object (doc : tsdoc) (n : str) : bool :=
  match lookup_t doc n with Some (TDObject _ _ _ _ _ _ _) => true | _ => false end.
Definition is_obj_or_iface (doc : tsdoc) (n : str) : bool :=
  match lookup_t doc n with Some (TDObject _ _ _ _ _ _ _) | Some (TDInterface _ _ _ _ _ _ _) => true | _ => false end.
(** IsValidImplementationFieldType(fieldType, implementedFieldType) *)
Fixpoint valid_impl_field_type (doc : tsdoc) (ft it : ty) {struct ft} : bool :=
  match ft with
  | TNonNull f' => valid_impl_field_type doc f' (match it with TNonNull i' => i' | _ => it end)
  | TList _ f' => match it with TList _ i' => valid_impl_field_type doc f' i' | _ => false end
  | TNamed fn =>
      match it with
      | TNamed inn =>
          str_eqb (iname fn) (iname inn)
          || (is_object doc (iname fn) && is_union_member doc (iname inn) (iname fn))
          || (is_obj_or_iface doc (iname fn) && (match is_interface doc (iname inn) with Some true => true | _ => false end)
              && declares_iface doc (iname fn) (iname inn))
      | _ => false
      end
  end.
(** the type positions involved are all defined (otherwise the unknown-type rule is the broken one) *)
Definition ty_defined (doc : tsdoc) (t : ty) : bool := defined doc (base_name t).
Definition ok_iface_field_type (doc : tsdoc) : bool :=
  forall_impl_fields doc (fun fs jf =>
    match field_named fs (iname (fd_name jf)) with
    | Some f => if ty_defined doc (fd_type f) && ty_defined doc (fd_type jf)
                then valid_impl_field_type doc (fd_type f) (fd_type jf) else true
    | None => true end).
Definition ok_iface_arg_missing (doc : tsdoc) : bool :=
  forall_impl_fields doc (fun fs jf =>
    match field_named fs (iname (fd_name jf)) with
    | Some f => forallb (fun ja => match arg_named (args_of (fd_args f)) (iname (iv_name ja)) with Some _ => true | None => false end)
                        (args_of (fd_args jf))
    | None => true end).
Definition ok_iface_arg_type (doc : tsdoc) : bool :=
  forall_impl_fields doc (fun fs jf =>
    match field_named fs (iname (fd_name jf)) with
    | Some f => forallb (fun ja => match arg_named (args_of (fd_args f)) (iname (iv_name ja)) with
                                   | Some a => same_type (iv_type a) (iv_type ja) | None => true end)
                        (args_of (fd_args jf))
    | None => true end).
Definition is_required (a : inputvaldef) : bool :=
  match iv_type a, iv_default a with TNonNull _, None => true | _, _ => false end.
Definition ok_iface_extra_required_arg (doc : tsdoc) : bool :=
  forall_impl_fields doc (fun fs jf =>
    match field_named fs (iname (fd_name jf)) with
    | Some f => forallb (fun a => match arg_named (args_of (fd_args jf)) (iname (iv_name a)) with
                                  | Some _ => true | None => negb (is_required a) end)
                        (args_of (fd_args f))
    | None => true end).

Definition ok_union_member_not_object (doc : tsdoc) : bool :=
  forallb (fun t => match t with
                    | TDUnion _ _ _ _ ms _ => forallb (fun m => match lookup_t doc (iname m) with
                                                               | None | Some (TDObject _ _ _ _ _ _ _) => true | Some _ => false end) ms
                    | _ => true end) (types_of doc).

(** * Directive applications *)
(** every list of applications with the name of its location (spec 3.13, TypeSystemDirectiveLocation) *)
Definition arg_apps (l : list inputvaldef) : list (str * list directive) :=
  map (fun a => (s "ARGUMENT_DEFINITION", iv_dirs a)) l.
Definition field_apps (fs : list fielddef) : list (str * list directive) :=
  flat_map (fun f => (s "FIELD_DEFINITION", fd_dirs f) :: arg_apps (args_of (fd_args f))) fs.
Definition type_apps (t : typedef) : list (str * list directive) :=
  match t with
  | TDScalar _ _ _ ds _ => [(s "SCALAR", ds)]
  | TDObject _ _ _ _ ds fs _ => (s "OBJECT", ds) :: field_apps fs
  | TDInterface _ _ _ _ ds fs _ => (s "INTERFACE", ds) :: field_apps fs
  | TDUnion _ _ _ ds _ _ => [(s "UNION", ds)]
  | TDEnum _ _ _ ds vs _ => (s "ENUM", ds) :: map (fun v => (s "ENUM_VALUE", ev_dirs v)) vs
  | TDInput _ _ _ ds fs _ => (s "INPUT_OBJECT", ds) :: map (fun f => (s "INPUT_FIELD_DEFINITION", iv_dirs f)) fs
  end.
Definition all_apps (doc : tsdoc) : list (str * list directive) :=
  flat_map (fun d => match d with
                     | TSSchema sd => [(s "SCHEMA", sd_dirs sd)]
                     | TSType t => type_apps t
                     | TSDirective dd => arg_apps (args_of (dd_args dd))
                     | _ => [] end) doc.

Definition ok_directive_unknown (doc : tsdoc) : bool :=
  forallb (fun la => forallb (fun a : directive => match lookup_d doc (iname (dir_name a)) with Some _ => true | None => false end)
                             (snd la)) (all_apps doc).
Definition ok_directive_misplaced (doc : tsdoc) : bool :=
  forallb (fun la => forallb (fun a : directive =>
             match lookup_d doc (iname (dir_name a)) with
             | Some d => existsb (fun l => str_eqb (iname l) (fst la)) (dd_locs d) | None => true end) (snd la)) (all_apps doc).
Fixpoint count_name (n : str) (l : list directive) : nat :=
  match l with [] => 0 | a :: r => (if str_eqb (iname (dir_name a)) n then 1 else 0) + count_name n r end.
Definition ok_directive_repeated (doc : tsdoc) : bool :=
  forallb (fun la => forallb (fun a : directive =>
             match lookup_d doc (iname (dir_name a)) with
             | Some d => match dd_repeatable d with
                         | Some _ => true | None => Nat.leb (count_name (iname (dir_name a)) (snd la)) 1 end
             | None => true end) (snd la)) (all_apps doc).

(** ** literal values against types: input coercion of constant values (spec 3.5 - 3.12, 5.6.1) *)
Definition digit (c : N) : option Z := if (48 <=? c)%N && (c <=? 57)%N then Some (Z.of_N (c - 48)) else None.
Fixpoint parse_digits (acc : Z) (l : str) : option Z :=
  match l with
  | [] => Some acc
  | c :: r => match digit c with Some d => parse_digits (acc * 10 + d)%Z r | None => None end
  end.
(** the integer an IntValue lexeme denotes (`-`? digits; a leading `+` does not occur in lexemes and is read as a sign) *)
Definition parse_int (l : str) : option Z :=
  match l with
  | [] => None
  | c :: r =>
      let signed := (N.eqb c 45 || N.eqb c 43) && negb (match r with [] => true | _ => false end) in
      option_map (fun z => if N.eqb c 45 && signed then (- z)%Z else z) (parse_digits 0 (if signed then r else l))
  end.
Definition int32 (lexeme : str) : bool :=
  match parse_int lexeme with Some z => (-2147483648 <=? z)%Z && (z <=? 2147483647)%Z | None => false end.

(** every provided field of an input-object literal is defined and its value fits *)
Definition each_field (vo : value -> ty -> bool) (fields : list inputvaldef) :=
  fix each (l : list (ident * value)) : bool :=
    match l with
    | [] => true
    | (k, fv) :: r =>
        (match arg_named fields (iname k) with Some fd => vo fv (iv_type fd) | None => false end) && each r
    end.

(** a constant contains no variable, at any depth *)
Fixpoint no_vars (v : value) : bool :=
  match v with
  | VVar _ _ => false
  | VList _ vs => forallb no_vars vs
  | VObject _ fs => (fix each (l : list (ident * value)) : bool :=
                       match l with [] => true | (_, fv) :: r => no_vars fv && each r end) fs
  | _ => true
  end.

(** a non-null constant against a named type; [vo] is value_ok itself (for the fields of an input-object literal) *)
Definition named_ok (vo : value -> ty -> bool) (strict_int : bool) (doc : tsdoc) (v : value) (n : ident) : bool :=
  match lookup_t doc (iname n) with
  | Some (TDScalar _ _ _ _ _) =>
      if str_eqb (iname n) (s "Int") then (match v with VInt _ x => negb strict_int || int32 x | _ => false end)
      else if str_eqb (iname n) (s "Float") then (match v with VInt _ _ | VFloat _ _ => true | _ => false end)
      else if str_eqb (iname n) (s "String") then (match v with VString _ _ => true | _ => false end)
      else if str_eqb (iname n) (s "Boolean") then (match v with VBool _ _ => true | _ => false end)
      else if str_eqb (iname n) (s "ID") then (match v with VString _ _ | VInt _ _ => true | _ => false end)
      else no_vars v       (* a custom scalar: any constant *)
  | Some (TDEnum _ _ _ _ vals _) =>
      match v with VEnum _ x => existsb (fun m => str_eqb (iname (ev_name m)) x) vals | _ => false end
  | Some (TDInput _ _ _ _ fields _) =>
      match v with
      | VObject _ fs =>
          each_field vo fields fs &&
          (* every required field is provided *)
          forallb (fun fd => negb (is_required fd) || existsb (fun kv => str_eqb (iname (fst kv)) (iname (iv_name fd))) fs)
                  fields
      | _ => false
      end
  | _ => false
  end.

Fixpoint value_ok (strict_int : bool) (doc : tsdoc) (v : value) {struct v} : ty -> bool :=
  fix on_ty (t : ty) {struct t} : bool :=
    match v with
    | VVar _ _ => false                              (* constants only *)
    | _ =>
      match t with
      | TNonNull inner => match v with VNull _ => false | _ => on_ty inner end
      | TList _ inner =>
          match v with
          | VNull _ => true
          | VList _ vs => forallb (fun e => value_ok strict_int doc e inner) vs
          | _ => on_ty inner
          end
      | TNamed n =>
          match v with
          | VNull _ => true
          | _ => named_ok (value_ok strict_int doc) strict_int doc v n
          end
      end
    end.

(** one application against its definition: known argument names, required arguments, values *)
Definition app_args (a : directive) : list (ident * value) := match dir_args a with Some x => args_list x | None => [] end.
Definition app_args_ok (strict_int : bool) (doc : tsdoc) (a : directive) (d : directivedef) : bool :=
  let defs := args_of (dd_args d) in
  let given := app_args a in
  forallb (fun kv : ident * value =>
             match arg_named defs (iname (fst kv)) with Some ad => value_ok strict_int doc (snd kv) (iv_type ad) | None => false end) given &&
  forallb (fun ad => negb (is_required ad) || existsb (fun kv : ident * value => str_eqb (iname (fst kv)) (iname (iv_name ad))) given) defs.
Definition ok_directive_args_gen (strict_int : bool) (doc : tsdoc) : bool :=
  forallb (fun la => forallb (fun a : directive =>
             match lookup_d doc (iname (dir_name a)) with Some d => app_args_ok strict_int doc a d | None => true end) (snd la)) (all_apps doc).
(** the specification's reading: an Int literal must fit in 32 bits *)
Definition ok_directive_args (doc : tsdoc) : bool := ok_directive_args_gen true doc.
(** the same without the 32-bit range condition on Int literals (what nitrogql enforced before 556742c) *)
Definition ok_directive_args_lenient (doc : tsdoc) : bool := ok_directive_args_gen false doc.
(** Argument Uniqueness (5.4.2), not among the rules nitrogql implements *)
Definition ok_app_arg_unique (doc : tsdoc) : bool :=
  forallb (fun la => forallb (fun a : directive => nodup_str (map (fun kv => iname (fst kv)) (app_args a))) (snd la)) (all_apps doc).

(** Input Object Field Uniqueness (5.6.3), not among the rules nitrogql implements: no input-object literal, at
    any depth of an argument value, names a field twice *)
Fixpoint literal_fields_unique (v : value) : bool :=
  match v with
  | VList _ vs => forallb literal_fields_unique vs
  | VObject _ fs =>
      nodup_str (map (fun kv : ident * value => iname (fst kv)) fs) &&
      (fix each (l : list (ident * value)) : bool :=
         match l with [] => true | (_, fv) :: r => literal_fields_unique fv && each r end) fs
  | _ => true
  end.
Definition ok_literal_field_unique (doc : tsdoc) : bool :=
  forallb (fun la => forallb (fun a : directive => forallb (fun kv : ident * value => literal_fields_unique (snd kv)) (app_args a))
                             (snd la)) (all_apps doc).

(** * Directive definitions must not reference themselves, directly or indirectly (spec 3.13) *)
(** directives applied on the definition of a named type, anywhere inside it *)
Definition dirs_on_type (t : typedef) : list str :=
  flat_map (fun la => map (fun a : directive => iname (dir_name a)) (snd la)) (type_apps t).
(** input types reachable from a type name through input-object fields: iterate "add the field types of what we
    have" [fuel] times (every iteration that is not yet stationary adds a type name of the document) *)
Fixpoint add_new (seen l : list str) : list str :=
  match l with [] => seen | x :: r => if existsb (str_eqb x) seen then add_new seen r else add_new (seen ++ [x]) r end.
Definition field_type_names (doc : tsdoc) (n : str) : list str :=
  match lookup_t doc n with
  | Some (TDInput _ _ _ _ fs _) => map (fun fd => base_name (iv_type fd)) fs
  | _ => []
  end.
Fixpoint types_closure (doc : tsdoc) (fuel : nat) (seen : list str) : list str :=
  match fuel with
  | O => seen
  | S f => types_closure doc f (add_new seen (flat_map (field_type_names doc) seen))
  end.
Definition reach_types (doc : tsdoc) (fuel : nat) (n : str) : list str := types_closure doc fuel [n].
(** [nested] = follow input-object field types transitively (the specification's reading);
    otherwise only the argument's own named type (the scope of nitrogql's rule) *)
Definition dir_succ (nested : bool) (doc : tsdoc) (d : directivedef) : list str :=
  flat_map (fun a : inputvaldef =>
    map (fun x : directive => iname (dir_name x)) (iv_dirs a) ++
    flat_map (fun n => match lookup_t doc n with Some t => dirs_on_type t | None => [] end)
             (if nested then reach_types doc (length doc) (base_name (iv_type a)) else [base_name (iv_type a)]))
    (args_of (dd_args d)).
Definition succ_names (nested : bool) (doc : tsdoc) (ns : list str) : list str :=
  flat_map (fun n => match lookup_d doc n with Some d => dir_succ nested doc d | None => [] end) ns.
Fixpoint closure (nested : bool) (doc : tsdoc) (fuel : nat) (seen : list str) : list str :=
  match fuel with O => seen | S f => closure nested doc f (add_new seen (succ_names nested doc seen)) end.
Definition reaches_self (nested : bool) (doc : tsdoc) (d : directivedef) : bool :=
  existsb (str_eqb (iname (dd_name d)))
          (closure nested doc (length doc) (add_new [] (dir_succ nested doc d))).
Definition ok_directive_recursive_gen (nested : bool) (doc : tsdoc) : bool :=
  forallb (fun d => negb (reaches_self nested doc d)) (directives_of doc).
(** the specification's reading *)
Definition ok_directive_recursive (doc : tsdoc) : bool := ok_directive_recursive_gen true doc.
(** the same with nitrogql's one-level reading of "referencing a Type" *)
Definition ok_directive_recursive_shallow (doc : tsdoc) : bool := ok_directive_recursive_gen false doc.

(** * The implemented rules, by name *)
Inductive rule :=
| RReserved | RDupField | RDupArg | RDupEnumValue | RDupUnionMember | RDupInputField | RDupDirective
| RUnknownType | RInputInOutput | ROutputInInput | RNotInterface | RImplementsSelf | RMissingTransitive
| RIfaceFieldMissing | RIfaceFieldType | RIfaceArgMissing | RIfaceArgType | RIfaceExtraRequiredArg
| RUnionMemberNotObject | RDirectiveUnknown | RDirectiveMisplaced | RDirectiveRepeated | RDirectiveArgs
| RDirectiveRecursive.

(** [spec] = true: every rule as the specification reads it (what the theorems and the check use).  [spec] = false
    keeps the one-level reading of directive self-reference that nitrogql had before 2bc0346 (through the argument's
    own named type only), for reference. *)
Definition rule_ok_gen (spec : bool) (r : rule) (doc : tsdoc) : bool :=
  match r with
  | RReserved => ok_reserved doc | RDupField => ok_dup_field doc | RDupArg => ok_dup_arg doc
  | RDupEnumValue => ok_dup_enum_value doc | RDupUnionMember => ok_dup_union_member doc
  | RDupInputField => ok_dup_input_field doc | RDupDirective => ok_dup_directive doc | RUnknownType => ok_unknown_type doc
  | RInputInOutput => ok_input_in_output doc | ROutputInInput => ok_output_in_input doc
  | RNotInterface => ok_not_interface doc | RImplementsSelf => ok_implements_self doc
  | RMissingTransitive => ok_missing_transitive doc | RIfaceFieldMissing => ok_iface_field_missing doc
  | RIfaceFieldType => ok_iface_field_type doc | RIfaceArgMissing => ok_iface_arg_missing doc
  | RIfaceArgType => ok_iface_arg_type doc | RIfaceExtraRequiredArg => ok_iface_extra_required_arg doc
  | RUnionMemberNotObject => ok_union_member_not_object doc | RDirectiveUnknown => ok_directive_unknown doc
  | RDirectiveMisplaced => ok_directive_misplaced doc | RDirectiveRepeated => ok_directive_repeated doc
  | RDirectiveArgs => ok_directive_args doc | RDirectiveRecursive => ok_directive_recursive_gen spec doc
  end.
Definition rule_ok (r : rule) (doc : tsdoc) : bool := rule_ok_gen true r doc.
Definition all_rules : list rule :=
  [RReserved; RDupField; RDupArg; RDupEnumValue; RDupUnionMember; RDupInputField; RDupDirective; RUnknownType; RInputInOutput;
   ROutputInInput; RNotInterface; RImplementsSelf; RMissingTransitive; RIfaceFieldMissing; RIfaceFieldType;
   RIfaceArgMissing; RIfaceArgType; RIfaceExtraRequiredArg; RUnionMemberNotObject; RDirectiveUnknown;
   RDirectiveMisplaced; RDirectiveRepeated; RDirectiveArgs; RDirectiveRecursive].
Definition violated (doc : tsdoc) : list rule := filter (fun r => negb (rule_ok r doc)) all_rules.

(** * Further validity conditions of the specification that nitrogql does not implement *)
Definition root_ok (doc : tsdoc) : bool :=
  match schemas_of doc with
  | [] => is_object doc (s "Query")
          && (negb (defined doc (s "Mutation")) || is_object doc (s "Mutation"))
          && (negb (defined doc (s "Subscription")) || is_object doc (s "Subscription"))
  | [sd] =>
      let ops := sd_ops sd in
      existsb (fun o => optype_eqb (fst o) Query) ops &&
      forallb (fun o => is_object doc (iname (snd o))) ops &&
      nodup_str (map (fun o => iname (snd o)) ops) &&
      Nat.leb (length (filter (fun o => optype_eqb (fst o) Query) ops)) 1 &&
      Nat.leb (length (filter (fun o => optype_eqb (fst o) Mutation) ops)) 1 &&
      Nat.leb (length (filter (fun o => optype_eqb (fst o) Subscription) ops)) 1
  | _ => false
  end.
Definition nonempty_ok (doc : tsdoc) : bool :=
  forallb (fun t => match t with
                    | TDObject _ _ _ _ _ fs _ | TDInterface _ _ _ _ _ fs _ => negb (match fs with [] => true | _ => false end)
                    | TDUnion _ _ _ _ ms _ => negb (match ms with [] => true | _ => false end)
                    | TDEnum _ _ _ _ vs _ => negb (match vs with [] => true | _ => false end)
                    | TDInput _ _ _ _ fs _ => negb (match fs with [] => true | _ => false end)
                    | _ => true end) (types_of doc).
Definition implements_unique_ok (doc : tsdoc) : bool :=
  forallb (fun c => nodup_str (map iname (snd (fst c)))) (comps doc).

(** the grammar's `Arguments : ( Argument+ )`: an application written with parentheses has at least one argument *)
Definition ok_app_args_nonempty (doc : tsdoc) : bool :=
  forallb (fun la => forallb (fun a : directive =>
             match dir_args a with Some x => negb (match args_list x with [] => true | _ => false end) | None => true end)
             (snd la)) (all_apps doc).

(** * `implements` must not be cyclic
    Spec 3.7 (Interfaces, type validation): "An interface type may declare that it implements one or more unique
    interfaces, but may not implement itself", and the implementing type "must also declare it implements" every
    interface its interfaces implement.  Together: following `implements` declarations from a type never leads
    back to it (a cycle A -> B -> A would force A to declare A).  Stated directly: *)
Definition iedge (doc : tsdoc) (a b : str) : Prop :=
  exists n impls fs, In (n, impls, fs) (comps doc) /\ iname n = a /\ declares impls b = true.
Inductive ipath (doc : tsdoc) : nat -> str -> str -> Prop :=
| ipath0 a : ipath doc 0 a a
| ipathS n a b c : iedge doc a b -> ipath doc n b c -> ipath doc (S n) a c.
Definition implements_acyclic (doc : tsdoc) : Prop := forall n a, ~ ipath doc (S n) a a.

(** executable reading: close the set of declared interface names of a type under "declares" ([length doc] rounds) *)
Definition impls_of (doc : tsdoc) (n : str) : list str :=
  flat_map (fun c : ident * list ident * list fielddef => if str_eqb (iname (fst (fst c))) n then map iname (snd (fst c)) else [])
           (comps doc).
Fixpoint impl_closure (doc : tsdoc) (fuel : nat) (seen : list str) : list str :=
  match fuel with O => seen | S f => impl_closure doc f (add_new seen (flat_map (impls_of doc) seen)) end.
Definition ok_implements_acyclic (doc : tsdoc) : bool :=
  forallb (fun c : ident * list ident * list fielddef =>
             negb (existsb (str_eqb (iname (fst (fst c))))
                           (impl_closure doc (length doc) (add_new [] (map iname (snd (fst c))))))) (comps doc).

(** well-formedness premises under which the rule booleans are read *)
(** premises under which the rule booleans are read: unique type names; the built-in directive definitions are
    not redefined; no empty parentheses.  (Uniqueness of the schema's own directive names is a rule, not a premise.) *)
Definition wf_doc (doc : tsdoc) : bool := unique_type_names doc && builtins_not_redefined doc && ok_app_args_nonempty doc.

Definition spec_valid (doc : tsdoc) : bool :=
  unique_names doc && forallb (fun r => rule_ok r doc) all_rules &&
  ok_app_arg_unique doc && ok_app_args_nonempty doc && root_ok doc && nonempty_ok doc && implements_unique_ok doc &&
  ok_implements_acyclic doc && ok_literal_field_unique doc.

(** * before extensions are resolved: two definitions of the same kind with one name (spec: type names are unique) *)
Definition same_kind (a b : typedef) : bool :=
  match a, b with
  | TDScalar _ _ _ _ _, TDScalar _ _ _ _ _ | TDObject _ _ _ _ _ _ _, TDObject _ _ _ _ _ _ _
  | TDInterface _ _ _ _ _ _ _, TDInterface _ _ _ _ _ _ _ | TDUnion _ _ _ _ _ _, TDUnion _ _ _ _ _ _
  | TDEnum _ _ _ _ _ _, TDEnum _ _ _ _ _ _ | TDInput _ _ _ _ _ _, TDInput _ _ _ _ _ _ => true
  | _, _ => false
  end.
Fixpoint same_kind_dup (doc : tsdoc) : bool :=
  match doc with
  | [] => false
  | TSType t :: r =>
      existsb (fun d => match d with TSType t' => same_kind t t' && str_eqb (tn t) (tn t') | _ => false end) r
      || same_kind_dup r
  | _ :: r => same_kind_dup r
  end.
