(** C05 — specification side (placeholder, filled in below). *)
From V Require Import Base.Util Gql.Ast.
