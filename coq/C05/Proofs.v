(** C05 — proofs, part 1: list facts, the two lookups, the `seen` loops, and what
    [check_doc doc = []] says about every definition of the document. *)
From V Require Import Base.Util Gql.Ast C05.Model C05.Spec.

(** * generic facts *)
Lemma flat_map_nil {A B} (f : A -> list B) l : flat_map f l = [] <-> forall x, In x l -> f x = [].
Proof.
  induction l as [|a l IH]; cbn [flat_map]; split; intros H.
  - intros x [].
  - reflexivity.
  - apply app_eq_nil in H as [Ha Hl]. intros x [<-|Hx]; [exact Ha | apply IH; assumption].
  - rewrite (H a (or_introl eq_refl)). cbn [app]. apply IH. intros x Hx. apply H. right; exact Hx.
Qed.

Lemma str_eqb_eq a b : str_eqb a b = true <-> a = b.
Proof. destruct (str_eqb_spec a b); split; congruence. Qed.
Lemma str_eqb_neq a b : str_eqb a b = false <-> a <> b.
Proof. destruct (str_eqb_spec a b); split; congruence. Qed.
Lemma str_eqb_sym a b : str_eqb a b = str_eqb b a.
Proof. destruct (str_eqb_spec a b), (str_eqb_spec b a); congruence. Qed.

Lemma mem_In x l : mem x l = true <-> In x l.
Proof.
  unfold mem. rewrite existsb_exists. split.
  - intros [y [Hy He]]. apply str_eqb_eq in He. subst; exact Hy.
  - intros H. exists x. split; [exact H | apply str_eqb_refl].
Qed.
Lemma mem_false x l : mem x l = false <-> ~ In x l.
Proof. rewrite <- mem_In. destruct (mem x l); split; congruence. Qed.

Lemma existsb_str_In x l : existsb (str_eqb x) l = true <-> In x l.
Proof. exact (mem_In x l). Qed.

Lemma nodup_str_NoDup l : nodup_str l = true <-> NoDup l.
Proof.
  induction l as [|x l IH]; cbn [nodup_str].
  - split; [constructor | reflexivity].
  - rewrite andb_true_iff, negb_true_iff, IH. split.
    + intros [Hx Hl]. constructor; [|exact Hl]. apply mem_false. exact Hx.
    + intros H. inversion H as [|? ? Hx Hl]; subst. split; [apply mem_false; exact Hx | exact Hl].
Qed.

(** * the lookups *)
Lemma first_type_lookup doc n : first_type doc n = lookup_t doc n.
Proof.
  unfold lookup_t, types_of. induction doc as [|d doc IH]; [reflexivity|].
  destruct d as [sd|t|dd|se|te]; cbn [first_type flat_map app find]; try exact IH.
  unfold tn, tname. destruct (str_eqb (iname (typedef_name t)) n); [reflexivity | exact IH].
Qed.
Lemma first_directive_lookup doc n : first_directive doc n = lookup_d doc n.
Proof.
  unfold lookup_d, directives_of. induction doc as [|d doc IH]; [reflexivity|].
  destruct d as [sd|t|dd|se|te]; cbn [first_directive flat_map app find]; try exact IH.
  unfold dname. destruct (str_eqb (iname (dd_name dd)) n); [reflexivity | exact IH].
Qed.

Lemma first_type_In doc n t : first_type doc n = Some t -> In (TSType t) doc /\ tname t = n.
Proof.
  induction doc as [|d doc IH]; [discriminate|].
  destruct d as [sd|t'|dd|se|te]; cbn [first_type]; intros H;
    try (destruct (IH H) as [Hi Hn]; split; [right; exact Hi | exact Hn]).
  destruct (str_eqb (tname t') n) eqn:E.
  - injection H as <-. split; [left; reflexivity | apply str_eqb_eq; exact E].
  - destruct (IH H) as [Hi Hn]; split; [right; exact Hi | exact Hn].
Qed.
Lemma first_directive_In doc n d : first_directive doc n = Some d -> In (TSDirective d) doc /\ dname d = n.
Proof.
  induction doc as [|x doc IH]; [discriminate|].
  destruct x as [sd|t'|dd|se|te]; cbn [first_directive]; intros H;
    try (destruct (IH H) as [Hi Hn]; split; [right; exact Hi | exact Hn]).
  destruct (str_eqb (dname dd) n) eqn:E.
  - injection H as <-. split; [left; reflexivity | apply str_eqb_eq; exact E].
  - destruct (IH H) as [Hi Hn]; split; [right; exact Hi | exact Hn].
Qed.
Lemma first_type_none doc n : first_type doc n = None -> forall t, In (TSType t) doc -> tname t <> n.
Proof.
  induction doc as [|d doc IH]; intros H t []; subst.
  - cbn [first_type] in H. destruct (str_eqb (tname t) n) eqn:E; [discriminate | apply str_eqb_neq; exact E].
  - apply IH; [|assumption]. destruct d as [sd|t'|dd|se|te]; cbn [first_type] in H; try exact H.
    destruct (str_eqb (tname t') n); [discriminate | exact H].
Qed.
Lemma first_directive_none doc n : first_directive doc n = None -> forall d, In (TSDirective d) doc -> dname d <> n.
Proof.
  induction doc as [|x doc IH]; intros H d []; subst.
  - cbn [first_directive] in H. destruct (str_eqb (dname d) n) eqn:E; [discriminate | apply str_eqb_neq; exact E].
  - apply IH; [|assumption]. destruct x as [sd|t'|dd|se|te]; cbn [first_directive] in H; try exact H.
    destruct (str_eqb (dname dd) n); [discriminate | exact H].
Qed.

Lemma In_types_of doc t : In t (types_of doc) <-> In (TSType t) doc.
Proof.
  unfold types_of. rewrite in_flat_map. split.
  - intros [d [Hd Ht]]. destruct d; cbn in Ht; try contradiction. destruct Ht as [<-|[]]. exact Hd.
  - intros H. exists (TSType t). split; [exact H | left; reflexivity].
Qed.
Lemma In_directives_of doc d : In d (directives_of doc) <-> In (TSDirective d) doc.
Proof.
  unfold directives_of. rewrite in_flat_map. split.
  - intros [x [Hx Ht]]. destruct x; cbn in Ht; try contradiction. destruct Ht as [<-|[]]. exact Hx.
  - intros H. exists (TSDirective d). split; [exact H | left; reflexivity].
Qed.

(** with unique names the last-wins and first-wins lookups coincide *)
Lemma last_type_first doc n :
  NoDup (map tn (types_of doc)) -> last_type doc n = first_type doc n.
Proof.
  induction doc as [|d doc IH]; [reflexivity|]. intros Hnd.
  destruct d as [sd|t|dd|se|te]; cbn [last_type first_type]; unfold types_of in *; cbn [flat_map app map] in Hnd;
    try (rewrite (IH Hnd); destruct (first_type doc n); reflexivity).
  inversion Hnd as [|? ? Hx Hl]; subst. rewrite (IH Hl).
  destruct (str_eqb (tname t) n) eqn:E.
  - destruct (first_type doc n) as [t'|] eqn:F; [|reflexivity].
    exfalso. apply Hx. apply first_type_In in F as [Hi Hn]. apply str_eqb_eq in E.
    apply in_map_iff. exists t'. split; [unfold tn, tname in *; congruence | apply In_types_of; exact Hi].
  - destruct (first_type doc n); reflexivity.
Qed.
Lemma last_directive_first doc n :
  NoDup (map (fun d => iname (dd_name d)) (directives_of doc)) -> last_directive doc n = first_directive doc n.
Proof.
  induction doc as [|d doc IH]; [reflexivity|]. intros Hnd.
  destruct d as [sd|t|dd|se|te]; cbn [last_directive first_directive]; unfold directives_of in *; cbn [flat_map app map] in Hnd;
    try (rewrite (IH Hnd); destruct (first_directive doc n); reflexivity).
  inversion Hnd as [|? ? Hx Hl]; subst. rewrite (IH Hl).
  destruct (str_eqb (dname dd) n) eqn:E.
  - destruct (first_directive doc n) as [t'|] eqn:F; [|reflexivity].
    exfalso. apply Hx. apply first_directive_In in F as [Hi Hn]. apply str_eqb_eq in E.
    apply in_map_iff. exists t'. split; [unfold dname in *; congruence | apply In_directives_of; exact Hi].
  - destruct (first_directive doc n); reflexivity.
Qed.

Lemma unique_names_spec doc :
  unique_names doc = true ->
  NoDup (map tn (types_of doc)) /\ NoDup (map (fun d => iname (dd_name d)) (directives_of doc)).
Proof. unfold unique_names. rewrite andb_true_iff, !nodup_str_NoDup. tauto. Qed.

Lemma last_type_lookup doc n : unique_names doc = true -> last_type doc n = lookup_t doc n.
Proof. intros H. apply unique_names_spec in H as [H _]. rewrite last_type_first, first_type_lookup; auto. Qed.
Lemma last_directive_lookup doc n : unique_names doc = true -> last_directive doc n = lookup_d doc n.
Proof. intros H. apply unique_names_spec in H as [_ H]. rewrite last_directive_first, first_directive_lookup; auto. Qed.

Lemma lookup_t_In doc n t : lookup_t doc n = Some t -> In t (types_of doc) /\ tn t = n.
Proof.
  rewrite <- first_type_lookup. intros H. apply first_type_In in H as [Hi Hn]. split; [apply In_types_of; exact Hi | exact Hn].
Qed.
Lemma lookup_d_In doc n d : lookup_d doc n = Some d -> In d (directives_of doc) /\ iname (dd_name d) = n.
Proof.
  rewrite <- first_directive_lookup. intros H. apply first_directive_In in H as [Hi Hn]. split; [apply In_directives_of; exact Hi | exact Hn].
Qed.
(** with unique names, a definition of the document is the one its name looks up *)
Lemma lookup_t_self doc t : unique_names doc = true -> In t (types_of doc) -> lookup_t doc (tn t) = Some t.
Proof.
  intros Hu Hin. apply unique_names_spec in Hu as [Hu _]. unfold lookup_t.
  induction (types_of doc) as [|a l IH]; [contradiction|]. cbn [find map] in *.
  inversion Hu as [|? ? Hx Hl]; subst. destruct Hin as [->|Hin].
  - rewrite str_eqb_refl. reflexivity.
  - destruct (str_eqb (tn a) (tn t)) eqn:E; [|apply IH; assumption].
    exfalso. apply Hx. apply str_eqb_eq in E. rewrite E. apply in_map. exact Hin.
Qed.
Lemma lookup_d_self doc d : unique_names doc = true -> In d (directives_of doc) -> lookup_d doc (iname (dd_name d)) = Some d.
Proof.
  intros Hu Hin. apply unique_names_spec in Hu as [_ Hu]. unfold lookup_d.
  induction (directives_of doc) as [|a l IH]; [contradiction|]. cbn [find map] in *.
  inversion Hu as [|? ? Hx Hl]; subst. destruct Hin as [->|Hin].
  - rewrite str_eqb_refl. reflexivity.
  - destruct (str_eqb (iname (dd_name a)) (iname (dd_name d))) eqn:E; [|apply IH; assumption].
    exfalso. apply Hx. apply str_eqb_eq in E. rewrite E. apply (in_map (fun d => iname (dd_name d))). exact Hin.
Qed.

(** * the `seen` loops *)
Lemma seen_loop_nil {A} (name : A -> str) body seen (l : list A) :
  (forall x, body true x <> []) ->
  seen_loop name body seen l = [] ->
  NoDup (map name l) /\ (forall x, In x l -> ~ In (name x) seen) /\ (forall x, In x l -> body false x = []).
Proof.
  intros Hb. revert seen. induction l as [|a l IH]; intros seen H; cbn [seen_loop map] in *.
  - split; [constructor|]. split; intros x [].
  - apply app_eq_nil in H as [Ha Hl].
    destruct (mem (name a) seen) eqn:E; [exfalso; exact (Hb a Ha)|].
    destruct (IH _ Hl) as [Hnd [Hdis Hbody]]. split; [|split].
    + constructor; [|exact Hnd]. intros Hin. apply in_map_iff in Hin as [y [Hy Hyl]].
      apply (Hdis y Hyl). rewrite Hy. left; reflexivity.
    + intros x [<-|Hx]; [apply mem_false; exact E|]. intros Hin. apply (Hdis x Hx). right; exact Hin.
    + intros x [<-|Hx]; [exact Ha | apply Hbody; exact Hx].
Qed.

Lemma seen_loop_nil_conv {A} (name : A -> str) body seen (l : list A) :
  NoDup (map name l) -> (forall x, In x l -> ~ In (name x) seen) -> (forall x, In x l -> body false x = []) ->
  seen_loop name body seen l = [].
Proof.
  revert seen. induction l as [|a l IH]; intros seen Hnd Hdis Hb; cbn [seen_loop map] in *; [reflexivity|].
  inversion Hnd as [|? ? Hx Hl]; subst.
  assert (E : mem (name a) seen = false) by (apply mem_false; apply Hdis; left; reflexivity).
  rewrite E, (Hb a (or_introl eq_refl)). cbn [app]. apply IH; [exact Hl| |].
  - intros x Hin [Heq|Hs]; [|exact (Hdis x (or_intror Hin) Hs)].
    apply Hx. rewrite Heq. apply in_map. exact Hin.
  - intros x Hin. apply Hb. right; exact Hin.
Qed.

Lemma dup_err_true n : dup_err true n <> [].
Proof. discriminate. Qed.

(** * check_doc = [] , definition by definition *)
(** the pass over the definitions with its list of directive names seen so far *)
Lemma user_directives_cons d defs :
  user_directives (d :: defs) =
  match d with
  | TSDirective dd => if pbuiltin (dd_pos dd) then user_directives defs else dd :: user_directives defs
  | _ => user_directives defs
  end.
Proof.
  unfold user_directives, directives_of. destruct d; cbn [flat_map app filter]; try reflexivity.
  destruct (pbuiltin (dd_pos d)); reflexivity.
Qed.

(** with distinct names among the schema's own directive definitions the pass is a plain flat_map *)
Lemma check_defs_flat doc defs : forall seen,
  NoDup (map dn (user_directives defs)) -> (forall n, In n (map dn (user_directives defs)) -> ~ In n seen) ->
  check_defs doc seen defs = flat_map (check_def doc) defs.
Proof.
  induction defs as [|d r IH]; intros seen Hnd Hdis; [reflexivity|]. cbn [check_defs flat_map].
  rewrite user_directives_cons in Hnd, Hdis.
  destruct d as [sd|t|dd|se|te]; cbn [dup_directive_errs seen_after app]; try (rewrite (IH seen Hnd Hdis); reflexivity).
  destruct (pbuiltin (dd_pos dd)); [cbn [app]; rewrite (IH seen Hnd Hdis); reflexivity|].
  cbn [map] in Hnd, Hdis. inversion Hnd as [|? ? Hx Hr]; subst.
  assert (M : mem (dname dd) seen = false) by (apply mem_false; apply Hdis; left; reflexivity).
  rewrite M. cbn [app]. rewrite (IH (dname dd :: seen) Hr); [reflexivity|].
  intros n Hn [<-|Hs]; [exact (Hx Hn) | exact (Hdis n (or_intror Hn) Hs)].
Qed.
Lemma check_doc_flat doc : NoDup (map dn (user_directives doc)) -> check_doc doc = flat_map (check_def doc) doc.
Proof. intros H. unfold check_doc. apply check_defs_flat; [exact H | intros n _ []]. Qed.

Lemma check_defs_nil doc defs : forall seen,
  check_defs doc seen defs = [] ->
  (forall d, In d defs -> check_def doc d = []) /\
  NoDup (map dn (user_directives defs)) /\ (forall n, In n (map dn (user_directives defs)) -> ~ In n seen).
Proof.
  induction defs as [|d r IH]; intros seen H; cbn [check_defs] in H.
  - split; [intros ? []|]. split; [constructor | intros ? []].
  - apply app_eq_nil in H as [H1 H]. apply app_eq_nil in H as [H2 H3]. destruct (IH _ H3) as [A [B C]].
    split; [intros x [<-|Hx]; [exact H2 | apply A; exact Hx]|]. rewrite user_directives_cons.
    destruct d as [sd|t|dd|se|te]; cbn [dup_directive_errs seen_after] in *; try (split; assumption).
    destruct (pbuiltin (dd_pos dd)); [split; assumption|].
    destruct (mem (dname dd) seen) eqn:M; [discriminate|]. apply mem_false in M. cbn [map]. split.
    + constructor; [|exact B]. intros Hin. apply (C _ Hin). left; reflexivity.
    + intros n [<-|Hn]; [exact M|]. intros Hs. apply (C n Hn). right; exact Hs.
Qed.

Lemma check_doc_nil doc : check_doc doc = [] -> forall d, In d doc -> check_def doc d = [].
Proof. intros H. exact (proj1 (check_defs_nil doc doc [] H)). Qed.
(** no diagnostic => the schema's own directive definitions have distinct names *)
Lemma check_doc_user_directives_unique doc : check_doc doc = [] -> NoDup (map dn (user_directives doc)).
Proof. intros H. exact (proj1 (proj2 (check_defs_nil doc doc [] H))). Qed.
Lemma check_doc_nil_conv doc :
  (forall d, In d doc -> check_def doc d = []) -> NoDup (map dn (user_directives doc)) -> check_doc doc = [].
Proof. intros H Hnd. rewrite (check_doc_flat doc Hnd). apply flat_map_nil. exact H. Qed.

Lemma check_nil_type doc t : check_doc doc = [] -> In t (types_of doc) -> check_typedef doc t = [].
Proof. intros H Hin. apply In_types_of in Hin. exact (check_doc_nil doc H _ Hin). Qed.
Lemma check_nil_directive doc d : check_doc doc = [] -> In d (directives_of doc) -> check_directive_def doc d = [].
Proof. intros H Hin. apply In_directives_of in Hin. exact (check_doc_nil doc H _ Hin). Qed.

Ltac split_nil H :=
  repeat match type of H with
         | _ ++ _ = [] => let H1 := fresh "Hn" in apply app_eq_nil in H as [H1 H]
         end.

(** * the loops of the model, inverted *)
Lemma app_mid_not_nil {A} (a b c : list A) : b <> [] -> a ++ b ++ c <> [].
Proof. intros Hb H. apply app_eq_nil in H as [_ H]. apply app_eq_nil in H as [H _]. exact (Hb H). Qed.

Lemma check_args_def_nil doc l :
  check_args_def doc l = [] ->
  NoDup (map (fun a => iname (iv_name a)) l) /\ forall a, In a l -> args_def_body doc false a = [].
Proof.
  intros H. apply seen_loop_nil in H as [Hnd [_ Hb]]; [split; assumption|].
  intros x. unfold args_def_body. apply app_mid_not_nil. apply dup_err_true.
Qed.
Lemma check_fields_nil doc l :
  check_fields doc l = [] ->
  NoDup (map (fun f => iname (fd_name f)) l) /\ forall f, In f l -> field_body doc false f = [].
Proof.
  intros H. apply seen_loop_nil in H as [Hnd [_ Hb]]; [split; assumption|].
  intros x. unfold field_body. cbn [dup_err app]. discriminate.
Qed.
Lemma check_members_nil doc l :
  check_members doc l = [] -> NoDup (map iname l) /\ forall m, In m l -> member_body doc false m = [].
Proof.
  intros H. apply seen_loop_nil in H as [Hnd [_ Hb]]; [split; assumption|].
  intros x. unfold member_body. cbn [dup_err app]. discriminate.
Qed.
Lemma check_enum_values_nil doc l :
  check_enum_values doc l = [] ->
  NoDup (map (fun v => iname (ev_name v)) l) /\ forall v, In v l -> enum_value_body doc false v = [].
Proof.
  intros H. apply seen_loop_nil in H as [Hnd [_ Hb]]; [split; assumption|].
  intros x. unfold enum_value_body. cbn [dup_err app]. discriminate.
Qed.
Lemma check_input_fields_nil doc l :
  check_input_fields doc l = [] ->
  NoDup (map (fun a => iname (iv_name a)) l) /\ forall a, In a l -> input_field_body doc false a = [].
Proof.
  intros H. apply seen_loop_nil in H as [Hnd [_ Hb]]; [split; assumption|].
  intros x. unfold input_field_body. cbn [dup_err app]. discriminate.
Qed.

(** * the collections the specification side quantifies over *)
Lemma In_comps doc c : In c (comps doc) <-> exists t, In t (types_of doc) /\ comp_parts t = Some c.
Proof.
  unfold comps. rewrite in_flat_map. split; intros [t [Ht Hc]]; exists t; (split; [exact Ht|]).
  - destruct (comp_parts t); [destruct Hc as [<-|[]]; reflexivity | destruct Hc].
  - rewrite Hc. left; reflexivity.
Qed.
Lemma In_all_fields doc f : In f (all_fields doc) <-> exists c, In c (comps doc) /\ In f (snd c).
Proof. unfold all_fields. apply in_flat_map. Qed.

Section Clean.
  Variable doc : tsdoc.
  Hypothesis Hchk : check_doc doc = [].

  Lemma clean_comp n impls fs :
    In (n, impls, fs) (comps doc) ->
    unsco n = [] /\ check_fields doc fs = [] /\
    exists b, check_implements doc b n fs impls = [] /\
              (b = true -> exists d p ds kw, In (TDInterface d p n impls ds fs kw) (types_of doc)).
  Proof.
    intros Hin. apply In_comps in Hin as [t [Ht Hc]].
    pose proof (check_nil_type doc t Hchk Ht) as H.
    destruct t; cbn [comp_parts] in Hc; try discriminate; injection Hc as -> -> ->;
      cbn [check_typedef] in H; split_nil H; (split; [assumption|split; [assumption|]]).
    - exists false. split; [assumption | discriminate].
    - exists true. split; [assumption|]. intros _. do 4 eexists. exact Ht.
  Qed.

  Lemma clean_field f : In f (all_fields doc) -> field_body doc false f = [].
  Proof.
    intros Hin. apply In_all_fields in Hin as [[[n impls] fs] [Hc Hf]]. cbn [snd] in Hf.
    apply clean_comp in Hc as [_ [Hfs _]]. apply check_fields_nil in Hfs as [_ Hb]. apply Hb. exact Hf.
  Qed.

  Lemma clean_arg_list l : In l (all_arg_lists doc) -> check_args_def doc l = [].
  Proof.
    unfold all_arg_lists. rewrite in_app_iff, !in_map_iff. intros [[f [<- Hf]]|[d [<- Hd]]].
    - apply clean_field in Hf. unfold field_body in Hf. split_nil Hf.
      destruct (fd_args f); [exact Hf | reflexivity].
    - pose proof (check_nil_directive doc d Hchk Hd) as H. unfold check_directive_def in H. split_nil H.
      destruct (dd_args d); [exact H | reflexivity].
  Qed.

  Lemma clean_input_field_list l : In l (all_input_field_lists doc) -> check_input_fields doc l = [].
  Proof.
    unfold all_input_field_lists. rewrite in_flat_map. intros [t [Ht Hl]].
    pose proof (check_nil_type doc t Hchk Ht) as H.
    destruct t; cbn in Hl; try contradiction. destruct Hl as [<-|[]].
    cbn [check_typedef] in H. split_nil H. exact H.
  Qed.

  Lemma clean_arg_apps l x :
    check_args_def doc l = [] -> In x (arg_apps l) -> check_directives doc (snd x) (fst x) = [].
  Proof.
    intros Hl Hx. unfold arg_apps in Hx. apply in_map_iff in Hx as [a [<- Ha]]. cbn [fst snd].
    apply check_args_def_nil in Hl as [_ Hb]. specialize (Hb a Ha). unfold args_def_body in Hb. split_nil Hb. exact Hb.
  Qed.

  Lemma clean_field_apps fs x :
    check_fields doc fs = [] -> In x (field_apps fs) -> check_directives doc (snd x) (fst x) = [].
  Proof.
    intros Hfs Hx. unfold field_apps in Hx. apply in_flat_map in Hx as [f [Hf Hx]].
    apply check_fields_nil in Hfs as [_ Hb]. specialize (Hb f Hf). unfold field_body in Hb. split_nil Hb.
    destruct Hx as [<-|Hx]; [assumption|].
    apply clean_arg_apps with (l := args_of (fd_args f)); [|exact Hx].
    destruct (fd_args f); [exact Hb | reflexivity].
  Qed.

  (** every list of directive applications, with its location, passes check_directives *)
  Lemma clean_apps x : In x (all_apps doc) -> check_directives doc (snd x) (fst x) = [].
  Proof.
    unfold all_apps. rewrite in_flat_map. intros [d [Hd Hx]].
    pose proof (check_doc_nil doc Hchk d Hd) as H.
    destruct d as [sd|t|dd|se|te]; cbn [check_def] in H; try contradiction.
    - destruct Hx as [<-|[]]. exact H.
    - destruct t; cbn [type_apps check_typedef] in *; split_nil H.
      + destruct Hx as [<-|[]]. exact H.
      + destruct Hx as [<-|Hx]; [assumption|]. eapply clean_field_apps; eassumption.
      + destruct Hx as [<-|Hx]; [assumption|]. eapply clean_field_apps; eassumption.
      + destruct Hx as [<-|[]]. assumption.
      + destruct Hx as [<-|Hx]; [assumption|]. apply in_map_iff in Hx as [v [<- Hv]]. cbn [fst snd].
        apply check_enum_values_nil in H as [_ Hb]. specialize (Hb v Hv). unfold enum_value_body in Hb. split_nil Hb. assumption.
      + destruct Hx as [<-|Hx]; [assumption|]. apply in_map_iff in Hx as [v [<- Hv]]. cbn [fst snd].
        apply check_input_fields_nil in H as [_ Hb]. specialize (Hb v Hv). unfold input_field_body in Hb. split_nil Hb. assumption.
    - unfold check_directive_def in H. split_nil H.
      apply clean_arg_apps with (l := args_of (dd_args dd)); [|exact Hx].
      destruct (dd_args dd); [exact H | reflexivity].
  Qed.
End Clean.

(** * unique directive names from their two halves *)
Lemma NoDup_map_split {A} (f : A -> str) (p : A -> bool) l :
  NoDup (map f (filter p l)) -> NoDup (map f (filter (fun x => negb (p x)) l)) ->
  (forall x, In x (filter (fun x => negb (p x)) l) -> ~ In (f x) (map f (filter p l))) ->
  NoDup (map f l).
Proof.
  induction l as [|a l IH]; intros H1 H2 H3; [constructor|]. cbn [map filter] in *.
  assert (Hsplit : forall y, In y l -> In y (filter p l) \/ In y (filter (fun x => negb (p x)) l)).
  { intros y Hy. destruct (p y) eqn:E; [left | right]; apply filter_In; split; auto. rewrite E. reflexivity. }
  destruct (p a) eqn:Pa; cbn [negb map] in *.
  - inversion H1 as [|? ? Hx Hr]; subst. constructor.
    + intros Hin. apply in_map_iff in Hin as [y [Hfy Hy]]. destruct (Hsplit y Hy) as [Hy'|Hy'].
      * apply Hx. rewrite <- Hfy. apply in_map. exact Hy'.
      * apply (H3 y Hy'). left. symmetry. exact Hfy.
    + apply IH; [exact Hr | exact H2|]. intros x Hx' Hin. apply (H3 x Hx'). right; exact Hin.
  - inversion H2 as [|? ? Hx Hr]; subst. constructor.
    + intros Hin. apply in_map_iff in Hin as [y [Hfy Hy]]. destruct (Hsplit y Hy) as [Hy'|Hy'].
      * apply (H3 a (or_introl eq_refl)). rewrite <- Hfy. apply in_map. exact Hy'.
      * apply Hx. rewrite <- Hfy. apply in_map. exact Hy'.
    + apply IH; [exact H1 | exact Hr|]. intros x Hx' Hin. apply (H3 x (or_intror Hx')). exact Hin.
Qed.

Lemma unique_names_from doc :
  unique_type_names doc = true -> ok_dup_directive doc = true -> builtins_not_redefined doc = true -> unique_names doc = true.
Proof.
  unfold unique_type_names, ok_dup_directive, builtins_not_redefined, unique_names. intros Ht Hu Hb.
  rewrite Ht. cbn [andb]. apply andb_true_iff in Hb as [Hb1 Hb2].
  apply nodup_str_NoDup in Hu, Hb1. apply nodup_str_NoDup.
  apply (NoDup_map_split (fun d => iname (dd_name d)) (fun d => pbuiltin (dd_pos d)) (directives_of doc)).
  - exact Hb1.
  - exact Hu.
  - intros x Hx Hin. rewrite forallb_forall in Hb2. specialize (Hb2 x Hx). apply negb_true_iff in Hb2.
    apply not_true_iff_false in Hb2. apply Hb2. apply existsb_str_In. exact Hin.
Qed.
