(** C05 — correspondence and spec-side predicates evaluated on the implementation's outputs. *)
From V Require Import Base.Util Gql.Ast C05.Model C05.Spec.

Inductive case :=
| CCheck (label : str) (doc : tsdoc) (errs : list cerr)      (* resolved document, diagnostics of check_type_system_document *)
| CResolve (label : str) (doc : tsdoc) (failed : bool).      (* merged, unresolved document; did resolve_schema_extensions fail *)

Definition agree (c : case) : bool :=
  match c with
  | CCheck _ doc errs => list_eqb cerr_eqb (check_doc doc) errs
  | CResolve _ doc failed => Bool.eqb (resolve_fails doc) failed
  end.

Definition holds (c : case) : bool := true.
