(** C05 — correspondence and spec-side predicates evaluated on the implementation's outputs. *)
From V Require Import Base.Util Gql.Ast C05.Model C05.Spec.

Inductive case :=
| CCheck (label : str) (doc : tsdoc) (errs : list cerr)      (* resolved document, diagnostics of check_type_system_document *)
| CResolve (label : str) (doc : tsdoc) (failed : bool)       (* merged, unresolved document; did resolve_schema_extensions fail *)
| CSub (doc : tsdoc) (pairs : list (ty * ty * option bool)). (* unit level: types.rs::is_subtype(schema of doc, a, b) = r *)

Definition agree (c : case) : bool :=
  match c with
  | CCheck _ doc errs => list_eqb cerr_eqb (check_doc doc) errs
  | CResolve _ doc failed => Bool.eqb (resolve_fails doc) failed
  | CSub doc pairs =>
      forallb (fun p : ty * ty * option bool =>
                 option_eqb Bool.eqb (is_subtype doc (fst (fst p)) (snd (fst p))) (snd p)) pairs
  end.

(** the generator's label of a single-fault mutation -> the rule it breaks *)
Definition lbl_is (l : str) (x : String.string) : bool := str_eqb l (s x).
Arguments lbl_is l x%string_scope.
Definition label_rule (l : str) : option rule :=
  if lbl_is l "reserved_name" then Some RReserved else if lbl_is l "dup_field" then Some RDupField
  else if lbl_is l "dup_arg" then Some RDupArg else if lbl_is l "dup_enum_value" then Some RDupEnumValue
  else if lbl_is l "dup_union_member" then Some RDupUnionMember else if lbl_is l "dup_input_field" then Some RDupInputField
  else if lbl_is l "directive_defined_twice" then Some RDupDirective
  else if lbl_is l "unknown_type" then Some RUnknownType else if lbl_is l "input_in_output" then Some RInputInOutput
  else if lbl_is l "output_in_input" then Some ROutputInInput else if lbl_is l "not_interface" then Some RNotInterface
  else if lbl_is l "implements_self" then Some RImplementsSelf else if lbl_is l "missing_transitive" then Some RMissingTransitive
  else if lbl_is l "iface_field_missing" then Some RIfaceFieldMissing else if lbl_is l "iface_field_type" then Some RIfaceFieldType
  else if lbl_is l "iface_arg_missing" then Some RIfaceArgMissing else if lbl_is l "iface_arg_type" then Some RIfaceArgType
  else if lbl_is l "iface_extra_required_arg" then Some RIfaceExtraRequiredArg
  else if lbl_is l "union_member_not_object" then Some RUnionMemberNotObject
  else if lbl_is l "directive_unknown" then Some RDirectiveUnknown else if lbl_is l "directive_misplaced" then Some RDirectiveMisplaced
  else if lbl_is l "directive_repeated" then Some RDirectiveRepeated else if lbl_is l "directive_args" then Some RDirectiveArgs
  else if lbl_is l "directive_recursive" then Some RDirectiveRecursive
  else None.

Definition rule_eqb (a b : rule) : bool :=
  match a, b with
  | RReserved, RReserved | RDupField, RDupField | RDupArg, RDupArg | RDupEnumValue, RDupEnumValue
  | RDupUnionMember, RDupUnionMember | RDupInputField, RDupInputField | RDupDirective, RDupDirective | RUnknownType, RUnknownType
  | RInputInOutput, RInputInOutput | ROutputInInput, ROutputInInput | RNotInterface, RNotInterface
  | RImplementsSelf, RImplementsSelf | RMissingTransitive, RMissingTransitive | RIfaceFieldMissing, RIfaceFieldMissing
  | RIfaceFieldType, RIfaceFieldType | RIfaceArgMissing, RIfaceArgMissing | RIfaceArgType, RIfaceArgType
  | RIfaceExtraRequiredArg, RIfaceExtraRequiredArg | RUnionMemberNotObject, RUnionMemberNotObject
  | RDirectiveUnknown, RDirectiveUnknown | RDirectiveMisplaced, RDirectiveMisplaced
  | RDirectiveRepeated, RDirectiveRepeated | RDirectiveArgs, RDirectiveArgs | RDirectiveRecursive, RDirectiveRecursive => true
  | _, _ => false
  end.

Definition is_nil {A} (l : list A) : bool := match l with [] => true | _ => false end.

(** the property, read on the implementation's own output:
    - a document valid under the specification gets no diagnostic;
    - a document (with unique type names, the built-in directives not redefined) that breaks an implemented rule
      gets at least one;
    - the generator's label agrees with the specification side (a `valid` case is [spec_valid], a case labelled
      with a rule breaks that rule), so neither check can pass vacuously. *)
Definition holds (c : case) : bool :=
  match c with
  | CCheck label doc errs =>
      let sv := spec_valid doc in
      let viol := if unique_type_names doc && builtins_not_redefined doc then violated doc else [] in
      (if str_eqb label (s "valid") then sv else true) &&
      (match label_rule label with Some r => existsb (rule_eqb r) viol | None => true end) &&
      (if sv then is_nil errs else true) &&
      (if is_nil viol then true else negb (is_nil errs)) &&
      (* an `implements` cycle (spec 3.7) is rejected *)
      (if unique_type_names doc && negb (ok_implements_acyclic doc) then negb (is_nil errs) else true)
  | CResolve label doc failed =>
      (if str_eqb label (s "valid") then false else true) &&
      (if str_eqb label (s "dup_type") then same_kind_dup doc else true) &&
      (if same_kind_dup doc then failed else true)
  | CSub doc pairs =>
      (* the schema is accepted and has unique names (premises of C05_is_subtype_covariant_correct); then on defined
         types the implementation's answer is the specification's IsValidImplementationFieldType, and "unknown" (None)
         is only ever answered for an undefined type *)
      is_nil (check_doc doc) && unique_names doc &&
      forallb (fun p : ty * ty * option bool =>
                 let '(a, b, r) := p in
                 if defined doc (base_name a) && defined doc (base_name b)
                 then Bool.eqb (valid_impl_field_type doc a b) (match r with Some true => true | _ => false end)
                      && (match r with None => false | _ => true end)
                 else true) pairs
  end.
