(** C05 — proofs, part 13: the traversal of nested input types (directives_in_type since 2bc0346, model: [dit]).
    - it never runs out of the fuel the model gives it;
    - what it collects are the directives written on types reachable through input-object fields (soundness);
    - and all of them (completeness: the visited set is closed under "field type of"). *)
From V Require Import Base.Util Gql.Ast C05.Model C05.Spec C05.Proofs.

Lemma last_type_In doc n t : last_type doc n = Some t -> In t (types_of doc) /\ tname t = n.
Proof.
  induction doc as [|a r IH]; [discriminate|]. cbn [last_type]. unfold types_of in *. cbn [flat_map].
  destruct (last_type r n) eqn:L.
  - intros H. injection H as ->. destruct (IH eq_refl) as [H1 H2]. split; [apply in_or_app; right; exact H1 | exact H2].
  - destruct a; try discriminate. destruct (str_eqb (tname t0) n) eqn:E; [|discriminate].
    intros H. injection H as ->. split; [left; reflexivity | apply str_eqb_eq; exact E].
Qed.

Section Dit.
  Variable doc : tsdoc.

  Definition tcanon (t : typedef) : Prop := last_type doc (tname t) = Some t.
  Lemma last_type_canon n t : last_type doc n = Some t -> tcanon t.
  Proof. intros H. unfold tcanon. destruct (last_type_In _ _ _ H) as [_ ->]. exact H. Qed.
  Lemma tcanon_inj a b : tcanon a -> tcanon b -> tname a = tname b -> a = b.
  Proof. unfold tcanon. intros Ha Hb E. rewrite E in Ha. congruence. Qed.

  (** "the type of a field of input object a is b" *)
  Definition tedge (a b : typedef) : Prop :=
    match a with
    | TDInput _ _ _ _ fields _ => exists fd, In fd fields /\ last_type doc (iname (ty_unwrapped (iv_type fd))) = Some b
    | _ => False
    end.
  Inductive treach : typedef -> typedef -> Prop :=
  | treach0 a : treach a a
  | treachS a b c : tedge a b -> treach b c -> treach a c.
  Lemma treach_trans a b c : treach a b -> treach b c -> treach a c.
  Proof. induction 1 as [|a b c0 He Hr IH]; intros Hc; [exact Hc | econstructor; [exact He | apply IH; exact Hc]]. Qed.

  (** the step of the fold over the fields of an input object *)
  Definition dstep (f : nat) (acc : list directive * list str * bool) (fd : inputvaldef) : list directive * list str * bool :=
    match last_type doc (iname (ty_unwrapped (iv_type fd))) with
    | Some ft => let r := dit f doc ft (snd (fst acc)) in (fst (fst acc) ++ fst (fst r), snd (fst r), snd acc && snd r)
    | None => acc
    end.
  Lemma dit_eq fuel def seen :
    dit fuel doc def seen =
    match fuel with
    | O => ([], seen, false)
    | S f =>
        if mem (tname def) seen then ([], seen, true) else
        match def with
        | TDInput _ _ _ _ fields _ => fold_left (dstep f) fields (shallow_dirs def, tname def :: seen, true)
        | _ => (shallow_dirs def, tname def :: seen, true)
        end
    end.
  Proof. destruct fuel; reflexivity. Qed.

  (** ** fuel *)
  Definition unseen_l (l : list str) (seen : list str) : nat := length (filter (fun n => negb (mem n seen)) l).
  Lemma unseen_l_mono l s s' : incl s s' -> unseen_l l s' <= unseen_l l s.
  Proof.
    intros H. unfold unseen_l. induction l as [|n l IH]; cbn [filter length]; [lia|].
    destruct (mem n s) eqn:M.
    - apply mem_In in M. apply H in M. apply mem_In in M. rewrite M. cbn [negb]. exact IH.
    - cbn [negb length]. destruct (mem n s'); cbn [negb length]; lia.
  Qed.
  Lemma unseen_l_cons l n s : In n l -> ~ In n s -> unseen_l l (n :: s) < unseen_l l s.
  Proof.
    intros Hin Hn. induction l as [|m l IH]; [contradiction|].
    pose proof (unseen_l_mono l s (n :: s) (fun x Hx => or_intror Hx)) as Hle.
    unfold unseen_l in *. cbn [filter].
    destruct Hin as [->|Hin].
    - assert (M1 : mem n (n :: s) = true) by (apply mem_In; left; reflexivity).
      assert (M2 : mem n s = false) by (apply mem_false; exact Hn). rewrite M1, M2. cbn [negb length]. lia.
    - specialize (IH Hin). destruct (mem m (n :: s)) eqn:M1; destruct (mem m s) eqn:M2; cbn [negb length]; try lia.
      exfalso. apply mem_In in M2. apply mem_false in M1. apply M1. right; exact M2.
  Qed.
  Definition tnames : list str := map tname (types_of doc).
  Definition unseen (seen : list str) : nat := unseen_l tnames seen.

  (** the seen set only grows *)
  Lemma dit_seen_mono fuel : forall def seen, incl seen (snd (fst (dit fuel doc def seen))).
  Proof.
    induction fuel as [|f IH]; intros def seen; rewrite dit_eq; [apply incl_refl|].
    destruct (mem (tname def) seen); [apply incl_refl|].
    assert (Hfold : forall l acc, incl (snd (fst acc)) (snd (fst (fold_left (dstep f) l acc)))).
    { induction l as [|fd l IHl]; intros acc; cbn [fold_left]; [apply incl_refl|].
      eapply incl_tran; [|apply IHl]. unfold dstep. destruct (last_type doc _); [cbn [fst snd]; apply IH | apply incl_refl]. }
    assert (H1 : incl seen (tname def :: seen)) by (intros x Hx; right; exact Hx).
    destruct def; try exact H1. eapply incl_tran; [exact H1|]. apply (Hfold fields (_, _, true)).
  Qed.

  Lemma dit_fuel_ok fuel : forall def seen,
    In (tname def) tnames -> unseen seen < fuel -> snd (dit fuel doc def seen) = true.
  Proof.
    induction fuel as [|f IH]; intros def seen Hin Hlt; [lia|]. rewrite dit_eq.
    destruct (mem (tname def) seen) eqn:M; [reflexivity|]. apply mem_false in M.
    pose proof (unseen_l_cons tnames _ _ Hin M) as Hdec. fold (unseen (tname def :: seen)) in Hdec. fold (unseen seen) in Hdec.
    assert (Hfold : forall l acc, snd acc = true -> unseen (snd (fst acc)) < f -> snd (fold_left (dstep f) l acc) = true).
    { induction l as [|fd l IHl]; intros acc Hok Hm; cbn [fold_left]; [exact Hok|]. apply IHl.
      - unfold dstep. destruct (last_type doc _) as [ft|] eqn:L; [|exact Hok]. cbn [snd]. rewrite Hok. cbn [andb].
        apply IH; [|exact Hm]. apply last_type_In in L as [L _]. unfold tnames. apply in_map. exact L.
      - unfold dstep. destruct (last_type doc _) as [ft|]; [|exact Hm]. cbn [fst snd].
        pose proof (unseen_l_mono tnames _ _ (dit_seen_mono f ft (snd (fst acc)))) as Hle. unfold unseen in *. lia. }
    destruct def; try reflexivity. apply Hfold; [reflexivity|]. cbn [fst snd]. lia.
  Qed.

  Lemma tnames_length : length tnames <= length doc.
  Proof.
    unfold tnames. rewrite map_length. unfold types_of. clear. induction doc as [|a r IH]; cbn [flat_map length]; [lia|].
    rewrite app_length. destruct a; cbn [length]; lia.
  Qed.
  Lemma unseen_nil : unseen [] <= length doc.
  Proof.
    unfold unseen, unseen_l. pose proof tnames_length. 
    assert (length (filter (fun n => negb (mem n [])) tnames) <= length tnames).
    { clear. induction tnames as [|a l IH]; cbn [filter length]; [lia|]. destruct (negb (mem a [])); cbn [length]; lia. }
    lia.
  Qed.

  (** the model's fuel suffices for every traversal started by the recursion search *)
  Theorem next_of_fuel_enough d : next_of_fuel_ok doc d = true.
  Proof.
    unfold next_of_fuel_ok. apply forallb_forall. intros iv _.
    destruct (last_type doc (iname (ty_unwrapped (iv_type iv)))) as [td|] eqn:L; [|reflexivity].
    apply dit_fuel_ok.
    - apply last_type_In in L as [L _]. unfold tnames. apply in_map. exact L.
    - unfold dit_fuel. pose proof unseen_nil. lia.
  Qed.

  (** ** soundness: everything collected is written on a type reachable through input-object fields *)
  Lemma dit_sound fuel : forall def seen dir,
    In dir (fst (fst (dit fuel doc def seen))) -> exists t, treach def t /\ In dir (shallow_dirs t).
  Proof.
    induction fuel as [|f IH]; intros def seen dir; rewrite dit_eq; [intros []|].
    destruct (mem (tname def) seen); [intros []|].
    assert (Hfold : forall l acc, In dir (fst (fst (fold_left (dstep f) l acc))) ->
              In dir (fst (fst acc)) \/
              exists fd ft t, In fd l /\ last_type doc (iname (ty_unwrapped (iv_type fd))) = Some ft /\ treach ft t /\ In dir (shallow_dirs t)).
    { induction l as [|fd l IHl]; intros acc H; cbn [fold_left] in H; [left; exact H|].
      destruct (IHl _ H) as [H1|[fd' [ft [t [Hin Hrest]]]]]; [|right; exists fd', ft, t; split; [right; exact Hin | exact Hrest]].
      unfold dstep in H1. destruct (last_type doc (iname (ty_unwrapped (iv_type fd)))) as [ft|] eqn:L; [|left; exact H1].
      cbn [fst] in H1. apply in_app_or in H1 as [H1|H1]; [left; exact H1|].
      destruct (IH _ _ _ H1) as [t [Hr Hd]]. right. exists fd, ft, t. split; [left; reflexivity|]. split; [exact L|]. split; assumption. }
    destruct def; try (intros H; eexists; split; [apply treach0 | exact H]).
    intros H. destruct (Hfold _ _ H) as [H1|[fd [ft [t [Hin [L [Hr Hd]]]]]]].
    - eexists; split; [apply treach0 | exact H1].
    - exists t. split; [|exact Hd]. eapply treachS; [|exact Hr]. cbn [tedge]. exists fd. split; assumption.
  Qed.

  (** ** completeness: the visited set is closed under "type of a field of" *)
  Definition visited (n : str) (ds : list directive) (S : list str) : Prop :=
    exists t, tcanon t /\ tname t = n /\ incl (shallow_dirs t) ds /\ forall b, tedge t b -> In (tname b) S.
  Lemma visited_mono n ds S ds' S' : incl ds ds' -> incl S S' -> visited n ds S -> visited n ds' S'.
  Proof.
    intros Hd HS [t [Hc [Hn [Hi Hb]]]]. exists t. split; [exact Hc|]. split; [exact Hn|]. split.
    - eapply incl_tran; eassumption.
    - intros b Hb'. apply HS. apply Hb. exact Hb'.
  Qed.

  Lemma dit_closed fuel : forall def seen,
    tcanon def -> snd (dit fuel doc def seen) = true ->
    (~ In (tname def) seen -> In (tname def) (snd (fst (dit fuel doc def seen)))) /\
    (forall n, In n (snd (fst (dit fuel doc def seen))) ->
       In n seen \/ visited n (fst (fst (dit fuel doc def seen))) (snd (fst (dit fuel doc def seen)))).
  Proof.
    induction fuel as [|f IH]; intros def seen Hcan; rewrite dit_eq; [discriminate|].
    destruct (mem (tname def) seen) eqn:M.
    { intros _. apply mem_In in M. split; [intros Hn; contradiction | intros n Hn; left; exact Hn]. }
    apply mem_false in M.
    assert (Hfold : forall l acc, snd (fold_left (dstep f) l acc) = true ->
              snd acc = true /\ incl (fst (fst acc)) (fst (fst (fold_left (dstep f) l acc))) /\
              incl (snd (fst acc)) (snd (fst (fold_left (dstep f) l acc))) /\
              (forall fd ft, In fd l -> last_type doc (iname (ty_unwrapped (iv_type fd))) = Some ft ->
                 In (tname ft) (snd (fst (fold_left (dstep f) l acc)))) /\
              (forall n, In n (snd (fst (fold_left (dstep f) l acc))) ->
                 In n (snd (fst acc)) \/ visited n (fst (fst (fold_left (dstep f) l acc))) (snd (fst (fold_left (dstep f) l acc))))).
    { induction l as [|fd l IHl]; intros acc Hok; cbn [fold_left] in *.
      - split; [exact Hok|]. split; [apply incl_refl|]. split; [apply incl_refl|]. split; [intros ? ? []|]. intros n Hn. left; exact Hn.
      - destruct (IHl _ Hok) as [Hok1 [Hd1 [Hs1 [Hch1 Hcl1]]]].
        set (R := fold_left (dstep f) l (dstep f acc fd)) in *.
        unfold dstep in Hok1, Hd1, Hs1, Hcl1.
        destruct (last_type doc (iname (ty_unwrapped (iv_type fd)))) as [ft|] eqn:L.
        + cbn [fst snd] in Hok1, Hd1, Hs1, Hcl1. apply andb_true_iff in Hok1 as [Hoka Hokr].
          pose proof (last_type_canon _ _ L) as Hcft.
          destruct (IH ft (snd (fst acc)) Hcft Hokr) as [Hin Hcl].
          pose proof (dit_seen_mono f ft (snd (fst acc))) as Hmono.
          split; [exact Hoka|]. split; [intros x Hx; apply Hd1; apply in_or_app; left; exact Hx|].
          split; [eapply incl_tran; [exact Hmono | exact Hs1]|]. split.
          * intros fd' ft' [<-|Hfd'] L'.
            -- rewrite L in L'. injection L' as <-. apply Hs1.
               destruct (in_dec (list_eq_dec N.eq_dec) (tname ft) (snd (fst acc))) as [Hi|Hni]; [apply Hmono; exact Hi | apply Hin; exact Hni].
            -- apply (Hch1 fd' ft' Hfd' L').
          * intros n Hn. destruct (Hcl1 n Hn) as [Hn1|Hv]; [|right; exact Hv].
            destruct (Hcl n Hn1) as [Hn2|Hv]; [left; exact Hn2|]. right.
            eapply visited_mono; [| exact Hs1 | exact Hv]. intros x Hx. apply Hd1. apply in_or_app. right; exact Hx.
        + split; [exact Hok1|]. split; [exact Hd1|]. split; [exact Hs1|]. split.
          * intros fd' ft' [<-|Hfd'] L'; [rewrite L in L'; discriminate | apply (Hch1 fd' ft' Hfd' L')].
          * exact Hcl1. }
    assert (Hleaf : (forall b, ~ tedge def b) ->
              (~ In (tname def) seen -> In (tname def) (tname def :: seen)) /\
              (forall n, In n (tname def :: seen) -> In n seen \/ visited n (shallow_dirs def) (tname def :: seen))).
    { intros Hno. split; [intros _; left; reflexivity|]. intros n [<-|Hn]; [|left; exact Hn]. right.
      exists def. split; [exact Hcan|]. split; [reflexivity|]. split; [apply incl_refl|]. intros b Hb. exfalso. exact (Hno b Hb). }
    destruct def; try (intros _; apply Hleaf; intros b Hb; exact Hb).
    intros Hok. destruct (Hfold _ _ Hok) as [_ [Hd [Hs [Hch Hcl]]]]. cbn [fst snd] in Hd, Hs, Hcl.
    set (R := fold_left (dstep f) fields (shallow_dirs (TDInput d p name dirs fields kw), tname (TDInput d p name dirs fields kw) :: seen, true)) in *.
    split.
    - intros _. apply Hs. left; reflexivity.
    - intros n Hn. destruct (Hcl n Hn) as [[<-|Hn1]|Hv]; [|left; exact Hn1|right; exact Hv]. right.
      exists (TDInput d p name dirs fields kw). split; [exact Hcan|]. split; [reflexivity|]. split; [exact Hd|].
      intros b [fd [Hfd Lb]]. apply (Hch fd b Hfd Lb).
  Qed.

  (** every type reachable from [def] is visited, and its own directives are collected *)
  Theorem dit_complete def t dir :
    tcanon def -> treach def t -> In dir (shallow_dirs t) -> In dir (directives_in_type doc def).
  Proof.
    intros Hcan Hr Hdir. unfold directives_in_type.
    assert (Hok : snd (dit (dit_fuel doc) doc def []) = true).
    { apply dit_fuel_ok; [|unfold dit_fuel; pose proof unseen_nil; lia].
      unfold tcanon in Hcan. apply last_type_In in Hcan as [Hc _]. unfold tnames. apply in_map. exact Hc. }
    destruct (dit_closed (dit_fuel doc) def [] Hcan Hok) as [Hin Hcl].
    set (R := dit (dit_fuel doc) doc def []) in *.
    assert (G : forall a x, treach a x -> tcanon a -> In (tname a) (snd (fst R)) -> tcanon x ->
                In (tname x) (snd (fst R)) /\ incl (shallow_dirs x) (fst (fst R))).
    { intros a x Hax. induction Hax as [a|a b c He Hbc IHr]; intros Ha Hina Hcx.
      - split; [exact Hina|]. destruct (Hcl _ Hina) as [[]|[t' [Hc' [Hn' [Hi' _]]]]].
        assert (t' = a) by (apply tcanon_inj; assumption). subst t'. exact Hi'.
      - destruct (Hcl _ Hina) as [[]|[t' [Hc' [Hn' [_ Hb']]]]].
        assert (t' = a) by (apply tcanon_inj; assumption). subst t'.
        assert (Hcb : tcanon b). { destruct a; cbn [tedge] in He; try contradiction. destruct He as [fd [_ L]]. eapply last_type_canon. exact L. }
        apply IHr; [exact Hcb | apply Hb'; exact He | exact Hcx]. }
    assert (Hall : forall x, treach def x -> tcanon x -> In (tname x) (snd (fst R)) /\ incl (shallow_dirs x) (fst (fst R))).
    { intros x Hx Hcx. apply (G def x Hx Hcan (Hin (fun H => H)) Hcx). }
    assert (Hct : tcanon t).
    { clear - Hcan Hr. induction Hr as [a|a b c He Hbc IH]; [exact Hcan|]. apply IH.
      destruct a; cbn [tedge] in He; try contradiction. destruct He as [fd [_ L]]. eapply last_type_canon. exact L. }
    destruct (Hall t Hr Hct) as [_ Hi]. apply Hi. exact Hdir.
  Qed.
End Dit.
