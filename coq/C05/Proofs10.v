(** C05 — proofs, part 10 (completeness): a document that respects every rule and whose
    directive applications are well formed gets no diagnostic
    from any check except possibly the directive-recursion search (part 11). *)
From V Require Import Base.Util Gql.Ast C05.Model C05.Spec C05.Proofs C05.Proofs2 C05.Proofs3 C05.Proofs4 C05.Proofs5 C05.Proofs9.

Lemma app_nil_intro {A} (a b : list A) : a = [] -> b = [] -> a ++ b = [].
Proof. intros -> ->. reflexivity. Qed.

Lemma count_name_In b r : In b r -> 1 <= count_name (iname (dir_name b)) r.
Proof.
  induction r as [|a r IH]; [intros []|]. cbn [count_name]. intros [->|H].
  - rewrite str_eqb_refl. lia.
  - specialize (IH H). lia.
Qed.

Lemma is_subtype_complete doc a b : valid_impl_field_type doc a b = true -> is_subtype doc a b <> Some false.
Proof.
  revert b. induction a as [n|a IH|p a IH]; intros b H; cbn [is_subtype valid_impl_field_type] in *.
  - destruct b as [o| |]; try discriminate. cbn.
    destruct (str_eqb (iname n) (iname o)) eqn:E; [discriminate|]. cbn [orb] in H.
    rewrite !first_type_lookup.
    unfold is_object, is_obj_or_iface, is_union_member, declares_iface, is_interface, declares in H.
    destruct (lookup_t doc (iname n)) as [[]|]; cbn [andb orb] in H; try discriminate.
    + (* object *)
      destruct (existsb (fun i => str_eqb (iname i) (iname o)) impls); [discriminate|].
      destruct (lookup_t doc (iname o)) as [[]|]; cbn [andb orb] in H; try discriminate;
        rewrite ?andb_false_r, ?orb_false_r in H; try discriminate; try (rewrite H; discriminate).
    + (* interface *)
      destruct (existsb (fun i => str_eqb (iname i) (iname o)) impls); [discriminate|].
      destruct (lookup_t doc (iname o)) as [[]|]; cbn [andb orb] in H; try discriminate;
        rewrite ?andb_false_r, ?orb_false_r in H; try discriminate; try (rewrite H; discriminate).
  - apply IH. exact H.
  - destruct b; try discriminate. apply IH. exact H.
Qed.

Section Complete.
  Variable doc : tsdoc.
  Hypothesis Hu : unique_names doc = true.
  Variable b : bool.
  Hypothesis HR : forall r, rule_ok_gen b r doc = true.
  Hypothesis Hne : ok_app_args_nonempty doc = true.

  Lemma arg_list_facts l :
    In l (all_arg_lists doc) ->
    NoDup (map (fun x => iname (iv_name x)) l) /\
    forall a, In a l -> reserved (iname (iv_name a)) = false /\ input_ty doc (iv_type a).
  Proof.
    intros Hl. split.
    - pose proof (HR RDupArg) as H. cbn [rule_ok_gen] in H. unfold ok_dup_arg in H. rewrite forallb_forall in H.
      apply nodup_str_NoDup. apply H. exact Hl.
    - intros a Ha. split.
      + pose proof (HR RReserved) as H. cbn [rule_ok_gen] in H. unfold ok_reserved in H. rewrite !andb_true_iff in H.
        destruct H as [[[_ _] H] _]. rewrite forallb_forall in H. specialize (H l Hl). rewrite forallb_forall in H.
        apply negb_true_iff. apply H. exact Ha.
      + pose proof (HR RUnknownType) as H1. pose proof (HR ROutputInInput) as H2. cbn [rule_ok_gen] in H1, H2.
        unfold ok_unknown_type in H1. rewrite !andb_true_iff in H1. destruct H1 as [[[[_ H1] _] _] _].
        unfold ok_output_in_input in H2. rewrite andb_true_iff in H2. destruct H2 as [H2 _].
        rewrite forallb_forall in H1, H2. specialize (H1 l Hl). specialize (H2 l Hl). rewrite forallb_forall in H1, H2.
        specialize (H1 a Ha). specialize (H2 a Ha). unfold input_ty, defined, is_input_named in *.
        destruct (lookup_t doc (base_name (iv_type a))) as [[]|]; try discriminate; reflexivity.
  Qed.

  Lemma directive_arg_list d : In d (directives_of doc) -> In (args_of (dd_args d)) (all_arg_lists doc).
  Proof. intros Hd. unfold all_arg_lists. apply in_or_app. right. apply in_map_iff. exists d. split; [reflexivity | exact Hd]. Qed.

  Lemma check_directives_aux_complete loc seen ds :
    (forall a, In a ds ->
       exists def, lookup_d doc (iname (dir_name a)) = Some def /\
                   existsb (fun l => str_eqb (iname l) loc) (dd_locs def) = true /\
                   check_arguments doc (dir_pos a) (iname (dir_name a)) (s "directive") (dir_args a) (opt_list (dd_args def)) = [] /\
                   (dd_repeatable def = None -> ~ In (iname (dir_name a)) seen /\ count_name (iname (dir_name a)) ds <= 1)) ->
    check_directives_aux doc loc seen ds = [].
  Proof.
    revert seen. induction ds as [|x r IH]; intros seen H; [reflexivity|]. cbn [check_directives_aux].
    destruct (H x (or_introl eq_refl)) as [def [L [Hloc [Hargs Hrep]]]]. rewrite first_directive_lookup, L.
    rewrite (existsb_forallb_negb _ _ Hloc), Hargs. cbn [app].
    assert (Hm : (if mem (iname (dir_name x)) seen
                  then match dd_repeatable def with None => [err (RepeatedDirective (iname (dir_name x))) (dir_pos x)] | Some _ => [] end
                  else []) = []).
    { destruct (mem (iname (dir_name x)) seen) eqn:M; [|reflexivity]. destruct (dd_repeatable def); [reflexivity|].
      exfalso. destruct (Hrep eq_refl) as [Hn _]. apply Hn. apply mem_In. exact M. }
    rewrite Hm. cbn [app]. apply IH. intros a Ha.
    destruct (H a (or_intror Ha)) as [da [La [Hla [Hca Hra]]]]. exists da. split; [exact La|]. split; [exact Hla|]. split; [exact Hca|].
    intros Hr. destruct (Hra Hr) as [Hns Hcnt]. cbn [count_name] in Hcnt.
    pose proof (count_name_In a r Ha) as Hge.
    assert (Hneq : str_eqb (iname (dir_name x)) (iname (dir_name a)) = false).
    { destruct (str_eqb (iname (dir_name x)) (iname (dir_name a))); [lia | reflexivity]. }
    rewrite Hneq in Hcnt. split; [|lia].
    destruct (mem (iname (dir_name x)) seen); [exact Hns|]. intros [Heq|Hin]; [|exact (Hns Hin)].
    apply str_eqb_neq in Hneq. exact (Hneq Heq).
  Qed.

  Lemma apps_complete la : In la (all_apps doc) -> check_directives doc (snd la) (fst la) = [].
  Proof.
    intros Hla. unfold check_directives. apply check_directives_aux_complete. intros a Ha.
    pose proof (HR RDirectiveUnknown) as H1. pose proof (HR RDirectiveMisplaced) as H2.
    pose proof (HR RDirectiveRepeated) as H3. pose proof (HR RDirectiveArgs) as H4. cbn [rule_ok_gen] in *.
    unfold ok_directive_unknown in H1. unfold ok_directive_misplaced in H2. unfold ok_directive_repeated in H3.
    unfold ok_directive_args, ok_directive_args_gen in H4. unfold ok_app_args_nonempty in Hne.
    rewrite forallb_forall in H1, H2, H3, H4, Hne.
    specialize (H1 la Hla). specialize (H2 la Hla). specialize (H3 la Hla). specialize (H4 la Hla). specialize (Hne la Hla).
    rewrite forallb_forall in H1, H2, H3, H4, Hne.
    specialize (H1 a Ha). specialize (H2 a Ha). specialize (H3 a Ha). specialize (H4 a Ha). specialize (Hne a Ha).
    destruct (lookup_d doc (iname (dir_name a))) as [def|] eqn:L; [|discriminate].
    exists def. split; [reflexivity|]. split; [exact H2|]. split.
    - pose proof (lookup_d_In _ _ _ L) as [Hdin _].
      destruct (arg_list_facts _ (directive_arg_list def Hdin)) as [Hnd Hfacts].
      apply (check_arguments_complete doc); try assumption.
      + pose proof (HR RDupInputField) as H; exact H.
      + pose proof (HR RUnknownType) as H; exact H.
      + pose proof (HR ROutputInInput) as H; exact H.
      + intros ad Had. apply Hfacts. exact Had.
      + destruct (dir_args a) as [x|]; [|exact I]. destruct (args_list x); [discriminate | discriminate].
    - intros Hr. rewrite Hr in H3. split; [intros []|]. apply Nat.leb_le. exact H3.
  Qed.

  Lemma apps_complete' loc ds : In (loc, ds) (all_apps doc) -> check_directives doc ds loc = [].
  Proof. intros H. exact (apps_complete (loc, ds) H). Qed.

  (** ** the pieces of a type definition *)
  Lemma unsco_ok (n : ident) : reserved (iname n) = false -> unsco n = [].
  Proof. unfold unsco. change (starts_uu (iname n)) with (reserved (iname n)). intros ->. reflexivity. Qed.

  Lemma out_pos_complete (t : ty) :
    defined doc (base_name t) = true -> is_output_named doc (base_name t) <> Some false ->
    (match inout_kind doc (iname (ty_unwrapped t)) with
     | Some k => if is_output_kind k then [] else [err (NoInputType (iname (ty_unwrapped t))) (ty_pos t)]
     | None => [err (UnknownType (iname (ty_unwrapped t))) (ty_pos t)] end) = [].
  Proof.
    unfold defined, base_name. rewrite inout_kind_lookup, is_output_named_kind.
    destruct (lookup_t doc (iname (ty_unwrapped t))) as [td|]; cbn [option_map]; [|discriminate].
    intros _ H. destruct (is_output_kind (kind_of_typedef td)); [reflexivity | exfalso; apply H; reflexivity].
  Qed.
  Lemma in_pos_complete (t : ty) :
    input_ty doc t ->
    (match inout_kind doc (iname (ty_unwrapped t)) with
     | None => [err (UnknownType (iname (ty_unwrapped t))) (ty_pos t)]
     | Some k => if is_input_kind k then [] else [err (NoOutputType (iname (ty_unwrapped t))) (ty_pos t)] end) = [].
  Proof.
    unfold input_ty, base_name. rewrite inout_kind_lookup, is_input_named_kind.
    destruct (lookup_t doc (iname (ty_unwrapped t))) as [td|]; cbn [option_map]; [|discriminate].
    intros H. injection H as ->. reflexivity.
  Qed.

  Lemma args_def_complete l :
    In l (all_arg_lists doc) -> (forall x, In x (arg_apps l) -> In x (all_apps doc)) -> check_args_def doc l = [].
  Proof.
    intros Hl Happs. destruct (arg_list_facts l Hl) as [Hnd Hf].
    apply seen_loop_nil_conv; [exact Hnd | intros ? ? [] |].
    intros a Ha. destruct (Hf a Ha) as [Hres Hin]. unfold args_def_body. rewrite (unsco_ok _ Hres), (in_pos_complete _ Hin).
    cbn [dup_err app]. apply (apps_complete' (s "ARGUMENT_DEFINITION") (iv_dirs a)). apply Happs.
    unfold arg_apps. apply in_map_iff. exists a. split; [reflexivity | exact Ha].
  Qed.

  Lemma type_apps_all t x : In t (types_of doc) -> In x (type_apps t) -> In x (all_apps doc).
  Proof. intros Ht Hx. unfold all_apps. apply in_flat_map. exists (TSType t). split; [apply In_types_of; exact Ht | exact Hx]. Qed.

  Lemma comp_of t n impls fs : In t (types_of doc) -> comp_parts t = Some (n, impls, fs) -> In (n, impls, fs) (comps doc).
  Proof. intros Ht Hc. apply In_comps. exists t. split; assumption. Qed.

  Lemma fields_complete t n impls fs :
    In t (types_of doc) -> comp_parts t = Some (n, impls, fs) ->
    (forall x, In x (field_apps fs) -> In x (type_apps t)) ->
    check_fields doc fs = [].
  Proof.
    intros Ht Hc Happs. pose proof (comp_of _ _ _ _ Ht Hc) as Hcomp.
    apply seen_loop_nil_conv; [| intros ? ? [] |].
    - pose proof (HR RDupField) as H. cbn [rule_ok_gen] in H. unfold ok_dup_field in H. rewrite forallb_forall in H.
      apply nodup_str_NoDup. apply (H _ Hcomp).
    - intros f Hf.
      assert (Hall : In f (all_fields doc)) by (apply In_all_fields; exists (n, impls, fs); split; [exact Hcomp | exact Hf]).
      pose proof (HR RReserved) as H1. pose proof (HR RUnknownType) as H2. pose proof (HR RInputInOutput) as H3. cbn [rule_ok_gen] in *.
      unfold ok_reserved in H1. rewrite !andb_true_iff in H1. destruct H1 as [[[_ H1] _] _].
      unfold ok_unknown_type in H2. rewrite !andb_true_iff in H2. destruct H2 as [[[[H2 _] _] _] _].
      unfold ok_input_in_output in H3. rewrite forallb_forall in H1, H2, H3.
      specialize (H1 f Hall). specialize (H2 f Hall). specialize (H3 f Hall). apply negb_true_iff in H1.
      unfold field_body. cbn [dup_err app]. rewrite (unsco_ok _ H1). cbn [app].
      rewrite (apps_complete' (s "FIELD_DEFINITION") (fd_dirs f)); cbn [app].
      2:{ apply (type_apps_all t); [exact Ht|]. apply Happs. unfold field_apps. apply in_flat_map. exists f. split; [exact Hf | left; reflexivity]. }
      rewrite out_pos_complete; [cbn [app] | exact H2 | destruct (is_output_named doc (base_name (fd_type f))) as [[]|]; discriminate].
      destruct (fd_args f) as [a|] eqn:Ea; [|reflexivity].
      apply args_def_complete.
      + unfold all_arg_lists. apply in_or_app. left. apply in_map_iff. exists f. split; [rewrite Ea; reflexivity | exact Hall].
      + intros x Hx. apply (type_apps_all t); [exact Ht|]. apply Happs. unfold field_apps. apply in_flat_map. exists f.
        split; [exact Hf | right; rewrite Ea; exact Hx].
  Qed.

  Lemma In_declared_ifaces impls j :
    In j (declared_ifaces doc impls) <->
    exists i d p n ii ds fs kw, In i impls /\ lookup_t doc (iname i) = Some (TDInterface d p n ii ds fs kw) /\ j = (n, ii, fs).
  Proof.
    unfold declared_ifaces. rewrite in_flat_map. split.
    - intros [i [Hi Hj]]. destruct (lookup_t doc (iname i)) as [[]|] eqn:L; try contradiction. destruct Hj as [<-|[]].
      do 8 eexists. split; [exact Hi|]. split; [exact L | reflexivity].
    - intros [i [d [p [n [ii [ds [fs [kw [Hi [L ->]]]]]]]]]]. exists i. split; [exact Hi|]. rewrite L. left; reflexivity.
  Qed.

  Lemma impl_field_complete n impls fs j jf :
    In (n, impls, fs) (comps doc) -> In j (declared_ifaces doc impls) -> In jf (snd j) -> In jf (all_fields doc) ->
    match find_fielddef (iname (fd_name jf)) fs with
    | None => [err (InterfaceFieldNotImplemented (iname (fd_name jf)) (iname (fst (fst j)))) (ipos n)]
    | Some field => check_impl_field doc (iname (fst (fst j))) field jf
    end = [].
  Proof.
    intros Hc Hj Hjf Hjall.
    assert (P : forall (ok : tsdoc -> bool) (p : list fielddef -> fielddef -> bool),
               ok doc = true -> ok doc = forall_impl_fields doc p -> p fs jf = true).
    { intros ok p Hok Heq. rewrite Heq in Hok. unfold forall_impl_fields in Hok. rewrite forallb_forall in Hok.
      specialize (Hok _ Hc). cbn [fst snd] in Hok. rewrite forallb_forall in Hok. specialize (Hok j Hj).
      rewrite forallb_forall in Hok. apply Hok. exact Hjf. }
    pose proof (P _ _ (HR RIfaceFieldMissing) eq_refl) as A1. cbn beta in A1.
    pose proof (P _ _ (HR RIfaceFieldType) eq_refl) as A2. cbn beta in A2.
    pose proof (P _ _ (HR RIfaceArgMissing) eq_refl) as A3. cbn beta in A3.
    pose proof (P _ _ (HR RIfaceArgType) eq_refl) as A4. cbn beta in A4.
    pose proof (P _ _ (HR RIfaceExtraRequiredArg) eq_refl) as A5. cbn beta in A5.
    rewrite find_fielddef_named. destruct (field_named fs (iname (fd_name jf))) as [f|] eqn:F; [|discriminate].
    assert (Hfall : In f (all_fields doc)).
    { apply In_all_fields. exists (n, impls, fs). split; [exact Hc|]. unfold field_named in F. apply find_some in F. tauto. }
    unfold check_impl_field. rewrite !opt_list_args_of. fold (args_of (fd_args f)). fold (args_of (fd_args jf)).
    rewrite forallb_forall in A3, A4, A5.
    assert (E1 : flat_map (fun imp_arg => match find_inputval (iname (iv_name imp_arg)) (args_of (fd_args f)) with
                  | None => [err (InterfaceArgumentNotImplemented (iname (iv_name imp_arg)) (iname (fst (fst j)))) (ipos (fd_name f))]
                  | Some fa => if ty_is_same (iv_type fa) (iv_type imp_arg) then [] else [err (ArgumentTypeMisMatchWithInterface (iname (fst (fst j)))) (ipos (iv_name fa))]
                  end) (args_of (fd_args jf)) = []).
    { apply flat_map_nil. intros ja Hja. rewrite find_inputval_named. specialize (A3 ja Hja). specialize (A4 ja Hja).
      destruct (arg_named (args_of (fd_args f)) (iname (iv_name ja))) as [fa|]; [|discriminate].
      rewrite ty_is_same_same, A4. reflexivity. }
    assert (E2 : flat_map (fun fa => if forallb (fun ia => negb (str_eqb (iname (iv_name ia)) (iname (iv_name fa)))) (args_of (fd_args jf))
                  then (if iv_required fa then [err (ArgumentTypeNonNullAgainstInterface (iname (fst (fst j)))) (ipos (iv_name fa))] else [])
                  else []) (args_of (fd_args f)) = []).
    { apply flat_map_nil. intros fa Hfa. specialize (A5 fa Hfa).
      destruct (forallb (fun ia => negb (str_eqb (iname (iv_name ia)) (iname (iv_name fa)))) (args_of (fd_args jf))) eqn:Fo; [|reflexivity].
      apply find_none_forall in Fo. unfold arg_named in A5. rewrite Fo in A5. apply negb_true_iff in A5.
      rewrite iv_required_is, A5. reflexivity. }
    rewrite E1, E2. cbn [app].
    pose proof (HR RUnknownType) as H2. cbn [rule_ok_gen] in H2. unfold ok_unknown_type in H2. rewrite !andb_true_iff in H2.
    destruct H2 as [[[[H2 _] _] _] _]. rewrite forallb_forall in H2.
    unfold ty_defined in A2. rewrite (H2 f Hfall), (H2 jf Hjall) in A2. cbn [andb] in A2.
    pose proof (is_subtype_complete doc _ _ A2) as Hs.
    destruct (is_subtype doc (fd_type f) (fd_type jf)) as [[]|]; try reflexivity. exfalso. apply Hs. reflexivity.
  Qed.

  Lemma implements_complete t (bself : bool) n impls fs :
    In t (types_of doc) -> comp_parts t = Some (n, impls, fs) ->
    (bself = true -> exists d p ds kw, t = TDInterface d p n impls ds fs kw) ->
    check_implements doc bself n fs impls = [].
  Proof.
    intros Ht Hc Hself. pose proof (comp_of _ _ _ _ Ht Hc) as Hcomp.
    unfold check_implements. apply flat_map_nil. intros i Hi.
    assert (Hs : bself && str_eqb (iname n) (iname i) = false).
    { destruct bself; [|reflexivity]. cbn [andb]. destruct (Hself eq_refl) as [d [p [ds [kw ->]]]].
      pose proof (HR RImplementsSelf) as H. cbn [rule_ok_gen] in H. unfold ok_implements_self in H. rewrite forallb_forall in H.
      specialize (H _ Ht). cbn beta iota in H. apply negb_true_iff in H.
      destruct (str_eqb (iname n) (iname i)) eqn:E; [|reflexivity]. exfalso.
      assert (Hex : existsb (fun i0 => str_eqb (iname i0) (iname n)) impls = true).
      { apply existsb_exists. exists i. split; [exact Hi | rewrite str_eqb_sym; exact E]. }
      rewrite Hex in H. discriminate. }
    rewrite Hs. rewrite (last_type_lookup doc _ Hu).
    pose proof (HR RUnknownType) as H1. pose proof (HR RNotInterface) as H2. cbn [rule_ok_gen] in H1, H2.
    unfold ok_unknown_type in H1. rewrite !andb_true_iff in H1. destruct H1 as [[_ H1] _].
    unfold ok_not_interface in H2. rewrite forallb_forall in H1, H2.
    specialize (H1 _ Hcomp). specialize (H2 _ Hcomp). cbn [fst snd] in H1, H2. rewrite forallb_forall in H1, H2.
    specialize (H1 i Hi). specialize (H2 i Hi). unfold defined, is_interface in *.
    destruct (lookup_t doc (iname i)) as [[d' p' n' | | d' p' n' ii ds' ifs kw' | | |]|] eqn:L; try discriminate.
    set (j := (n', ii, ifs)).
    assert (Hj : In j (declared_ifaces doc impls)).
    { apply In_declared_ifaces. do 8 eexists. split; [exact Hi|]. split; [exact L | reflexivity]. }
    unfold check_valid_implementation. apply app_nil_intro.
    - apply flat_map_nil. intros k Hk. pose proof (HR RMissingTransitive) as H. cbn [rule_ok_gen] in H.
      unfold ok_missing_transitive in H. rewrite forallb_forall in H. specialize (H _ Hcomp). cbn [fst snd] in H.
      rewrite forallb_forall in H. specialize (H j Hj). cbn [fst snd] in H. rewrite forallb_forall in H. specialize (H k Hk).
      unfold declares in H. rewrite H. reflexivity.
    - apply flat_map_nil. intros jf Hjf. apply (impl_field_complete n impls fs j jf Hcomp Hj Hjf).
      apply lookup_t_In in L as [Lin _]. apply In_all_fields. exists (n', ii, ifs). split; [|exact Hjf].
      apply In_comps. exists (TDInterface d' p' n' ii ds' ifs kw'). split; [exact Lin | reflexivity].
  Qed.

  Lemma typedef_complete t : In t (types_of doc) -> check_typedef doc t = [].
  Proof.
    intros Ht.
    assert (Hres : unsco (typedef_name t) = []).
    { apply unsco_ok. pose proof (HR RReserved) as H. cbn [rule_ok_gen] in H. unfold ok_reserved in H. rewrite !andb_true_iff in H.
      destruct H as [[[[H _] _] _] _]. rewrite forallb_forall in H. apply negb_true_iff. apply (H t Ht). }
    assert (Hdirs : forall loc ds, In (loc, ds) (type_apps t) -> check_directives doc ds loc = []).
    { intros loc ds Hin. apply apps_complete'. apply (type_apps_all t); assumption. }
    destruct t; cbn [check_typedef typedef_name type_apps] in *; rewrite Hres; cbn [app].
    - apply Hdirs. left; reflexivity.
    - rewrite (Hdirs _ _ (or_introl eq_refl)). cbn [app].
      rewrite (fields_complete _ name impls fields Ht eq_refl); [|intros x Hx; right; exact Hx]. cbn [app].
      apply (implements_complete _ false name impls fields Ht eq_refl). discriminate.
    - rewrite (Hdirs _ _ (or_introl eq_refl)). cbn [app].
      rewrite (fields_complete _ name impls fields Ht eq_refl); [|intros x Hx; right; exact Hx]. cbn [app].
      apply (implements_complete _ true name impls fields Ht eq_refl). intros _. do 4 eexists. reflexivity.
    - rewrite (Hdirs _ _ (or_introl eq_refl)). cbn [app].
      apply seen_loop_nil_conv; [| intros ? ? [] |].
      + pose proof (HR RDupUnionMember) as H. cbn [rule_ok_gen] in H. unfold ok_dup_union_member in H. rewrite forallb_forall in H.
        apply nodup_str_NoDup. apply (H _ Ht).
      + intros m Hm. unfold member_body. cbn [dup_err app]. rewrite (last_type_lookup doc _ Hu).
        pose proof (HR RUnknownType) as H1. pose proof (HR RUnionMemberNotObject) as H2. cbn [rule_ok_gen] in H1, H2.
        unfold ok_unknown_type in H1. rewrite !andb_true_iff in H1. destruct H1 as [_ H1].
        unfold ok_union_member_not_object in H2. rewrite forallb_forall in H1, H2.
        specialize (H1 _ Ht). specialize (H2 _ Ht). cbn beta iota in H1, H2. rewrite forallb_forall in H1, H2.
        specialize (H1 m Hm). specialize (H2 m Hm). unfold defined in H1.
        destruct (lookup_t doc (iname m)) as [[]|]; try discriminate; reflexivity.
    - rewrite (Hdirs _ _ (or_introl eq_refl)). cbn [app].
      apply seen_loop_nil_conv; [| intros ? ? [] |].
      + pose proof (HR RDupEnumValue) as H. cbn [rule_ok_gen] in H. unfold ok_dup_enum_value in H. rewrite forallb_forall in H.
        apply nodup_str_NoDup. apply (H _ Ht).
      + intros v Hv. unfold enum_value_body. cbn [dup_err app]. apply Hdirs. right. apply in_map_iff. exists v. split; [reflexivity | exact Hv].
    - rewrite (Hdirs _ _ (or_introl eq_refl)). cbn [app].
      assert (Hl : In fields (all_input_field_lists doc)).
      { unfold all_input_field_lists. apply in_flat_map. eexists. split; [exact Ht | left; reflexivity]. }
      apply seen_loop_nil_conv; [| intros ? ? [] |].
      + pose proof (HR RDupInputField) as H. cbn [rule_ok_gen] in H. unfold ok_dup_input_field in H. rewrite forallb_forall in H.
        apply nodup_str_NoDup. apply (H _ Hl).
      + intros f Hf. unfold input_field_body. cbn [dup_err app].
        pose proof (HR RReserved) as H1. cbn [rule_ok_gen] in H1. unfold ok_reserved in H1. rewrite !andb_true_iff in H1. destruct H1 as [_ H1].
        rewrite forallb_forall in H1. specialize (H1 _ Hl). rewrite forallb_forall in H1. specialize (H1 f Hf). apply negb_true_iff in H1.
        rewrite (unsco_ok _ H1). cbn [app].
        rewrite (Hdirs (s "INPUT_FIELD_DEFINITION") (iv_dirs f)); [cbn [app] | right; apply in_map_iff; exists f; split; [reflexivity | exact Hf]].
        apply in_pos_complete. eapply input_field_input_ty; [exact (HR RUnknownType) | exact (HR ROutputInInput) | exact Ht | exact Hf].
  Qed.

  (** everything of a directive definition except the recursion search *)
  Lemma directive_def_rest_complete d :
    In d (directives_of doc) ->
    unsco (dd_name d) ++ (match dd_args d with Some a => check_args_def doc a | None => [] end) = [].
  Proof.
    intros Hd.
    pose proof (HR RReserved) as H. cbn [rule_ok_gen] in H. unfold ok_reserved in H. rewrite !andb_true_iff in H.
    destruct H as [[[[_ H] _] _] _]. rewrite forallb_forall in H. specialize (H d Hd). apply negb_true_iff in H.
    rewrite (unsco_ok _ H). cbn [app]. destruct (dd_args d) as [a|] eqn:Ea; [|reflexivity].
    apply args_def_complete.
    - pose proof (directive_arg_list d Hd) as Hl. rewrite Ea in Hl. exact Hl.
    - intros x Hx. unfold all_apps. apply in_flat_map. exists (TSDirective d). split; [apply In_directives_of; exact Hd|].
      rewrite Ea. exact Hx.
  Qed.

  Lemma schema_complete sd : In (TSSchema sd) doc -> check_directives doc (sd_dirs sd) (s "SCHEMA") = [].
  Proof.
    intros Hs. apply apps_complete'. unfold all_apps. apply in_flat_map.
    exists (TSSchema sd). split; [exact Hs | left; reflexivity].
  Qed.
End Complete.
