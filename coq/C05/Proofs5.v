(** C05 — proofs, part 5: the rules about directive applications. *)
From V Require Import Base.Util Gql.Ast C05.Model C05.Spec C05.Proofs C05.Proofs2 C05.Proofs3 C05.Proofs4.

Lemma count_name_pos n ds : 0 < count_name n ds -> exists b, In b ds /\ iname (dir_name b) = n.
Proof.
  induction ds as [|a r IH]; cbn [count_name]; [lia|].
  destruct (str_eqb (iname (dir_name a)) n) eqn:E.
  - intros _. exists a. split; [left; reflexivity | apply str_eqb_eq; exact E].
  - intros H. destruct (IH H) as [b [Hb Hn]]. exists b. split; [right; exact Hb | exact Hn].
Qed.

Section Dirs.
  Variable doc : tsdoc.
  Hypothesis Hchk : check_doc doc = [].

  Lemma directive_args_nodup d :
    In d (directives_of doc) -> NoDup (map (fun x => iname (iv_name x)) (args_of (dd_args d))).
  Proof.
    intros Hd. pose proof (check_nil_directive doc d Hchk Hd) as H. unfold check_directive_def in H. split_nil H.
    unfold args_of. destruct (dd_args d) as [l|]; [|constructor]. apply check_args_def_nil in H. tauto.
  Qed.

  Lemma check_directives_aux_sound loc seen ds :
    check_directives_aux doc loc seen ds = [] ->
    forall a, In a ds ->
      exists def, lookup_d doc (iname (dir_name a)) = Some def /\
                  existsb (fun l => str_eqb (iname l) loc) (dd_locs def) = true /\
                  check_arguments doc (dir_pos a) (iname (dir_name a)) (s "directive") (dir_args a) (opt_list (dd_args def)) = [] /\
                  (dd_repeatable def = None -> ~ In (iname (dir_name a)) seen /\ count_name (iname (dir_name a)) ds <= 1).
  Proof.
    revert seen. induction ds as [|x r IH]; intros seen H a Ha; [contradiction|].
    cbn [check_directives_aux] in H. rewrite first_directive_lookup in H.
    destruct (lookup_d doc (iname (dir_name x))) as [dx|] eqn:Lx; [|discriminate].
    split_nil H. rename H into Hrest.
    assert (Hloc : existsb (fun l => str_eqb (iname l) loc) (dd_locs dx) = true).
    { destruct (forallb (fun l => negb (str_eqb (iname l) loc)) (dd_locs dx)) eqn:F; [discriminate|].
      apply forallb_negb_false. exact F. }
    assert (Hrep : dd_repeatable dx = None -> mem (iname (dir_name x)) seen = false).
    { intros Hr. rewrite Hr in Hn0. destruct (mem (iname (dir_name x)) seen); [discriminate | reflexivity]. }
    destruct Ha as [<-|Ha].
    - exists dx. split; [exact Lx|]. split; [exact Hloc|]. split; [assumption|].
      intros Hr. specialize (Hrep Hr). split; [apply mem_false; exact Hrep|].
      cbn [count_name]. rewrite str_eqb_refl.
      destruct (count_name (iname (dir_name x)) r) eqn:C; [lia|]. exfalso.
      assert (Hpos : 0 < count_name (iname (dir_name x)) r) by lia.
      apply count_name_pos in Hpos as [b [Hb Hbn]].
      rewrite Hrep in Hrest. destruct (IH _ Hrest b Hb) as [db [Lb [_ [_ Hb2]]]].
      rewrite Hbn, Lx in Lb. injection Lb as <-. destruct (Hb2 Hr) as [Hnot _]. apply Hnot. rewrite Hbn. left; reflexivity.
    - destruct (IH _ Hrest a Ha) as [da [La [Hla [Hca Hra]]]]. exists da. split; [exact La|]. split; [exact Hla|]. split; [exact Hca|].
      intros Hr. destruct (Hra Hr) as [Hnot Hcnt]. split.
      + intros Hin. apply Hnot. destruct (mem (iname (dir_name x)) seen); [exact Hin | right; exact Hin].
      + cbn [count_name]. destruct (str_eqb (iname (dir_name x)) (iname (dir_name a))) eqn:E; [|lia].
        exfalso. apply str_eqb_eq in E. rewrite E, La in Lx. injection Lx as <-.
        specialize (Hrep Hr). rewrite E in Hrep. apply Hnot. rewrite E, Hrep. left; reflexivity.
  Qed.

  Lemma app_facts la a :
    In la (all_apps doc) -> In a (snd la) ->
    exists def, lookup_d doc (iname (dir_name a)) = Some def /\
                existsb (fun l => str_eqb (iname l) (fst la)) (dd_locs def) = true /\
                check_arguments doc (dir_pos a) (iname (dir_name a)) (s "directive") (dir_args a) (opt_list (dd_args def)) = [] /\
                (dd_repeatable def = None -> count_name (iname (dir_name a)) (snd la) <= 1).
  Proof.
    intros Hla Ha. pose proof (clean_apps doc Hchk la Hla) as H. unfold check_directives in H.
    destruct (check_directives_aux_sound _ _ _ H a Ha) as [def [L [Hl [Hc Hr]]]].
    exists def. split; [exact L|]. split; [exact Hl|]. split; [exact Hc|]. intros E. apply Hr. exact E.
  Qed.

  Lemma sound_directive_unknown : ok_directive_unknown doc = true.
  Proof.
    unfold ok_directive_unknown. apply forallb_forall. intros la Hla. apply forallb_forall. intros a Ha.
    destruct (app_facts la a Hla Ha) as [def [-> _]]. reflexivity.
  Qed.
  Lemma sound_directive_misplaced : ok_directive_misplaced doc = true.
  Proof.
    unfold ok_directive_misplaced. apply forallb_forall. intros la Hla. apply forallb_forall. intros a Ha.
    destruct (app_facts la a Hla Ha) as [def [-> [Hl _]]]. exact Hl.
  Qed.
  Lemma sound_directive_repeated : ok_directive_repeated doc = true.
  Proof.
    unfold ok_directive_repeated. apply forallb_forall. intros la Hla. apply forallb_forall. intros a Ha.
    destruct (app_facts la a Hla Ha) as [def [-> [_ [_ Hr]]]].
    destruct (dd_repeatable def); [reflexivity|]. apply Nat.leb_le. apply Hr. reflexivity.
  Qed.
  (** values: every occurrence of every argument *)
  Lemma sound_directive_args : ok_directive_args doc = true.
  Proof.
    unfold ok_directive_args, ok_directive_args_gen. apply forallb_forall. intros la Hla. apply forallb_forall. intros a Ha.
    destruct (app_facts la a Hla Ha) as [def [L [_ [Hc _]]]]. rewrite L.
    apply check_arguments_sound with (ppos := dir_pos a) (pname := iname (dir_name a)) (kind := s "directive"); [exact Hchk| |exact Hc].
    apply directive_args_nodup. apply lookup_d_In in L. tauto.
  Qed.
End Dirs.
