(** C05 — executable model of nitrogql's type-system checker as it is in /repo now:
      crates/checker/src/type_system_checker/{mod.rs,interfaces.rs,check_directive_recursion.rs}
      crates/checker/src/common.rs   (check_directives, check_arguments, check_value,
                                      is_value_compatible_type_def; `variables` is always None here)
      crates/checker/src/types.rs    (inout_kind_of_type, is_subtype)
      crates/semantics/src/definition_map.rs (types / directives: HashMap::insert  = LAST definition wins)
      crates/type-system/src/builder.rs      (Schema: entry().or_insert         = FIRST definition wins)
    The model runs on the resolved [tsdoc] (output of resolve_schema_extensions, built-ins included) and
    returns the list of diagnostics in the order the implementation pushes them:
    message constructor with its payload, position, additional_info.
    The type-system [Schema] that ast_to_type_system builds is a projection of the AST (names, types,
    argument lists, `default_value.is_some()`, interfaces, union members, enum members, directive
    locations / repeatable); the model reads those components from the AST definition that the
    first-wins lookup selects.  Definitions only. *)
From V Require Import Base.Util Gql.Ast.

(** * Diagnostics: crates/checker/src/error.rs, the constructors reachable from the type-system checker *)
Inductive emsg :=
| UnknownDirective (name : str)
| DirectiveLocationNotAllowed (name : str)
| RepeatedDirective (name : str)
| ArgumentsNotNeeded (kind : str)
| RequiredArgumentNotSpecified (name : str)
| TypeMismatch (ty : str)
| UnknownVariable (name : str)
| UnknownEnumMember (member enum : str)
| UnknownArgument (name : str)
| RequiredFieldNotSpecified (name : str)
| UnknownField (name : str)
| UnscoUnsco
| DuplicatedName (name : str)
| UnknownType (name : str)
| RecursingDirective (name : str)
| NoOutputType (name : str)
| NoInputType (name : str)
| NotInterface (name : str)
| InterfaceNotImplemented (name : str)
| NoImplementSelf
| InterfaceFieldNotImplemented (field_name interface_name : str)
| FieldTypeMisMatchWithInterface (interface_name : str)
| InterfaceArgumentNotImplemented (argument_name interface_name : str)
| ArgumentTypeMisMatchWithInterface (interface_name : str)
| ArgumentTypeNonNullAgainstInterface (interface_name : str)
| NonObjectTypeUnionMember (member_name : str)
| TypeSystemError
| DefinitionPos (name : str)
| EOther (debug : str)     (* any other constructor: printed by the harness, never produced by the model *)
| EOutOfFuel.              (* model only: the fuel of the directive-recursion loop ran out (never happens, see Proofs) *)

Record cerr := mkErr { e_msg : emsg; e_pos : pos; e_info : list (pos * emsg) }.

Definition err (m : emsg) (p : pos) : cerr := mkErr m p [].

Definition emsg_eqb (a b : emsg) : bool :=
  match a, b with
  | UnknownDirective x, UnknownDirective y
  | DirectiveLocationNotAllowed x, DirectiveLocationNotAllowed y
  | RepeatedDirective x, RepeatedDirective y
  | ArgumentsNotNeeded x, ArgumentsNotNeeded y
  | RequiredArgumentNotSpecified x, RequiredArgumentNotSpecified y
  | TypeMismatch x, TypeMismatch y
  | UnknownVariable x, UnknownVariable y
  | UnknownArgument x, UnknownArgument y
  | RequiredFieldNotSpecified x, RequiredFieldNotSpecified y
  | UnknownField x, UnknownField y
  | DuplicatedName x, DuplicatedName y
  | UnknownType x, UnknownType y
  | RecursingDirective x, RecursingDirective y
  | NoOutputType x, NoOutputType y
  | NoInputType x, NoInputType y
  | NotInterface x, NotInterface y
  | InterfaceNotImplemented x, InterfaceNotImplemented y
  | FieldTypeMisMatchWithInterface x, FieldTypeMisMatchWithInterface y
  | ArgumentTypeMisMatchWithInterface x, ArgumentTypeMisMatchWithInterface y
  | ArgumentTypeNonNullAgainstInterface x, ArgumentTypeNonNullAgainstInterface y
  | NonObjectTypeUnionMember x, NonObjectTypeUnionMember y
  | DefinitionPos x, DefinitionPos y
  | EOther x, EOther y => str_eqb x y
  | UnknownEnumMember x1 x2, UnknownEnumMember y1 y2
  | InterfaceFieldNotImplemented x1 x2, InterfaceFieldNotImplemented y1 y2
  | InterfaceArgumentNotImplemented x1 x2, InterfaceArgumentNotImplemented y1 y2 => str_eqb x1 y1 && str_eqb x2 y2
  | UnscoUnsco, UnscoUnsco | NoImplementSelf, NoImplementSelf | TypeSystemError, TypeSystemError
  | EOutOfFuel, EOutOfFuel => true
  | _, _ => false
  end.

Definition info_eqb (a b : pos * emsg) : bool := pos_eqb (fst a) (fst b) && emsg_eqb (snd a) (snd b).
Definition cerr_eqb (a b : cerr) : bool :=
  emsg_eqb (e_msg a) (e_msg b) && pos_eqb (e_pos a) (e_pos b) && list_eqb info_eqb (e_info a) (e_info b).

(** * Small helpers *)
Definition mem (x : str) (l : list str) : bool := existsb (str_eqb x) l.

(** name.starts_with("__") *)
Definition starts_uu (n : str) : bool :=
  match n with 95%N :: 95%N :: _ => true | _ => false end.

(** Type::position (crates/ast/src/type.rs) *)
Fixpoint ty_pos (t : ty) : pos :=
  match t with TNamed n => ipos n | TNonNull t' => ty_pos t' | TList p _ => p end.

(** Display for Type *)
Fixpoint ty_to_string (t : ty) : str :=
  match t with
  | TNamed n => iname n
  | TList _ t' => [91%N] ++ ty_to_string t' ++ [93%N]
  | TNonNull t' => ty_to_string t' ++ [33%N]
  end.

Definition ty_is_nonnull (t : ty) : bool := match t with TNonNull _ => true | _ => false end.

(** Type::is_same *)
Fixpoint ty_is_same (a b : ty) : bool :=
  match a, b with
  | TNamed x, TNamed y => str_eqb (iname x) (iname y)
  | TNonNull x, TNonNull y => ty_is_same x y
  | TList _ x, TList _ y => ty_is_same x y
  | _, _ => false
  end.

Definition value_pos (v : value) : pos :=
  match v with
  | VVar _ p | VInt p _ | VFloat p _ | VString p _ | VBool p _ | VNull p | VEnum p _ | VList p _ | VObject p _ => p
  end.

Definition opt_list {A} (o : option (list A)) : list A := match o with Some l => l | None => [] end.

(** * The two lookups *)
Definition tname (t : typedef) : str := iname (typedef_name t).
Definition dname (d : directivedef) : str := iname (dd_name d).

(** Schema::get_type — SchemaBuilder::extend uses entry().or_insert: the FIRST definition of a name stays *)
Fixpoint first_type (doc : tsdoc) (n : str) : option typedef :=
  match doc with
  | [] => None
  | TSType t :: r => if str_eqb (tname t) n then Some t else first_type r n
  | _ :: r => first_type r n
  end.
Fixpoint first_directive (doc : tsdoc) (n : str) : option directivedef :=
  match doc with
  | [] => None
  | TSDirective d :: r => if str_eqb (dname d) n then Some d else first_directive r n
  | _ :: r => first_directive r n
  end.

(** DefinitionMap.types / .directives — HashMap::insert: the LAST definition of a name stays *)
Fixpoint last_type (doc : tsdoc) (n : str) : option typedef :=
  match doc with
  | [] => None
  | x :: r =>
      match last_type r n with
      | Some t => Some t
      | None => match x with TSType t => if str_eqb (tname t) n then Some t else None | _ => None end
      end
  end.
Fixpoint last_directive (doc : tsdoc) (n : str) : option directivedef :=
  match doc with
  | [] => None
  | x :: r =>
      match last_directive r n with
      | Some d => Some d
      | None => match x with TSDirective d => if str_eqb (dname d) n then Some d else None | _ => None end
      end
  end.

(** types.rs: inout_kind_of_type *)
Inductive iokind := KInput | KOutput | KBoth.
Definition is_input_kind (k : iokind) : bool := match k with KOutput => false | _ => true end.
Definition is_output_kind (k : iokind) : bool := match k with KInput => false | _ => true end.
Definition kind_of_typedef (t : typedef) : iokind :=
  match t with
  | TDScalar _ _ _ _ _ => KBoth
  | TDObject _ _ _ _ _ _ _ | TDInterface _ _ _ _ _ _ _ | TDUnion _ _ _ _ _ _ => KOutput
  | TDEnum _ _ _ _ _ _ => KBoth
  | TDInput _ _ _ _ _ _ => KInput
  end.
Definition inout_kind (doc : tsdoc) (n : str) : option iokind := option_map kind_of_typedef (first_type doc n).

(** * common.rs: check_value / is_value_compatible_type_def with variables = None *)

(** value.fields.iter().find(|(key,_)| name == key.name).map(|(_, v)| f v) *)
Fixpoint find_field {A B} (key : str) (f : A -> B) (fs : list (ident * A)) : option B :=
  match fs with
  | [] => None
  | (k, a) :: r => if str_eqb key (iname k) then Some (f a) else find_field key f r
  end.

(** str::parse::<i32>() on an integer lexeme: optional sign, one or more ASCII digits, value within i32 *)
Fixpoint digits_value (acc : Z) (l : str) : option Z :=
  match l with
  | [] => Some acc
  | c :: r => if (48 <=? c)%N && (c <=? 57)%N then digits_value (acc * 10 + Z.of_N (c - 48))%Z r else None
  end.
Definition parses_as_i32 (lexeme : str) : bool :=
  match lexeme with
  | [] => false
  | c :: r =>
      (* a sign is a sign only if something follows it *)
      let signed := (N.eqb c 45 || N.eqb c 43) && negb (match r with [] => true | _ => false end) in
      match digits_value 0 (if signed then r else lexeme) with
      | Some z => let v := if N.eqb c 45 && signed then (- z)%Z else z in
                  (-2147483648 <=? v)%Z && (v <=? 2147483647)%Z
      | None => false
      end
  end.

Definition builtin_scalar_ok (name : str) (v : value) : bool :=
  let is_null := match v with VNull _ => true | _ => false end in
  if str_eqb name (s "Boolean") then (match v with VBool _ _ => true | _ => is_null end)
  else if str_eqb name (s "Int") then (match v with VInt _ x => parses_as_i32 x | _ => is_null end)
  else if str_eqb name (s "Float") then (match v with VFloat _ _ | VInt _ _ => true | _ => is_null end)
  else if str_eqb name (s "String") then (match v with VString _ _ => true | _ => is_null end)
  else if str_eqb name (s "ID") then (match v with VString _ _ | VInt _ _ => true | _ => is_null end)
  else true.

Definition is_some {A} (o : option A) : bool := match o with Some _ => true | None => false end.
Definition iv_required (d : inputvaldef) : bool :=
  ty_is_nonnull (iv_type d) && (match iv_default d with None => true | Some _ => false end).

(** expected_type_of_location (aff743c): a value that is directly a variable is checked against the inner type when
    the location is non-null and has a default value (with variables = None the variable is unknown either way) *)
Definition expected_ty (d : inputvaldef) (v : value) : ty :=
  match iv_type d, v with
  | TNonNull inner, VVar _ _ => match iv_default d with Some _ => inner | None => iv_type d end
  | t, _ => t
  end.

(** 7d19234: every value given under the name of [ef] is checked:
      for (_, value) in fields.iter().filter(|(key, _)| ef.name == key.name) { check_value(value, expected_type_of_location(ef, value)) } *)
Definition occ_errs (cv : value -> ty -> list cerr) (ef : inputvaldef) :=
  fix ff (l : list (ident * value)) : list cerr :=
    match l with
    | [] => []
    | (k, fv) :: r => (if str_eqb (iname (iv_name ef)) (iname k) then cv fv (expected_ty ef fv) else []) ++ ff r
    end.
(** how many entries of [l] are named [name] *)
Definition occ_count (name : str) (l : list (ident * value)) : nat :=
  length (filter (fun kv : ident * value => str_eqb name (iname (fst kv))) l).
Definition list_sum (l : list nat) : nat := fold_right plus 0 l.

(** is_value_compatible_type_def, InputObject case with an ObjectValue: (diagnostics pushed, compatible?, additional_info) *)
Definition input_object_check (cv : value -> ty -> list cerr) (fields : list inputvaldef) (fs : list (ident * value))
  : list cerr * bool * list (pos * emsg) :=
  let present := fun ef : inputvaldef => Nat.ltb 0 (occ_count (iname (iv_name ef)) fs) in
  (* diagnostics pushed by the nested check_value calls: field definitions in order, their occurrences in order *)
  let errs := flat_map (fun ef => occ_errs cv ef fs) fields in
  (* res stays true iff no required field is missing *)
  let res := forallb (fun ef => present ef || negb (iv_required ef)) fields in
  let info_req := flat_map (fun ef => if present ef then []
                                    else if iv_required ef
                                         then [(ipos (iv_name ef), RequiredFieldNotSpecified (iname (iv_name ef)))]
                                         else []) fields in
  (* seen_fields is incremented once per occurrence *)
  let seen := list_sum (map (fun ef => occ_count (iname (iv_name ef)) fs) fields) in
  let extraneous := Nat.ltb seen (length fs) in
  let info :=
    if extraneous
    then info_req ++
         flat_map (fun kv : ident * value =>
           if existsb (fun f => str_eqb (iname (iv_name f)) (iname (fst kv))) fields then []
           else [(ipos (fst kv), UnknownField (iname (fst kv)))]) fs
    else info_req in
  (errs, res && negb extraneous, info).

(** check_variables_in_value (49e8e28) with variables = None: every variable nested in the literal is undefined *)
Fixpoint vars_in_value (v : value) : list cerr :=
  match v with
  | VVar name p => [err (UnknownVariable name) p]
  | VList _ vs => flat_map vars_in_value vs
  | VObject _ fs =>
      (fix ff (l : list (ident * value)) : list cerr :=
         match l with [] => [] | (_, fv) :: r => vars_in_value fv ++ ff r end) fs
  | _ => []
  end.
Definition is_builtin_scalar_name (name : str) : bool :=
  str_eqb name (s "Boolean") || str_eqb name (s "Int") || str_eqb name (s "Float") || str_eqb name (s "String") || str_eqb name (s "ID").

(** check_value, expected type Named(n): the `definitions.get_type` lookup and is_value_compatible_type_def;
    [cv] is check_value itself (for the fields of an input-object literal), [t] = TNamed n (for the message) *)
Definition check_named (cv : value -> ty -> list cerr) (doc : tsdoc) (v : value) (t : ty) (n : ident) : list cerr :=
  match first_type doc (iname n) with
  | None => [mkErr TypeSystemError (ipos n) [(ipos n, UnknownType (iname n))]]
  | Some td =>
      let mismatch info := [mkErr (TypeMismatch (ty_to_string t)) (value_pos v) info] in
      match td with
      | TDScalar _ _ nm _ _ =>
          (* a custom scalar accepts any literal, but variables inside it have to be defined *)
          (if is_builtin_scalar_name (iname nm) then [] else vars_in_value v) ++
          (if builtin_scalar_ok (iname nm) v then [] else mismatch [])
      | TDObject _ _ _ _ _ _ _ | TDInterface _ _ _ _ _ _ _ | TDUnion _ _ _ _ _ _ => mismatch []
      | TDEnum _ _ nm _ vals _ =>
          match v with
          | VNull _ => []
          | VEnum p x =>
              if forallb (fun m => negb (str_eqb (iname (ev_name m)) x)) vals
              then [mkErr (UnknownEnumMember x (iname nm)) p [(ipos nm, DefinitionPos (iname nm))]]
              else []
          | _ => mismatch []
          end
      | TDInput _ _ _ _ fields _ =>
          match v with
          | VNull _ => []
          | VObject _ fs =>
              let '(errs, ok, info) := input_object_check cv fields fs in
              errs ++ (if ok then [] else mismatch info)
          | _ => mismatch []
          end
      end
  end.

Fixpoint check_value (doc : tsdoc) (v : value) {struct v} : ty -> list cerr :=
  fix on_ty (t : ty) {struct t} : list cerr :=
    match v with
    | VVar name p => [err (UnknownVariable name) p]
    | _ =>
      match t with
      | TNonNull inner =>
          match v with
          | VNull p => [err (TypeMismatch (ty_to_string t)) p]
          | _ => on_ty inner
          end
      | TList _ inner =>
          match v with
          | VList _ vs => flat_map (fun e => check_value doc e inner) vs
          | VNull _ => []
          | _ => on_ty inner
          end
      | TNamed n => check_named (check_value doc) doc v t n
      end
    end.

(** common.rs: check_arguments (variables = None) *)
Fixpoint find_arg (key : str) (al : list (ident * value)) : option value :=
  match al with
  | [] => None
  | (k, v) :: r => if str_eqb key (iname k) then Some v else find_arg key r
  end.

(** diagnostics of one iteration of the loop over the argument definitions: a missing required argument, or the
    check of every value given under that name *)
Definition arg_errs (doc : tsdoc) (al : list (ident * value)) (argument_pos : pos) (d : inputvaldef) : list cerr :=
  match find_arg (iname (iv_name d)) al with
  | None =>
      if iv_required d
      then [mkErr (RequiredArgumentNotSpecified (iname (iv_name d))) argument_pos
                  [(ipos (iv_name d), DefinitionPos (iname (iv_name d)))]]
      else []
  | Some _ => occ_errs (check_value doc) d al
  end.

Definition check_arguments (doc : tsdoc) (parent_pos : pos) (parent_name kind : str)
           (args : option arguments) (defs : list inputvaldef) : list cerr :=
  match args, defs with
  | None, [] => []
  | Some a, [] => [mkErr (ArgumentsNotNeeded kind) (args_pos a) [(parent_pos, DefinitionPos parent_name)]]
  | _, _ =>
      let argument_pos := match args with None => parent_pos | Some a => args_pos a end in
      let al := match args with None => [] | Some a => args_list a end in
      (* seen_args is incremented once per occurrence of an argument whose name is declared *)
      let seen := list_sum (map (fun d => occ_count (iname (iv_name d)) al) defs) in
      flat_map (arg_errs doc al argument_pos) defs ++
      (if Nat.ltb seen (length al)
       then flat_map (fun kv : ident * value =>
              if forallb (fun d => negb (str_eqb (iname (iv_name d)) (iname (fst kv)))) defs
              then [err (UnknownArgument (iname (fst kv))) (ipos (fst kv))] else []) al
       else [])
  end.

(** common.rs: check_directives *)
Fixpoint check_directives_aux (doc : tsdoc) (loc : str) (seen : list str) (ds : list directive) : list cerr :=
  match ds with
  | [] => []
  | d :: r =>
      let name := iname (dir_name d) in
      match first_directive doc name with
      | None => err (UnknownDirective name) (ipos (dir_name d)) :: check_directives_aux doc loc seen r
      | Some def =>
          (if forallb (fun l => negb (str_eqb (iname l) loc)) (dd_locs def)
           then [err (DirectiveLocationNotAllowed name) (dir_pos d)] else []) ++
          (if mem name seen
           then (match dd_repeatable def with None => [err (RepeatedDirective name) (dir_pos d)] | Some _ => [] end)
           else []) ++
          check_arguments doc (dir_pos d) name (s "directive") (dir_args d) (opt_list (dd_args def)) ++
          check_directives_aux doc loc (if mem name seen then seen else name :: seen) r
      end
  end.
Definition check_directives (doc : tsdoc) (ds : list directive) (loc : str) : list cerr :=
  check_directives_aux doc loc [] ds.

(** * type_system_checker/mod.rs *)
Definition unsco (n : ident) : list cerr := if starts_uu (iname n) then [err UnscoUnsco (ipos n)] else [].

(** the common shape of the loops that keep a `seen` vector of names:
      if seen.contains(name) { push DuplicatedName } else { seen.push(name) }
    [body dup x] = the diagnostics of one iteration, [dup] = whether the name was already seen *)
Fixpoint seen_loop {A} (name : A -> str) (body : bool -> A -> list cerr) (seen : list str) (l : list A) : list cerr :=
  match l with
  | [] => []
  | x :: r =>
      body (mem (name x) seen) x ++
      seen_loop name body (if mem (name x) seen then seen else name x :: seen) r
  end.
Definition dup_err (dup : bool) (n : ident) : list cerr :=
  if dup then [err (DuplicatedName (iname n)) (ipos n)] else [].

Definition args_def_body (doc : tsdoc) (dup : bool) (v : inputvaldef) : list cerr :=
  let tn := ty_unwrapped (iv_type v) in
  unsco (iv_name v) ++
  dup_err dup (iv_name v) ++
  (match inout_kind doc (iname tn) with
   | None => [err (UnknownType (iname tn)) (ty_pos (iv_type v))]
   | Some k => if is_input_kind k then [] else [err (NoOutputType (iname tn)) (ty_pos (iv_type v))]
   end) ++
  check_directives doc (iv_dirs v) (s "ARGUMENT_DEFINITION").
Definition check_args_def (doc : tsdoc) (ivs : list inputvaldef) : list cerr :=
  seen_loop (fun v => iname (iv_name v)) (args_def_body doc) [] ivs.

(** the per-field loop of check_object and check_interface (the two loops are textually identical) *)
Definition field_body (doc : tsdoc) (dup : bool) (f : fielddef) : list cerr :=
  let tn := ty_unwrapped (fd_type f) in
  dup_err dup (fd_name f) ++
  unsco (fd_name f) ++
  check_directives doc (fd_dirs f) (s "FIELD_DEFINITION") ++
  (match inout_kind doc (iname tn) with
   | Some k => if is_output_kind k then [] else [err (NoInputType (iname tn)) (ty_pos (fd_type f))]
   | None => [err (UnknownType (iname tn)) (ty_pos (fd_type f))]
   end) ++
  (match fd_args f with Some a => check_args_def doc a | None => [] end).
Definition check_fields (doc : tsdoc) (fs : list fielddef) : list cerr :=
  seen_loop (fun f => iname (fd_name f)) (field_body doc) [] fs.

(** types.rs: is_subtype on the first-wins Schema *)
Fixpoint is_subtype (doc : tsdoc) (target other : ty) {struct target} : option bool :=
  match target with
  | TNonNull ti =>
      is_subtype doc ti (match other with TNonNull oi => oi | _ => other end)
  | TList _ ti =>
      match other with TList _ oi => is_subtype doc ti oi | _ => Some false end
  | TNamed tn =>
      let other_name := match other with TNamed o => Some (iname o) | _ => None end in
      if (match other_name with Some o => str_eqb (iname tn) o | None => false end) then Some true else
      match first_type doc (iname tn) with
      | None => None
      | Some tdef =>
          let other_def := match other_name with Some o => first_type doc o | None => None end in
          match tdef with
          | TDScalar _ _ _ _ _ | TDEnum _ _ _ _ _ _ | TDUnion _ _ _ _ _ _ | TDInput _ _ _ _ _ _ => Some false
          | TDInterface _ _ _ impls _ _ _ =>
              match other_name with
              | Some o =>
                  if existsb (fun i => str_eqb (iname i) o) impls then Some true
                  else match other_def with Some _ => Some false | None => None end
              | None => Some false
              end
          | TDObject _ _ _ impls _ _ _ =>
              match other_name with
              | None => Some false
              | Some o =>
                  if existsb (fun i => str_eqb (iname i) o) impls then Some true
                  else match other_def with
                       | Some (TDUnion _ _ _ _ members _) =>
                           if existsb (fun m => str_eqb (iname m) (iname tn)) members then Some true else Some false
                       | Some _ => Some false
                       | None => None
                       end
              end
          end
      end
  end.

(** interfaces.rs: check_valid_implementation *)
Definition find_fielddef (name : str) (fs : list fielddef) : option fielddef :=
  find (fun f => str_eqb name (iname (fd_name f))) fs.
Definition find_inputval (name : str) (ivs : list inputvaldef) : option inputvaldef :=
  find (fun a => str_eqb (iname (iv_name a)) name) ivs.

Definition check_impl_field (doc : tsdoc) (iface_name : str) (field imp_field : fielddef) : list cerr :=
  let fargs := opt_list (fd_args field) in
  let iargs := opt_list (fd_args imp_field) in
  flat_map (fun imp_arg =>
    match find_inputval (iname (iv_name imp_arg)) fargs with
    | None => [err (InterfaceArgumentNotImplemented (iname (iv_name imp_arg)) iface_name) (ipos (fd_name field))]
    | Some fa =>
        if ty_is_same (iv_type fa) (iv_type imp_arg) then []
        else [err (ArgumentTypeMisMatchWithInterface iface_name) (ipos (iv_name fa))]
    end) iargs ++
  flat_map (fun fa =>
    if forallb (fun ia => negb (str_eqb (iname (iv_name ia)) (iname (iv_name fa)))) iargs
    then (if iv_required fa
          then [err (ArgumentTypeNonNullAgainstInterface iface_name) (ipos (iv_name fa))] else [])
    else []) fargs ++
  (match is_subtype doc (fd_type field) (fd_type imp_field) with
   | Some false => [err (FieldTypeMisMatchWithInterface iface_name) (ipos (fd_name field))]
   | _ => []
   end).

Definition check_valid_implementation (doc : tsdoc) (obj_name : ident) (fields : list fielddef)
           (implements : list ident) (iface_name : ident) (iface_impls : list ident)
           (iface_fields : list fielddef) : list cerr :=
  flat_map (fun imp =>
    if existsb (fun i => str_eqb (iname i) (iname imp)) implements then []
    else [err (InterfaceNotImplemented (iname imp)) (ipos obj_name)]) iface_impls ++
  flat_map (fun imp_field =>
    match find_fielddef (iname (fd_name imp_field)) fields with
    | None => [err (InterfaceFieldNotImplemented (iname (fd_name imp_field)) (iname iface_name)) (ipos obj_name)]
    | Some field => check_impl_field doc (iname iface_name) field imp_field
    end) iface_fields.

(** the `implements` loops of check_object ([self_check] = false) and check_interface ([self_check] = true) *)
Definition check_implements (doc : tsdoc) (self_check : bool) (name : ident) (fields : list fielddef)
           (implements : list ident) : list cerr :=
  flat_map (fun i : ident =>
    if self_check && str_eqb (iname name) (iname i) then [err NoImplementSelf (ipos i)] else
    match last_type doc (iname i) with
    | None => [err (UnknownType (iname i)) (ipos i)]
    | Some (TDInterface _ _ iname' iimpls _ ifields _) =>
        check_valid_implementation doc name fields implements iname' iimpls ifields
    | Some _ => [err (NotInterface (iname i)) (ipos i)]
    end) implements.

Definition member_body (doc : tsdoc) (dup : bool) (m : ident) : list cerr :=
  dup_err dup m ++
  (match last_type doc (iname m) with
   | None => [err (UnknownType (iname m)) (ipos m)]
   | Some (TDObject _ _ _ _ _ _ _) => []
   | Some _ => [err (NonObjectTypeUnionMember (iname m)) (ipos m)]
   end).
Definition check_members (doc : tsdoc) (ms : list ident) : list cerr := seen_loop iname (member_body doc) [] ms.

Definition enum_value_body (doc : tsdoc) (dup : bool) (v : enumvaldef) : list cerr :=
  dup_err dup (ev_name v) ++ check_directives doc (ev_dirs v) (s "ENUM_VALUE").
Definition check_enum_values (doc : tsdoc) (vs : list enumvaldef) : list cerr :=
  seen_loop (fun v => iname (ev_name v)) (enum_value_body doc) [] vs.

Definition input_field_body (doc : tsdoc) (dup : bool) (f : inputvaldef) : list cerr :=
  let tn := ty_unwrapped (iv_type f) in
  dup_err dup (iv_name f) ++
  unsco (iv_name f) ++
  check_directives doc (iv_dirs f) (s "INPUT_FIELD_DEFINITION") ++
  (match inout_kind doc (iname tn) with
   | None => [err (UnknownType (iname tn)) (ty_pos (iv_type f))]
   | Some k => if is_input_kind k then [] else [err (NoOutputType (iname tn)) (ty_pos (iv_type f))]
   end).
Definition check_input_fields (doc : tsdoc) (fs : list inputvaldef) : list cerr :=
  seen_loop (fun f => iname (iv_name f)) (input_field_body doc) [] fs.

Definition check_typedef (doc : tsdoc) (t : typedef) : list cerr :=
  match t with
  | TDScalar _ _ name dirs _ => unsco name ++ check_directives doc dirs (s "SCALAR")
  | TDObject _ _ name impls dirs fields _ =>
      unsco name ++ check_directives doc dirs (s "OBJECT") ++ check_fields doc fields ++
      check_implements doc false name fields impls
  | TDInterface _ _ name impls dirs fields _ =>
      unsco name ++ check_directives doc dirs (s "INTERFACE") ++ check_fields doc fields ++
      check_implements doc true name fields impls
  | TDUnion _ _ name dirs members _ =>
      unsco name ++ check_directives doc dirs (s "UNION") ++ check_members doc members
  | TDEnum _ _ name dirs vals _ =>
      unsco name ++ check_directives doc dirs (s "ENUM") ++ check_enum_values doc vals
  | TDInput _ _ name dirs fields _ =>
      unsco name ++ check_directives doc dirs (s "INPUT_OBJECT") ++ check_input_fields doc fields
  end.

(** * check_directive_recursion.rs (as fixed in efed6d0) *)
(** the directives written on the definition of a type itself: on the type, its fields, its values *)
Definition shallow_dirs (t : typedef) : list directive :=
  match t with
  | TDScalar _ _ _ dirs _ => dirs
  | TDObject _ _ _ _ dirs fields _ | TDInterface _ _ _ _ dirs fields _ => dirs ++ flat_map fd_dirs fields
  | TDUnion _ _ _ dirs _ _ => dirs
  | TDEnum _ _ _ dirs vals _ => dirs ++ flat_map ev_dirs vals
  | TDInput _ _ _ dirs fields _ => dirs ++ flat_map iv_dirs fields
  end.

(** directives_in_type (2bc0346): for an input object also, transitively, the directives of the types of its fields;
    [seen] = the `seen_types` set of type names (threaded through the whole traversal), result = (directives in the
    order they are collected, seen set afterwards, fuel sufficed).  Every call that goes on adds a new type name to
    [seen], so the nesting depth is bounded by the number of type definitions (Proofs13: dit_fuel_enough). *)
Fixpoint dit (fuel : nat) (doc : tsdoc) (def : typedef) (seen : list str) : list directive * list str * bool :=
  match fuel with
  | O => ([], seen, false)
  | S f =>
      if mem (tname def) seen then ([], seen, true) else
      let seen1 := tname def :: seen in
      match def with
      | TDInput _ _ _ _ fields _ =>
          fold_left (fun (acc : list directive * list str * bool) (fd : inputvaldef) =>
                       match last_type doc (iname (ty_unwrapped (iv_type fd))) with
                       | Some ft =>
                           let r := dit f doc ft (snd (fst acc)) in
                           (fst (fst acc) ++ fst (fst r), snd (fst r), snd acc && snd r)
                       | None => acc
                       end) fields (shallow_dirs def, seen1, true)
      | _ => (shallow_dirs def, seen1, true)
      end
  end.
Definition dit_fuel (doc : tsdoc) : nat := S (length doc).
Definition directives_in_type (doc : tsdoc) (def : typedef) : list directive := fst (fst (dit (dit_fuel doc) doc def [])).

(** the directive definitions referenced from the arguments of [d] (the `next_directives.extend(...)` expression) *)
Definition next_of (doc : tsdoc) (d : directivedef) : list directivedef :=
  flat_map (fun iv : inputvaldef =>
    let tdirs := match last_type doc (iname (ty_unwrapped (iv_type iv))) with
                 | Some td => directives_in_type doc td | None => [] end in
    flat_map (fun dir : directive =>
      match last_directive doc (iname (dir_name dir)) with Some dd => [dd] | None => [] end)
      (iv_dirs iv ++ tdirs)) (opt_list (dd_args d)).
(** did every type traversal started from the arguments of [d] stay within its fuel *)
Definition next_of_fuel_ok (doc : tsdoc) (d : directivedef) : bool :=
  forallb (fun iv : inputvaldef =>
    match last_type doc (iname (ty_unwrapped (iv_type iv))) with
    | Some td => snd (dit (dit_fuel doc) doc td []) | None => true end) (opt_list (dd_args d)).

Record rstate := mkR { r_start : bool; r_reported : bool; r_seen : list str; r_next : list directivedef; r_errs : list cerr }.

Definition rec_step (doc : tsdoc) (self : str) (st : rstate) (d : directivedef) : rstate :=
  if negb (r_start st) && str_eqb (dname d) self then
    if r_reported st then st
    else mkR (r_start st) true (r_seen st) (r_next st)
             (r_errs st ++ [err (RecursingDirective (dname d)) (dd_pos d)])
  else if mem (dname d) (r_seen st) then mkR false (r_reported st) (r_seen st) (r_next st) (r_errs st)
  else mkR false (r_reported st) (dname d :: r_seen st) (r_next st ++ next_of doc d) (r_errs st).

Fixpoint rec_loop (fuel : nat) (doc : tsdoc) (self : str) (current : list directivedef)
         (is_start reported : bool) (seen : list str) : list cerr :=
  match fuel with
  | O => [err EOutOfFuel pos0]
  | S fuel' =>
      let st := fold_left (rec_step doc self) current (mkR is_start reported seen [] []) in
      r_errs st ++
      (match r_next st with
       | [] => []
       | nx => rec_loop fuel' doc self nx (r_start st) (r_reported st) (r_seen st)
       end)
  end.

Definition check_directive_recursion (doc : tsdoc) (d : directivedef) : list cerr :=
  rec_loop (S (length doc)) doc (dname d) [d] true false [].

Definition check_directive_def (doc : tsdoc) (d : directivedef) : list cerr :=
  (* model only: never produced (Proofs13) *)
  (if next_of_fuel_ok doc d then [] else [err EOutOfFuel pos0]) ++
  check_directive_recursion doc d ++ unsco (dd_name d) ++
  (match dd_args d with Some a => check_args_def doc a | None => [] end).

Definition check_def (doc : tsdoc) (d : tsdef) : list cerr :=
  match d with
  | TSSchema sd => check_directives doc (sd_dirs sd) (s "SCHEMA")
  | TSType t => check_typedef doc t
  | TSDirective dd => check_directive_def doc dd
  | TSSchemaExt _ | TSTypeExt _ => []        (* not present in a resolved TypeSystemDocument *)
  end.

(** check_type_system_document (451006c): the definitions in order, with the names of the directive definitions seen
    so far; a non-built-in directive definition whose name was already seen gets DuplicatedName at its name, before its
    own checks; definitions positioned as built-in (generate_builtins / nitrogql_builtins) are neither recorded nor
    reported *)
Definition dup_directive_errs (seen : list str) (d : tsdef) : list cerr :=
  match d with
  | TSDirective dd =>
      if pbuiltin (dd_pos dd) then []
      else if mem (dname dd) seen then [err (DuplicatedName (dname dd)) (ipos (dd_name dd))] else []
  | _ => []
  end.
Definition seen_after (seen : list str) (d : tsdef) : list str :=
  match d with
  | TSDirective dd => if pbuiltin (dd_pos dd) then seen else if mem (dname dd) seen then seen else dname dd :: seen
  | _ => seen
  end.
Fixpoint check_defs (doc : tsdoc) (seen : list str) (defs : list tsdef) : list cerr :=
  match defs with
  | [] => []
  | d :: r => dup_directive_errs seen d ++ check_def doc d ++ check_defs doc (seen_after seen d) r
  end.
Definition check_doc (doc : tsdoc) : list cerr := check_defs doc [] doc.

(** * semantics/src/schema_extension_resolver: does resolve_schema_extensions fail?
    (ExtensionList::set_original: a second original of the same kind and name; into_original_and_extensions:
    an extension whose kind+name has no original).  Only the verdict is modelled here; the merge itself is
    property C11. *)
Inductive tkind := KSchemaK | KScalarK | KObjectK | KInterfaceK | KUnionK | KEnumK | KInputK.
Definition tkind_eqb (a b : tkind) : bool :=
  match a, b with
  | KSchemaK, KSchemaK | KScalarK, KScalarK | KObjectK, KObjectK | KInterfaceK, KInterfaceK
  | KUnionK, KUnionK | KEnumK, KEnumK | KInputK, KInputK => true
  | _, _ => false
  end.
Definition typedef_kind (t : typedef) : tkind :=
  match t with
  | TDScalar _ _ _ _ _ => KScalarK | TDObject _ _ _ _ _ _ _ => KObjectK | TDInterface _ _ _ _ _ _ _ => KInterfaceK
  | TDUnion _ _ _ _ _ _ => KUnionK | TDEnum _ _ _ _ _ _ => KEnumK | TDInput _ _ _ _ _ _ => KInputK
  end.
Definition typeext_kind (t : typeext) : tkind :=
  match t with
  | TEScalar _ _ _ => KScalarK | TEObject _ _ _ _ _ => KObjectK | TEInterface _ _ _ _ _ => KInterfaceK
  | TEUnion _ _ _ _ => KUnionK | TEEnum _ _ _ _ => KEnumK | TEInput _ _ _ _ => KInputK
  end.
(** (is_extension, kind, name); directive definitions are not keyed *)
Definition item_key (d : tsdef) : option (bool * tkind * str) :=
  match d with
  | TSSchema _ => Some (false, KSchemaK, [])
  | TSSchemaExt _ => Some (true, KSchemaK, [])
  | TSType t => Some (false, typedef_kind t, tname t)
  | TSTypeExt t => Some (true, typeext_kind t, iname (typeext_name t))
  | TSDirective _ => None
  end.
Definition same_key (k : tkind) (n : str) (d : tsdef) : bool :=
  match item_key d with
  | Some (false, k', n') => tkind_eqb k k' && str_eqb n n'
  | _ => false
  end.
Fixpoint has_dup_original (doc : tsdoc) : bool :=
  match doc with
  | [] => false
  | d :: r =>
      (match item_key d with Some (false, k, n) => existsb (same_key k n) r | _ => false end) || has_dup_original r
  end.
Definition has_orphan_extension (doc : tsdoc) : bool :=
  existsb (fun d => match item_key d with
                    | Some (true, k, n) => negb (existsb (same_key k n) doc)
                    | _ => false end) doc.
Definition resolve_fails (doc : tsdoc) : bool := has_dup_original doc || has_orphan_extension doc.
