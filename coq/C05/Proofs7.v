(** C05 — proofs, part 7: the specification-side reachability (Spec.closure) against the model's search. *)
From V Require Import Base.Util Gql.Ast C05.Model C05.Spec C05.Proofs C05.Proofs2 C05.Proofs3 C05.Proofs6.

Section NamePaths.
  Variable nested : bool.
  Variable doc : tsdoc.

  Definition nedge (a b : str) : Prop := exists x, lookup_d doc a = Some x /\ In b (dir_succ nested doc x).
  Inductive npath : nat -> str -> str -> Prop :=
  | npath0 a : npath 0 a a
  | npathS n a b c : nedge a b -> npath n b c -> npath (S n) a c.

  Lemma npath_snoc n a b c : npath n a b -> nedge b c -> npath (S n) a c.
  Proof. induction 1 as [a|n a b' c' He Hp IH]; intros Hc; [econstructor; [exact Hc | constructor] | econstructor; [exact He | apply IH; exact Hc]]. Qed.

  Lemma In_succ_names ns b : In b (succ_names nested doc ns) <-> exists a, In a ns /\ nedge a b.
  Proof.
    unfold succ_names, nedge. rewrite in_flat_map. split.
    - intros [a [Ha Hb]]. exists a. split; [exact Ha|]. destruct (lookup_d doc a) as [x|]; [exists x; split; [reflexivity | exact Hb] | contradiction].
    - intros [a [Ha [x [Hx Hb]]]]. exists a. split; [exact Ha|]. rewrite Hx. exact Hb.
  Qed.
  Lemma In_add_new seen l x : In x (add_new seen l) <-> In x seen \/ In x l.
  Proof.
    revert seen. induction l as [|y r IH]; intros seen; cbn [add_new]; [cbn [In]; tauto|].
    destruct (existsb (str_eqb y) seen) eqn:E; rewrite IH.
    - apply existsb_str_In in E. cbn [In]. split; [tauto|]. intros [H|[<-|H]]; tauto.
    - rewrite in_app_iff. cbn [In]. tauto.
  Qed.

  (** everything in the closure is reachable from the start set *)
  Lemma closure_sound fuel : forall seen x, In x (closure nested doc fuel seen) -> exists a n, In a seen /\ npath n a x.
  Proof.
    induction fuel as [|fuel IH]; intros seen x Hx; cbn [closure] in Hx.
    - exists x, 0. split; [exact Hx | constructor].
    - apply IH in Hx as [a [n [Ha Hp]]]. apply In_add_new in Ha as [Ha|Ha]; [exists a, n; split; assumption|].
      apply In_succ_names in Ha as [a0 [Ha0 He]]. exists a0, (S n). split; [exact Ha0 | econstructor; eassumption].
  Qed.

  Lemma reaches_self_path d : reaches_self nested doc d = true -> In d (directives_of doc) -> unique_names doc = true ->
    exists n, npath (S n) (iname (dd_name d)) (iname (dd_name d)).
  Proof.
    unfold reaches_self. intros H Hd Hu. apply existsb_str_In in H. apply closure_sound in H as [a [n [Ha Hp]]].
    apply In_add_new in Ha as [[]|Ha]. exists n. econstructor; [|exact Hp].
    exists d. split; [apply lookup_d_self; assumption | exact Ha].
  Qed.
End NamePaths.

(** for scalars, enums and input objects the two readings of "the directives on a type" coincide *)
Lemma dirs_on_type_input t b :
  is_input_kind (kind_of_typedef t) = true -> In b (dirs_on_type t) ->
  exists dir, In dir (directives_in_type t) /\ iname (dir_name dir) = b.
Proof.
  unfold dirs_on_type. rewrite in_flat_map. intros Hk [la [Hla Hb]]. apply in_map_iff in Hb as [dir [Hn Hdir]].
  exists dir. split; [|exact Hn].
  destruct t; cbn [kind_of_typedef is_input_kind] in Hk; try discriminate; cbn [type_apps directives_in_type] in *.
  - destruct Hla as [<-|[]]. exact Hdir.
  - destruct Hla as [<-|Hla]; [apply in_or_app; left; exact Hdir|]. apply in_map_iff in Hla as [v [<- Hv]].
    apply in_or_app. right. apply in_flat_map. exists v. split; [exact Hv | exact Hdir].
  - destruct Hla as [<-|Hla]; [apply in_or_app; left; exact Hdir|]. apply in_map_iff in Hla as [v [<- Hv]].
    apply in_or_app. right. apply in_flat_map. exists v. split; [exact Hv | exact Hdir].
Qed.

Section ShallowSound.
  Variable doc : tsdoc.
  Hypothesis Hchk : check_doc doc = [].
  Hypothesis Huniq : unique_names doc = true.

  Lemma canon_of d : In d (directives_of doc) -> canon doc d.
  Proof. intros Hd. unfold canon, dname. rewrite (last_directive_lookup doc _ Huniq). apply lookup_d_self; assumption. Qed.

  (** a shallow name edge between defined directives is an edge of the model's search *)
  Lemma nedge_edge x b y :
    In x (directives_of doc) -> In b (dir_succ false doc x) -> lookup_d doc b = Some y -> edge doc x y.
  Proof.
    intros Hx Hb Hy. unfold edge, next_of, dir_succ in *. rewrite opt_list_args_of. fold (args_of (dd_args x)).
    apply in_flat_map in Hb as [a [Ha Hb]]. apply in_flat_map. exists a. split; [exact Ha|].
    assert (Hdir : exists dir, In dir (iv_dirs a ++ match last_type doc (iname (ty_unwrapped (iv_type a))) with
                                                   | Some td => directives_in_type td | None => [] end)
                               /\ iname (dir_name dir) = b).
    { apply in_app_or in Hb as [Hb|Hb].
      - apply in_map_iff in Hb as [dir [Hn Hdir]]. exists dir. split; [apply in_or_app; left; exact Hdir | exact Hn].
      - cbn [flat_map] in Hb. rewrite app_nil_r in Hb. rewrite (last_type_lookup doc _ Huniq). fold (base_name (iv_type a)).
        destruct (lookup_t doc (base_name (iv_type a))) as [t|] eqn:L; [|contradiction].
        assert (Hin : is_input_named doc (base_name (iv_type a)) = Some true).
        { apply (arg_facts doc Hchk (args_of (dd_args x)) a); [|exact Ha]. unfold all_arg_lists. apply in_or_app. right.
          apply in_map_iff. exists x. split; [reflexivity | exact Hx]. }
        rewrite is_input_named_kind, L in Hin. cbn [option_map] in Hin. injection Hin as Hin.
        destruct (dirs_on_type_input t b Hin Hb) as [dir [Hd Hn]]. exists dir. split; [apply in_or_app; right; exact Hd | exact Hn]. }
    destruct Hdir as [dir [Hdir Hn]]. apply in_flat_map. exists dir. split; [exact Hdir|].
    rewrite Hn, (last_directive_lookup doc _ Huniq), Hy. left; reflexivity.
  Qed.

  Lemma npath_reach n : forall a b x,
    npath false doc n a b -> lookup_d doc a = Some x -> (exists yb, lookup_d doc b = Some yb) ->
    exists y, reach doc n x y /\ dname y = b.
  Proof.
    induction n as [|n IH]; intros a b x Hp Hx Hb; inversion Hp as [|? ? a1 ? He Hp']; subst.
    - exists x. split; [constructor | apply lookup_d_In in Hx; tauto].
    - destruct He as [x' [Hx' Hs]]. rewrite Hx in Hx'. injection Hx' as <-.
      assert (Ha1 : exists y1, lookup_d doc a1 = Some y1).
      { inversion Hp' as [|? ? a2 ? He2 _]; subst; [exact Hb|]. destruct He2 as [y1 [H1 _]]. exists y1; exact H1. }
      destruct Ha1 as [y1 Hy1].
      assert (Hedge : edge doc x y1) by (apply (nedge_edge x a1 y1); [apply lookup_d_In in Hx; tauto | exact Hs | exact Hy1]).
      destruct (IH a1 b y1 Hp' Hy1 Hb) as [y [Hr Hn]]. exists y. split; [econstructor; eassumption | exact Hn].
  Qed.

  Lemma sound_directive_recursive_shallow : ok_directive_recursive_shallow doc = true.
  Proof.
    unfold ok_directive_recursive_shallow. apply forallb_forall. intros d Hd. apply negb_true_iff. apply not_true_iff_false. intros Hr.
    destruct (reaches_self_path false doc d Hr Hd Huniq) as [n Hp].
    assert (Hl : lookup_d doc (iname (dd_name d)) = Some d) by (apply lookup_d_self; assumption).
    destruct (npath_reach (S n) _ _ d Hp Hl (ex_intro _ d Hl)) as [y [Hreach Hy]].
    apply (recursion_search_complete doc d (canon_of d Hd)) with (n := n) (y := y); [|exact Hreach|exact Hy].
    pose proof (check_nil_directive doc d Hchk Hd) as H. unfold check_directive_def in H. split_nil H. assumption.
  Qed.
End ShallowSound.
