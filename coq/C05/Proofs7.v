(** C05 — proofs, part 7: the specification-side reachability (Spec.closure) against the model's search. *)
From V Require Import Base.Util Gql.Ast C05.Model C05.Spec C05.Proofs C05.Proofs2 C05.Proofs3 C05.Proofs6 C05.Proofs13.

Section NamePaths.
  Variable nested : bool.
  Variable doc : tsdoc.

  Definition nedge (a b : str) : Prop := exists x, lookup_d doc a = Some x /\ In b (dir_succ nested doc x).
  Inductive npath : nat -> str -> str -> Prop :=
  | npath0 a : npath 0 a a
  | npathS n a b c : nedge a b -> npath n b c -> npath (S n) a c.

  Lemma npath_snoc n a b c : npath n a b -> nedge b c -> npath (S n) a c.
  Proof. induction 1 as [a|n a b' c' He Hp IH]; intros Hc; [econstructor; [exact Hc | constructor] | econstructor; [exact He | apply IH; exact Hc]]. Qed.

  Lemma In_succ_names ns b : In b (succ_names nested doc ns) <-> exists a, In a ns /\ nedge a b.
  Proof.
    unfold succ_names, nedge. rewrite in_flat_map. split.
    - intros [a [Ha Hb]]. exists a. split; [exact Ha|]. destruct (lookup_d doc a) as [x|]; [exists x; split; [reflexivity | exact Hb] | contradiction].
    - intros [a [Ha [x [Hx Hb]]]]. exists a. split; [exact Ha|]. rewrite Hx. exact Hb.
  Qed.
  Lemma In_add_new seen l x : In x (add_new seen l) <-> In x seen \/ In x l.
  Proof.
    revert seen. induction l as [|y r IH]; intros seen; cbn [add_new]; [cbn [In]; tauto|].
    destruct (existsb (str_eqb y) seen) eqn:E; rewrite IH.
    - apply existsb_str_In in E. cbn [In]. split; [tauto|]. intros [H|[<-|H]]; tauto.
    - rewrite in_app_iff. cbn [In]. tauto.
  Qed.

  (** everything in the closure is reachable from the start set *)
  Lemma closure_sound fuel : forall seen x, In x (closure nested doc fuel seen) -> exists a n, In a seen /\ npath n a x.
  Proof.
    induction fuel as [|fuel IH]; intros seen x Hx; cbn [closure] in Hx.
    - exists x, 0. split; [exact Hx | constructor].
    - apply IH in Hx as [a [n [Ha Hp]]]. apply In_add_new in Ha as [Ha|Ha]; [exists a, n; split; assumption|].
      apply In_succ_names in Ha as [a0 [Ha0 He]]. exists a0, (S n). split; [exact Ha0 | econstructor; eassumption].
  Qed.

  Lemma reaches_self_path d : reaches_self nested doc d = true -> In d (directives_of doc) -> unique_names doc = true ->
    exists n, npath (S n) (iname (dd_name d)) (iname (dd_name d)).
  Proof.
    unfold reaches_self. intros H Hd Hu. apply existsb_str_In in H. apply closure_sound in H as [a [n [Ha Hp]]].
    apply In_add_new in Ha as [[]|Ha]. exists n. econstructor; [|exact Hp].
    exists d. split; [apply lookup_d_self; assumption | exact Ha].
  Qed.
End NamePaths.

(** for scalars, enums and input objects the two readings of "the directives on a type" coincide *)
Lemma dirs_on_type_input t b :
  is_input_kind (kind_of_typedef t) = true -> In b (dirs_on_type t) ->
  exists dir, In dir (shallow_dirs t) /\ iname (dir_name dir) = b.
Proof.
  unfold dirs_on_type. rewrite in_flat_map. intros Hk [la [Hla Hb]]. apply in_map_iff in Hb as [dir [Hn Hdir]].
  exists dir. split; [|exact Hn].
  destruct t; cbn [kind_of_typedef is_input_kind] in Hk; try discriminate; cbn [type_apps shallow_dirs] in *.
  - destruct Hla as [<-|[]]. exact Hdir.
  - destruct Hla as [<-|Hla]; [apply in_or_app; left; exact Hdir|]. apply in_map_iff in Hla as [v [<- Hv]].
    apply in_or_app. right. apply in_flat_map. exists v. split; [exact Hv | exact Hdir].
  - destruct Hla as [<-|Hla]; [apply in_or_app; left; exact Hdir|]. apply in_map_iff in Hla as [v [<- Hv]].
    apply in_or_app. right. apply in_flat_map. exists v. split; [exact Hv | exact Hdir].
Qed.

(** ** the specification-side closure over field types: everything in it is reachable by names *)
Section TypeNames.
  Variable doc : tsdoc.
  Definition tnedge (a b : str) : Prop := In b (field_type_names doc a).
  Inductive tnpath : str -> str -> Prop :=
  | tnpath0 a : tnpath a a
  | tnpathS a b c : tnedge a b -> tnpath b c -> tnpath a c.
  Lemma tnpath_snoc a b c : tnpath a b -> tnedge b c -> tnpath a c.
  Proof. induction 1 as [a|a b' c' He Hp IH]; intros Hc; [econstructor; [exact Hc | constructor] | econstructor; [exact He | apply IH; exact Hc]]. Qed.
  Lemma tnpath_trans a b c : tnpath a b -> tnpath b c -> tnpath a c.
  Proof. induction 1 as [a|a b' c' He Hp IH]; intros Hc; [exact Hc | econstructor; [exact He | apply IH; exact Hc]]. Qed.

  Lemma tnpath_start_defined a x : tnpath a x -> (exists tx, lookup_t doc x = Some tx) -> exists ta, lookup_t doc a = Some ta.
  Proof.
    intros Hp Hx. destruct Hp as [a|a b c He _]; [exact Hx|].
    unfold tnedge, field_type_names in He. destruct (lookup_t doc a) as [ta|]; [exists ta; reflexivity | contradiction].
  Qed.

  Lemma types_closure_sound fuel : forall seen x, In x (types_closure doc fuel seen) -> exists a, In a seen /\ tnpath a x.
  Proof.
    induction fuel as [|fuel IH]; intros seen x Hx; cbn [types_closure] in Hx.
    - exists x. split; [exact Hx | constructor].
    - apply IH in Hx as [a [Ha Hp]]. apply In_add_new in Ha as [Ha|Ha]; [exists a; split; assumption|].
      apply in_flat_map in Ha as [a0 [Ha0 He]]. exists a0. split; [exact Ha0 | econstructor; [exact He | exact Hp]].
  Qed.
End TypeNames.

Section NestedSound.
  Variable doc : tsdoc.
  Hypothesis Hchk : check_doc doc = [].
  Hypothesis Huniq : unique_names doc = true.

  Lemma canon_of d : In d (directives_of doc) -> canon doc d.
  Proof. intros Hd. unfold canon, dname. rewrite (last_directive_lookup doc _ Huniq). apply lookup_d_self; assumption. Qed.

  (** a path of names through field types is a path of definitions *)
  Lemma tnpath_treach a x : tnpath doc a x -> forall ta tx, lookup_t doc a = Some ta -> lookup_t doc x = Some tx -> treach doc ta tx.
  Proof.
    induction 1 as [a|a b c He Hp IH]; intros ta tx La Lx.
    - rewrite La in Lx. injection Lx as <-. constructor.
    - unfold tnedge, field_type_names in He. rewrite La in He. destruct ta; try contradiction.
      apply in_map_iff in He as [fd [Hb Hfd]].
      assert (Lb : exists tb, lookup_t doc b = Some tb) by (apply (tnpath_start_defined doc b c Hp); exists tx; exact Lx).
      destruct Lb as [tb Lb]. eapply treachS; [|apply (IH tb tx Lb Lx)].
      cbn [tedge]. exists fd. split; [exact Hfd|]. rewrite (last_type_lookup doc _ Huniq). fold (base_name (iv_type fd)). rewrite Hb. exact Lb.
  Qed.

  (** types reached through input-object fields of an accepted document are input types *)
  Lemma treach_input_kind ta tx : treach doc ta tx -> In ta (types_of doc) ->
    is_input_kind (kind_of_typedef ta) = true -> is_input_kind (kind_of_typedef tx) = true.
  Proof.
    induction 1 as [a|a b c He Hr IH]; intros Hin Hk; [exact Hk|].
    destruct a; cbn [tedge] in He; try contradiction. destruct He as [fd [Hfd L]].
    pose proof (last_type_In _ _ _ L) as [Hbin _]. apply IH; [exact Hbin|].
    assert (Hl : In fields (all_input_field_lists doc)).
    { unfold all_input_field_lists. apply in_flat_map. eexists. split; [exact Hin | left; reflexivity]. }
    destruct (input_field_facts doc Hchk fields fd Hl Hfd) as [_ [_ Hi]].
    rewrite is_input_named_kind in Hi. unfold base_name in Hi. rewrite <- (last_type_lookup doc _ Huniq), L in Hi.
    cbn [option_map] in Hi. injection Hi as Hi. exact Hi.
  Qed.

  (** a name edge of the specification (nested reading) between defined directives is an edge of the model's search *)
  Lemma nedge_edge x b y :
    In x (directives_of doc) -> In b (dir_succ true doc x) -> lookup_d doc b = Some y -> edge doc x y.
  Proof.
    intros Hx Hb Hy. unfold edge, next_of, dir_succ in *. rewrite opt_list_args_of. fold (args_of (dd_args x)).
    apply in_flat_map in Hb as [a [Ha Hb]]. apply in_flat_map. exists a. split; [exact Ha|].
    assert (Hdir : exists dir, In dir (iv_dirs a ++ match last_type doc (iname (ty_unwrapped (iv_type a))) with
                                                   | Some td => directives_in_type doc td | None => [] end)
                               /\ iname (dir_name dir) = b).
    { apply in_app_or in Hb as [Hb|Hb].
      - apply in_map_iff in Hb as [dir [Hn Hdir]]. exists dir. split; [apply in_or_app; left; exact Hdir | exact Hn].
      - apply in_flat_map in Hb as [n [Hn Hb]].
        destruct (lookup_t doc n) as [t|] eqn:Ln; [|contradiction].
        unfold reach_types in Hn. apply types_closure_sound in Hn as [a0 [[<-|[]] Hp]].
        (* the argument's own type is defined: it is the start of a path that ends in a defined type *)
        assert (L0 : exists t0, lookup_t doc (base_name (iv_type a)) = Some t0) by (apply (tnpath_start_defined doc _ n Hp); exists t; exact Ln).
        destruct L0 as [t0 L0].
        pose proof (tnpath_treach _ _ Hp t0 t L0 Ln) as Hr.
        assert (Hin0 : is_input_kind (kind_of_typedef t0) = true).
        { assert (Hi : is_input_named doc (base_name (iv_type a)) = Some true).
          { apply (arg_facts doc Hchk (args_of (dd_args x)) a); [|exact Ha]. unfold all_arg_lists. apply in_or_app. right.
            apply in_map_iff. exists x. split; [reflexivity | exact Hx]. }
          rewrite is_input_named_kind, L0 in Hi. cbn [option_map] in Hi. injection Hi as Hi. exact Hi. }
        pose proof (treach_input_kind _ _ Hr (proj1 (lookup_t_In _ _ _ L0)) Hin0) as Hint.
        destruct (dirs_on_type_input t b Hint Hb) as [dir [Hd Hnm]]. exists dir. split; [|exact Hnm].
        apply in_or_app. right. rewrite (last_type_lookup doc _ Huniq). fold (base_name (iv_type a)). rewrite L0.
        apply (dit_complete doc t0 t dir); [|exact Hr|exact Hd].
        unfold tcanon. rewrite (last_type_lookup doc _ Huniq). apply lookup_t_In in L0 as [L0in _].
        apply (lookup_t_self doc t0 Huniq L0in). }
    destruct Hdir as [dir [Hdir Hn]]. apply in_flat_map. exists dir. split; [exact Hdir|].
    rewrite Hn, (last_directive_lookup doc _ Huniq), Hy. left; reflexivity.
  Qed.

  Lemma npath_reach n : forall a b x,
    npath true doc n a b -> lookup_d doc a = Some x -> (exists yb, lookup_d doc b = Some yb) ->
    exists y, reach doc n x y /\ dname y = b.
  Proof.
    induction n as [|n IH]; intros a b x Hp Hx Hb; inversion Hp as [|? ? a1 ? He Hp']; subst.
    - exists x. split; [constructor | apply lookup_d_In in Hx; tauto].
    - destruct He as [x' [Hx' Hs]]. rewrite Hx in Hx'. injection Hx' as <-.
      assert (Ha1 : exists y1, lookup_d doc a1 = Some y1).
      { inversion Hp' as [|? ? a2 ? He2 _]; subst; [exact Hb|]. destruct He2 as [y1 [H1 _]]. exists y1; exact H1. }
      destruct Ha1 as [y1 Hy1].
      assert (Hedge : edge doc x y1) by (apply (nedge_edge x a1 y1); [apply lookup_d_In in Hx; tauto | exact Hs | exact Hy1]).
      destruct (IH a1 b y1 Hp' Hy1 Hb) as [y [Hr Hn]]. exists y. split; [econstructor; eassumption | exact Hn].
  Qed.

  (** no diagnostic => no directive definition references itself, directly or through any chain of directives and
      (nested) input types: the specification's reading *)
  Lemma sound_directive_recursive : ok_directive_recursive doc = true.
  Proof.
    unfold ok_directive_recursive, ok_directive_recursive_gen. apply forallb_forall. intros d Hd. apply negb_true_iff. apply not_true_iff_false. intros Hr.
    destruct (reaches_self_path true doc d Hr Hd Huniq) as [n Hp].
    assert (Hl : lookup_d doc (iname (dd_name d)) = Some d) by (apply lookup_d_self; assumption).
    destruct (npath_reach (S n) _ _ d Hp Hl (ex_intro _ d Hl)) as [y [Hreach Hy]].
    apply (recursion_search_complete doc d (canon_of d Hd)) with (n := n) (y := y); [|exact Hreach|exact Hy].
    pose proof (check_nil_directive doc d Hchk Hd) as H. unfold check_directive_def in H. split_nil H. assumption.
  Qed.
End NestedSound.
