(** C05 — proofs, part 11 (completeness, directive recursion, and the final statement):
    the specification-side closure is complete (it reaches a fixed point within its fuel), so a document whose
    directive definitions the specification finds acyclic makes the model's search report nothing. *)
From V Require Import Base.Util Gql.Ast C05.Model C05.Spec C05.Proofs C05.Proofs2 C05.Proofs3 C05.Proofs5
     C05.Proofs6 C05.Proofs13 C05.Proofs7 C05.Proofs10.

Lemma NoDup_snoc {A} (l : list A) x : NoDup l -> ~ In x l -> NoDup (l ++ [x]).
Proof.
  induction l as [|a l IH]; intros Hnd Hx; cbn [app]; [constructor; [intros [] | constructor]|].
  inversion Hnd as [|? ? Ha Hl]; subst. constructor.
  - rewrite in_app_iff. intros [H|[H|[]]]; [exact (Ha H) | apply Hx; left; symmetry; exact H].
  - apply IH; [exact Hl | intros H; apply Hx; right; exact H].
Qed.

Lemma add_new_NoDup seen l : NoDup seen -> NoDup (add_new seen l).
Proof.
  revert seen. induction l as [|x r IH]; intros seen H; cbn [add_new]; [exact H|].
  destruct (existsb (str_eqb x) seen) eqn:E; [apply IH; exact H|]. apply IH.
  apply NoDup_snoc; [exact H|]. intros Hin. apply existsb_str_In in Hin. congruence.
Qed.
Lemma add_new_cases seen l : add_new seen l = seen \/ length seen < length (add_new seen l).
Proof.
  revert seen. induction l as [|x r IH]; intros seen; cbn [add_new]; [left; reflexivity|].
  destruct (existsb (str_eqb x) seen); [apply IH|]. right.
  destruct (IH (seen ++ [x])) as [->|H]; rewrite ?app_length in *; cbn [length] in *; lia.
Qed.
Lemma add_new_length seen l : length seen <= length (add_new seen l).
Proof. destruct (add_new_cases seen l) as [->|H]; lia. Qed.
Lemma add_new_fix seen l : add_new seen l = seen -> incl l seen.
Proof.
  revert seen. induction l as [|x r IH]; intros seen H; [intros ? []|]. cbn [add_new] in H.
  destruct (existsb (str_eqb x) seen) eqn:E.
  - apply existsb_str_In in E. intros y [<-|Hy]; [exact E | apply (IH seen H); exact Hy].
  - exfalso. pose proof (add_new_length (seen ++ [x]) r) as Hl. rewrite H, app_length in Hl. cbn [length] in Hl. lia.
Qed.

Section ClosureComplete.
  Variable nested : bool.
  Variable doc : tsdoc.
  Variable D : list str.
  Hypothesis HD : forall ns, incl ns D -> incl (succ_names nested doc ns) D.

  Lemma closure_fix fuel seen : add_new seen (succ_names nested doc seen) = seen -> closure nested doc fuel seen = seen.
  Proof. induction fuel as [|f IH]; intros H; cbn [closure]; [reflexivity|]. rewrite H. apply IH. exact H. Qed.

  Lemma closure_closed fuel : forall seen,
    NoDup seen -> incl seen D -> length D <= fuel + length seen ->
    incl (succ_names nested doc (closure nested doc fuel seen)) (closure nested doc fuel seen) /\
    incl seen (closure nested doc fuel seen).
  Proof.
    induction fuel as [|f IH]; intros seen Hnd Hinc Hlen; cbn [closure].
    - split; [|apply incl_refl]. cbn [plus] in Hlen.
      pose proof (NoDup_length_incl Hnd Hlen Hinc) as HDs. intros x Hx. apply HDs. apply (HD seen Hinc). exact Hx.
    - destruct (add_new_cases seen (succ_names nested doc seen)) as [E|E].
      + rewrite E. rewrite (closure_fix f seen E). split; [apply add_new_fix; exact E | apply incl_refl].
      + destruct (IH (add_new seen (succ_names nested doc seen))) as [A B].
        * apply add_new_NoDup. exact Hnd.
        * intros x Hx. apply In_add_new in Hx as [Hx|Hx]; [apply Hinc; exact Hx | apply (HD seen Hinc); exact Hx].
        * lia.
        * split; [exact A|]. intros x Hx. apply B. apply In_add_new. left; exact Hx.
  Qed.

  Lemma closed_npath c : incl (succ_names nested doc c) c -> forall n a x, npath nested doc n a x -> In a c -> In x c.
  Proof.
    intros Hc n a x Hp. induction Hp as [a|n a b' x He Hp IH]; intros Ha; [exact Ha|].
    apply IH. apply Hc. apply In_succ_names. exists a. split; [exact Ha | exact He].
  Qed.
End ClosureComplete.

(** the model's `directives_in_type` are among the applications the specification sees on the type *)
Lemma shallow_dirs_on t dir : In dir (shallow_dirs t) -> In (iname (dir_name dir)) (dirs_on_type t).
Proof.
  intros H. unfold dirs_on_type. apply in_flat_map.
  assert (G : exists la, In la (type_apps t) /\ In dir (snd la)).
  { destruct t; cbn [shallow_dirs type_apps] in *.
    - eexists; split; [left; reflexivity | exact H].
    - apply in_app_or in H as [H|H]; [eexists; split; [left; reflexivity | exact H]|].
      apply in_flat_map in H as [f [Hf Hd]]. exists (s "FIELD_DEFINITION", fd_dirs f). split; [right|exact Hd].
      unfold field_apps. apply in_flat_map. exists f. split; [exact Hf | left; reflexivity].
    - apply in_app_or in H as [H|H]; [eexists; split; [left; reflexivity | exact H]|].
      apply in_flat_map in H as [f [Hf Hd]]. exists (s "FIELD_DEFINITION", fd_dirs f). split; [right|exact Hd].
      unfold field_apps. apply in_flat_map. exists f. split; [exact Hf | left; reflexivity].
    - eexists; split; [left; reflexivity | exact H].
    - apply in_app_or in H as [H|H]; [eexists; split; [left; reflexivity | exact H]|].
      apply in_flat_map in H as [v [Hv Hd]]. exists (s "ENUM_VALUE", ev_dirs v). split; [right; apply in_map_iff; exists v; split; [reflexivity | exact Hv] | exact Hd].
    - apply in_app_or in H as [H|H]; [eexists; split; [left; reflexivity | exact H]|].
      apply in_flat_map in H as [v [Hv Hd]]. exists (s "INPUT_FIELD_DEFINITION", iv_dirs v). split; [right; apply in_map_iff; exists v; split; [reflexivity | exact Hv] | exact Hd]. }
  destruct G as [la [Hla Hd]]. exists la. split; [exact Hla|]. apply in_map_iff. exists dir. split; [reflexivity | exact Hd].
Qed.

Lemma In_add_new' seen l x : In x seen -> In x (add_new seen l).
Proof.
  revert seen. induction l as [|y r IH]; intros seen H; cbn [add_new]; [exact H|].
  destruct (existsb (str_eqb y) seen); apply IH; [exact H | apply in_or_app; left; exact H].
Qed.
Lemma types_closure_incl doc fuel : forall seen x, In x seen -> In x (types_closure doc fuel seen).
Proof. induction fuel as [|f IH]; intros seen x H; cbn [types_closure]; [exact H|]. apply IH. apply In_add_new'. exact H. Qed.
Lemma reach_types_head doc fuel n : In n (reach_types doc fuel n).
Proof. unfold reach_types. apply types_closure_incl. left; reflexivity. Qed.

(** the specification-side closure over field types reaches a fixed point within its fuel *)
Section TypesClosureComplete.
  Variable doc : tsdoc.
  Variable D : list str.
  Let step := flat_map (field_type_names doc).
  Hypothesis HD : forall ns, incl ns D -> incl (step ns) D.

  Lemma tclosure_fix fuel seen : add_new seen (step seen) = seen -> types_closure doc fuel seen = seen.
  Proof. induction fuel as [|f IH]; intros H; cbn [types_closure]; [reflexivity|]. fold step. rewrite H. apply IH. exact H. Qed.

  Lemma tclosure_closed fuel : forall seen,
    NoDup seen -> incl seen D -> length D <= fuel + length seen ->
    incl (step (types_closure doc fuel seen)) (types_closure doc fuel seen) /\ incl seen (types_closure doc fuel seen).
  Proof.
    induction fuel as [|f IH]; intros seen Hnd Hinc Hlen; cbn [types_closure].
    - split; [|apply incl_refl]. cbn [plus] in Hlen.
      pose proof (NoDup_length_incl Hnd Hlen Hinc) as HDs. intros x Hx. apply HDs. apply (HD seen Hinc). exact Hx.
    - fold step. destruct (add_new_cases seen (step seen)) as [E|E].
      + rewrite E. rewrite (tclosure_fix f seen E). split; [apply add_new_fix; exact E | apply incl_refl].
      + destruct (IH (add_new seen (step seen))) as [A B].
        * apply add_new_NoDup. exact Hnd.
        * intros x Hx. apply In_add_new in Hx as [Hx|Hx]; [apply Hinc; exact Hx | apply (HD seen Hinc); exact Hx].
        * lia.
        * split; [exact A|]. intros x Hx. apply B. apply In_add_new. left; exact Hx.
  Qed.

  Lemma tclosed_tnpath c : incl (step c) c -> forall a x, tnpath doc a x -> In a c -> In x c.
  Proof.
    intros Hc a x Hp. induction Hp as [a|a b x He Hp IH]; intros Ha; [exact Ha|].
    apply IH. apply Hc. unfold step. apply in_flat_map. exists a. split; [exact Ha | exact He].
  Qed.
End TypesClosureComplete.

Section RecComplete.
  Variable doc : tsdoc.
  Hypothesis Hu : unique_names doc = true.
  Hypothesis Hunk : ok_directive_unknown doc = true.
  Hypothesis Hut : ok_unknown_type doc = true.
  Hypothesis Hrec : ok_directive_recursive doc = true.

  (** field types of defined input objects are defined (the unknown-type rule), so the closure stays inside the type names *)
  Definition tdnames : list str := map tn (types_of doc).
  Lemma field_types_defined ns : incl ns tdnames -> incl (flat_map (field_type_names doc) ns) tdnames.
  Proof.
    intros _ b Hb. apply in_flat_map in Hb as [a [_ Hb]]. unfold field_type_names in Hb.
    destruct (lookup_t doc a) as [[]|] eqn:L; try contradiction. apply in_map_iff in Hb as [fd [<- Hfd]].
    apply lookup_t_In in L as [Lin _].
    unfold ok_unknown_type in Hut. rewrite !andb_true_iff in Hut. destruct Hut as [[[[_ _] H3] _] _].
    rewrite forallb_forall in H3.
    assert (Hl : In fields (all_input_field_lists doc)).
    { unfold all_input_field_lists. apply in_flat_map. eexists. split; [exact Lin | left; reflexivity]. }
    specialize (H3 _ Hl). rewrite forallb_forall in H3. specialize (H3 fd Hfd). unfold defined in H3.
    destruct (lookup_t doc (base_name (iv_type fd))) as [t|] eqn:Lt; [|discriminate].
    apply lookup_t_In in Lt as [Ht Hn]. rewrite <- Hn. unfold tdnames. apply in_map. exact Ht.
  Qed.
  Lemma tdnames_length : length tdnames <= length doc.
  Proof.
    unfold tdnames. rewrite map_length. unfold types_of. clear. induction doc as [|a r IH]; cbn [flat_map length]; [lia|].
    rewrite app_length. destruct a; cbn [length]; lia.
  Qed.

  Lemma tcanon_lookup t : tcanon doc t -> lookup_t doc (tname t) = Some t.
  Proof. unfold tcanon. rewrite (last_type_lookup doc _ Hu). auto. Qed.

  (** a path of definitions through field types is a path of names *)
  Lemma treach_tnpath a x : treach doc a x -> tcanon doc a -> tnpath doc (tname a) (tname x) /\ tcanon doc x.
  Proof.
    induction 1 as [a|a b c He Hr IH]; intros Ha; [split; [constructor | exact Ha]|].
    assert (Hb : tcanon doc b /\ tnedge doc (tname a) (tname b)).
    { destruct a; cbn [tedge] in He; try contradiction. destruct He as [fd [Hfd L]]. split; [eapply last_type_canon; exact L|].
      unfold tnedge, field_type_names. rewrite (tcanon_lookup _ Ha). apply in_map_iff. exists fd. split; [|exact Hfd].
      apply last_type_In in L as [_ L]. unfold base_name. symmetry. exact L. }
    destruct Hb as [Hcb Hedge]. destruct (IH Hcb) as [Hp Hcx]. split; [econstructor; eassumption | exact Hcx].
  Qed.

  Lemma edge_nedge x y : lookup_d doc (dname x) = Some x -> edge doc x y -> nedge true doc (dname x) (dname y).
  Proof.
    intros L He. exists x. split; [exact L|]. unfold edge, next_of in He. rewrite opt_list_args_of in He. fold (args_of (dd_args x)) in He.
    apply in_flat_map in He as [a [Ha He]]. apply in_flat_map in He as [dir [Hdir Hy]].
    destruct (last_directive doc (iname (dir_name dir))) as [dd|] eqn:Ld; [|contradiction]. destruct Hy as [<-|[]].
    apply last_directive_In in Ld as [_ Hn]. rewrite Hn.
    unfold dir_succ. apply in_flat_map. exists a. split; [exact Ha|]. apply in_or_app.
    apply in_app_or in Hdir as [Hdir|Hdir]; [left; apply (in_map (fun x0 : directive => iname (dir_name x0))); exact Hdir|]. right.
    destruct (last_type doc (iname (ty_unwrapped (iv_type a)))) as [td|] eqn:Lt; [|contradiction].
    pose proof (last_type_canon _ _ _ Lt) as Hctd.
    destruct (dit_sound doc _ _ _ _ Hdir) as [t [Hr Hsh]].
    destruct (treach_tnpath _ _ Hr Hctd) as [Hp Hct].
    pose proof (last_type_In _ _ _ Lt) as [Htdin Htdn]. fold (base_name (iv_type a)) in Htdn.
    (* the closure from the argument's type is closed, hence contains the name of t *)
    assert (Hstart : incl [base_name (iv_type a)] tdnames).
    { intros z [<-|[]]. rewrite <- Htdn. unfold tdnames. apply (in_map tn). exact Htdin. }
    destruct (tclosure_closed doc tdnames field_types_defined (length doc) [base_name (iv_type a)]) as [Hclosed Hsub].
    { constructor; [intros [] | constructor]. } { exact Hstart. } { pose proof tdnames_length. cbn [length]. lia. }
    apply in_flat_map. exists (tname t). split.
    - unfold reach_types. rewrite <- Htdn in *. apply (tclosed_tnpath doc _ Hclosed _ _ Hp). apply Hsub. left; reflexivity.
    - rewrite (tcanon_lookup _ Hct). apply shallow_dirs_on. exact Hsh.
  Qed.

  Lemma reach_npath n x y : reach doc n x y -> lookup_d doc (dname x) = Some x -> npath true doc n (dname x) (dname y).
  Proof.
    induction 1 as [x|n x x1 y He Hr IH]; intros L; [constructor|].
    econstructor; [apply edge_nedge; [exact L | exact He]|]. apply IH.
    apply next_of_canon in He. unfold canon in He. rewrite (last_directive_lookup doc _ Hu) in He. exact He.
  Qed.

  (** names of applied directives are names of definitions *)
  Lemma succ_in_dnames ns : incl ns (dnames doc) -> incl (succ_names true doc ns) (dnames doc).
  Proof.
    intros _ b Hb. apply In_succ_names in Hb as [a [_ [x [Lx Hb]]]]. apply lookup_d_In in Lx as [Hx _].
    assert (G : exists la dir, In la (all_apps doc) /\ In dir (snd la) /\ iname (dir_name dir) = b).
    { unfold dir_succ in Hb. apply in_flat_map in Hb as [a0 [Ha0 Hb]]. apply in_app_or in Hb as [Hb|Hb].
      - apply in_map_iff in Hb as [dir [Hn Hdir]]. exists (s "ARGUMENT_DEFINITION", iv_dirs a0), dir.
        split; [|split; [exact Hdir | exact Hn]]. unfold all_apps. apply in_flat_map. exists (TSDirective x).
        split; [apply In_directives_of; exact Hx|]. unfold arg_apps. apply in_map_iff. exists a0. split; [reflexivity | exact Ha0].
      - apply in_flat_map in Hb as [n [_ Hb]]. destruct (lookup_t doc n) as [t|] eqn:Lt; [|contradiction].
        apply lookup_t_In in Lt as [Ht _]. unfold dirs_on_type in Hb. apply in_flat_map in Hb as [la [Hla Hb]].
        apply in_map_iff in Hb as [dir [Hn Hdir]]. exists la, dir. split; [|split; [exact Hdir | exact Hn]].
        unfold all_apps. apply in_flat_map. exists (TSType t). split; [apply In_types_of; exact Ht | exact Hla]. }
    destruct G as [la [dir [Hla [Hdir Hn]]]]. unfold ok_directive_unknown in Hunk. rewrite forallb_forall in Hunk.
    specialize (Hunk la Hla). rewrite forallb_forall in Hunk. specialize (Hunk dir Hdir).
    destruct (lookup_d doc (iname (dir_name dir))) as [def|] eqn:L; [|discriminate].
    apply lookup_d_In in L as [Hdef Hname]. rewrite <- Hn, <- Hname. unfold dnames. apply (in_map dname). exact Hdef.
  Qed.

  Lemma dnames_length : length (dnames doc) <= length doc.
  Proof.
    unfold dnames. rewrite map_length. unfold directives_of. clear. induction doc as [|a r IH]; cbn [flat_map length]; [lia|].
    rewrite app_length. destruct a; cbn [length]; lia.
  Qed.

  Lemma no_cycle d : In d (directives_of doc) -> forall n y, reach doc (S n) d y -> dname y <> dname d.
  Proof.
    intros Hd n y Hr Hy.
    assert (L : lookup_d doc (dname d) = Some d) by (apply lookup_d_self; assumption).
    pose proof (reach_npath _ _ _ Hr L) as Hp. rewrite Hy in Hp.
    unfold ok_directive_recursive, ok_directive_recursive_gen in Hrec. rewrite forallb_forall in Hrec. specialize (Hrec d Hd).
    apply negb_true_iff in Hrec. unfold reaches_self in Hrec.
    set (start := add_new [] (dir_succ true doc d)) in *.
    assert (Hstart : NoDup start) by (apply add_new_NoDup; constructor).
    assert (Hinc : incl start (dnames doc)).
    { intros b Hb. apply In_add_new in Hb as [[]|Hb]. apply (succ_in_dnames [dname d]).
      - intros ? [<-|[]]. unfold dnames. apply in_map. exact Hd.
      - apply In_succ_names. exists (dname d). split; [left; reflexivity|]. exists d. split; [exact L | exact Hb]. }
    destruct (closure_closed true doc (dnames doc) succ_in_dnames (length doc) start Hstart Hinc) as [Hclosed Hsub].
    { pose proof dnames_length. lia. }
    inversion Hp as [|? ? b ? He Hp']; subst.
    assert (Hb : In b (closure true doc (length doc) start)).
    { apply Hsub. apply In_add_new. right. destruct He as [x [Lx Hb]]. rewrite L in Lx. injection Lx as <-. exact Hb. }
    pose proof (closed_npath true doc _ Hclosed _ _ _ Hp' Hb) as Hself.
    apply existsb_str_In in Hself. unfold dname in Hself. rewrite Hself in Hrec. discriminate.
  Qed.

  Lemma recursion_complete d : In d (directives_of doc) -> check_directive_recursion doc d = [].
  Proof. intros Hd. apply recursion_search_sound; [exact Hd | apply no_cycle; exact Hd]. Qed.
End RecComplete.

(** * completeness *)
Lemma all_rules_all r : In r all_rules.
Proof. destruct r; cbn; tauto. Qed.

Theorem complete_rules doc :
  unique_type_names doc = true -> builtins_not_redefined doc = true -> ok_app_args_nonempty doc = true ->
  (forall r, rule_ok r doc = true) -> check_doc doc = [].
Proof.
  intros Ht Hb Hne HR.
  assert (Hu : unique_names doc = true) by (apply unique_names_from; [exact Ht | exact (HR RDupDirective) | exact Hb]).
  apply check_doc_nil_conv; [|apply nodup_str_NoDup; exact (HR RDupDirective)].
  intros d Hd. destruct d as [sd|t|dd|se|te]; cbn [check_def]; try reflexivity.
  - eapply schema_complete; eassumption.
  - eapply typedef_complete; try eassumption. apply In_types_of. exact Hd.
  - unfold check_directive_def. apply In_directives_of in Hd.
    rewrite (next_of_fuel_enough doc dd). cbn [app].
    erewrite (recursion_complete doc Hu (HR RDirectiveUnknown) (HR RUnknownType)); [| exact (HR RDirectiveRecursive) | exact Hd]. cbn [app].
    eapply directive_def_rest_complete; eassumption.
Qed.

Lemma unique_names_parts doc : unique_names doc = true -> unique_type_names doc = true /\ builtins_not_redefined doc = true.
Proof.
  unfold unique_names, unique_type_names, builtins_not_redefined. rewrite andb_true_iff. intros [Ht Hd]. split; [exact Ht|].
  apply nodup_str_NoDup in Hd.
  assert (Hsub : forall (p : directivedef -> bool), NoDup (map (fun d => iname (dd_name d)) (filter p (directives_of doc)))).
  { intros p. induction (directives_of doc) as [|a l IH]; [constructor|]. cbn [map filter] in *.
    inversion Hd as [|? ? Hx Hl]; subst. destruct (p a); cbn [map]; [constructor; [|apply IH; exact Hl] | apply IH; exact Hl].
    intros Hin. apply Hx. apply in_map_iff in Hin as [y [Hy Hyin]]. apply filter_In in Hyin as [Hyin _].
    rewrite <- Hy. apply (in_map (fun d => iname (dd_name d))). exact Hyin. }
  apply andb_true_iff. split; [apply nodup_str_NoDup; apply Hsub|].
  apply forallb_forall. intros x Hx. apply negb_true_iff. apply not_true_iff_false. intros Hin. apply existsb_str_In in Hin.
  (* x is a user definition and some built-in one has its name: two entries of the list with one name *)
  unfold user_directives, builtin_directives in *. apply filter_In in Hx as [Hxin Hxu]. apply in_map_iff in Hin as [y [Hyn Hy]].
  apply filter_In in Hy as [Hyin Hyb].
  assert (Hne : x <> y) by (intros ->; rewrite Hyb in Hxu; discriminate).
  clear - Hd Hxin Hyin Hyn Hne. induction (directives_of doc) as [|a l IH]; [contradiction|]. cbn [map] in Hd.
  inversion Hd as [|? ? Ha Hl]; subst. destruct Hxin as [->|Hxin]; destruct Hyin as [->|Hyin].
  - exact (Hne eq_refl).
  - apply Ha. unfold dn in Hyn. rewrite <- Hyn. apply (in_map (fun d => iname (dd_name d))). exact Hyin.
  - apply Ha. unfold dn in Hyn. rewrite Hyn. apply (in_map (fun d => iname (dd_name d))). exact Hxin.
  - apply IH; assumption.
Qed.

Theorem complete doc : spec_valid doc = true -> check_doc doc = [].
Proof.
  unfold spec_valid. rewrite !andb_true_iff. intros [[[[[[[[Hu Hrules] _] Hne] _] _] _] _] _].
  destruct (unique_names_parts doc Hu) as [Ht Hb].
  apply complete_rules; try assumption.
  intros r. rewrite forallb_forall in Hrules. apply (Hrules r). apply all_rules_all.
Qed.
