(** C05 — proofs, part 6: the directive-recursion search (check_directive_recursion.rs).
    - it never runs out of the fuel the model gives it;
    - if it reports nothing, no directive definition is reachable from itself along `next_of` edges;
    - whatever it reports is RecursingDirective for a definition that is reachable from itself. *)
From V Require Import Base.Util Gql.Ast C05.Model C05.Spec C05.Proofs.

Section Rec.
  Variable doc : tsdoc.
  Variable self : str.

  Notation step := (rec_step doc self).

  (** edges and paths between directive definitions *)
  Definition edge (x y : directivedef) : Prop := In y (next_of doc x).
  Inductive reach : nat -> directivedef -> directivedef -> Prop :=
  | reach0 x : reach 0 x x
  | reachS n x y z : edge x y -> reach n y z -> reach (S n) x z.

  (** ** one round (the fold over `current`) *)
  Lemma step_errs_mono st c : exists extra, r_errs (step st c) = r_errs st ++ extra.
  Proof.
    unfold rec_step. destruct (negb (r_start st) && str_eqb (dname c) self).
    - destruct (r_reported st); [exists []; rewrite app_nil_r; reflexivity | eexists; reflexivity].
    - destruct (mem (dname c) (r_seen st)); exists []; rewrite app_nil_r; reflexivity.
  Qed.
  Lemma fold_errs_mono l : forall st, exists extra, r_errs (fold_left step l st) = r_errs st ++ extra.
  Proof.
    induction l as [|c l IH]; intros st; cbn [fold_left]; [exists []; rewrite app_nil_r; reflexivity|].
    destruct (IH (step st c)) as [e1 H1]. destruct (step_errs_mono st c) as [e2 H2].
    exists (e2 ++ e1). rewrite H1, H2, app_assoc. reflexivity.
  Qed.

  Lemma fold_facts l : forall st,
    r_start st = false -> r_reported st = false ->
    r_errs (fold_left step l st) = [] ->
    r_errs st = [] /\ (forall c, In c l -> dname c <> self) /\
    r_start (fold_left step l st) = false /\ r_reported (fold_left step l st) = false /\
    (forall n, In n (r_seen (fold_left step l st)) <-> In n (r_seen st) \/ In n (map dname l)) /\
    (forall c, In c l -> ~ In (dname c) (r_seen st) ->
       exists c', In c' l /\ dname c' = dname c /\ incl (next_of doc c') (r_next (fold_left step l st))) /\
    incl (r_next st) (r_next (fold_left step l st)) /\
    (forall y, In y (r_next (fold_left step l st)) -> In y (r_next st) \/ exists c, In c l /\ In y (next_of doc c)).
  Proof.
    induction l as [|c l IH]; intros st Hs Hr He; cbn [fold_left] in *.
    - repeat split; auto; try (intros ? []); try tauto; try (intros [H|[]]; exact H); try apply incl_refl.
    - (* the step on c *)
      destruct (str_eqb (dname c) self) eqn:Ec.
      { exfalso. destruct (fold_errs_mono l (step st c)) as [extra Hx]. rewrite Hx in He.
        unfold rec_step in He. rewrite Hs, Ec, Hr in He. cbn [negb andb r_errs] in He.
        apply app_eq_nil in He as [He _]. apply app_eq_nil in He as [_ He]. discriminate. }
      assert (Hstep : step st c = if mem (dname c) (r_seen st)
                                  then mkR false (r_reported st) (r_seen st) (r_next st) (r_errs st)
                                  else mkR false (r_reported st) (dname c :: r_seen st) (r_next st ++ next_of doc c) (r_errs st)).
      { unfold rec_step. rewrite Ec, andb_false_r. reflexivity. }
      assert (Hs1 : r_start (step st c) = false) by (rewrite Hstep; destruct (mem _ _); reflexivity).
      assert (Hr1 : r_reported (step st c) = false) by (rewrite Hstep; destruct (mem _ _); exact Hr).
      destruct (IH (step st c) Hs1 Hr1 He) as [E1 [A [S' [R' [Sn [Nx [Inc Src]]]]]]].
      assert (Ne : dname c <> self) by (apply str_eqb_neq; exact Ec).
      split; [rewrite Hstep in E1; destruct (mem _ _); exact E1|].
      split; [intros c0 [<-|H0]; [exact Ne | apply A; exact H0]|].
      split; [exact S'|]. split; [exact R'|].
      destruct (mem (dname c) (r_seen st)) eqn:M; rewrite Hstep in *; cbn [r_seen r_next] in *.
      + apply mem_In in M. split; [|split; [|split]].
        * intros n. rewrite Sn. cbn [map In]. split; [tauto|]. intros [H|[<-|H]]; tauto.
        * intros c0 [<-|H0] Hni; [contradiction|]. destruct (Nx c0 H0 Hni) as [c' [Hc' Hrest]]. exists c'. split; [right; exact Hc' | exact Hrest].
        * exact Inc.
        * intros y Hy. destruct (Src y Hy) as [H|[c0 [H0 H1]]]; [left; exact H | right; exists c0; split; [right; exact H0 | exact H1]].
      + apply mem_false in M. split; [|split; [|split]].
        * intros n. rewrite Sn. cbn [map In]. split; [intros [[<-|H]|H]; tauto | intros [H|[<-|H]]; tauto].
        * intros c0 [<-|H0] Hni.
          -- exists c. split; [left; reflexivity|]. split; [reflexivity|].
             intros y Hy. apply Inc. apply in_or_app. right; exact Hy.
          -- destruct (str_eqb (dname c0) (dname c)) eqn:E0.
             ++ apply str_eqb_eq in E0. exists c. split; [left; reflexivity|]. split; [symmetry; exact E0|].
                intros y Hy. apply Inc. apply in_or_app. right; exact Hy.
             ++ apply str_eqb_neq in E0. destruct (Nx c0 H0) as [c' [Hc' Hrest]].
                { intros [H|H]; [apply E0; symmetry; exact H | exact (Hni H)]. }
                exists c'. split; [right; exact Hc' | exact Hrest].
        * intros y Hy. apply Inc. apply in_or_app. left; exact Hy.
        * intros y Hy. destruct (Src y Hy) as [H|[c0 [H0 H1]]].
          -- apply in_app_or in H as [H|H]; [left; exact H | right; exists c; split; [left; reflexivity | exact H]].
          -- right; exists c0; split; [right; exact H0 | exact H1].
  Qed.

  (** ** definitions are determined by their names (the lookups of `next_of`) *)
  Definition canon (x : directivedef) : Prop := last_directive doc (dname x) = Some x.
  Lemma next_of_canon x y : In y (next_of doc x) -> canon y.
  Proof.
    unfold next_of. rewrite in_flat_map. intros [iv [_ H]]. apply in_flat_map in H as [dir [_ H]].
    destruct (last_directive doc (iname (dir_name dir))) as [dd|] eqn:L; [|contradiction]. destruct H as [<-|[]].
    unfold canon.
    assert (Hn : dname dd = iname (dir_name dir)).
    { clear - L. induction doc as [|x r IH]; [discriminate|]. cbn [last_directive] in L.
      destruct (last_directive r (iname (dir_name dir))) eqn:Lr; [injection L as ->; apply IH; reflexivity|].
      destruct x; try discriminate. destruct (str_eqb (dname d) (iname (dir_name dir))) eqn:E; [|discriminate].
      injection L as ->. apply str_eqb_eq. exact E. }
    rewrite Hn. exact L.
  Qed.
  Lemma canon_inj x y : canon x -> canon y -> dname x = dname y -> x = y.
  Proof. unfold canon. intros Hx Hy E. rewrite E in Hx. congruence. Qed.

  (** ** no report => nothing named [self] is reachable *)
  (** successors of already-seen definitions (other than self) are seen (and not self) or still pending *)
  Definition pending_closed (seen : list str) (current : list directivedef) : Prop :=
    forall x, canon x -> In (dname x) seen -> dname x <> self ->
      forall y, In y (next_of doc x) -> (In (dname y) seen /\ dname y <> self) \/ In y current.

  Lemma rec_loop_complete fuel : forall current seen,
    (forall c, In c current -> canon c) ->
    pending_closed seen current ->
    rec_loop fuel doc self current false false seen = [] ->
    forall n x, canon x -> (In (dname x) seen /\ dname x <> self) \/ In x current ->
      forall y, reach n x y -> dname y <> self.
  Proof.
    induction fuel as [|fuel IHf]; intros current seen Hcan HP Hnil; [discriminate|].
    cbn [rec_loop] in Hnil. apply app_eq_nil in Hnil as [Herrs Hcont].
    destruct (fold_facts current (mkR false false seen [] []) eq_refl eq_refl Herrs)
      as [_ [A [S' [R' [Sn [Nx [_ Src]]]]]]].
    set (st := fold_left step current (mkR false false seen [] [])) in *. cbn [r_seen r_next] in *.
    (* the next round, if there is one *)
    assert (Hnext : forall n x, In x (r_next st) -> forall y, reach n x y -> dname y <> self).
    { intros n x Hx. destruct (r_next st) as [|x0 nx] eqn:En; [contradiction|]. rewrite <- En in *.
      rewrite S', R' in Hcont. intros y Hy.
      apply (IHf (r_next st) (r_seen st)) with (n := n) (x := x); [| |exact Hcont| |right; exact Hx|exact Hy].
      - intros c Hc. destruct (Src c Hc) as [[]|[c0 [_ H0]]]. eapply next_of_canon. exact H0.
      - (* pending_closed for the new state *)
        intros z Hz Hzs Hzn w Hw. apply Sn in Hzs as [Hzs|Hzs].
        + destruct (HP z Hz Hzs Hzn w Hw) as [[H1 H2]|H]; [left; split; [apply Sn; left; exact H1 | exact H2]|].
          left. split; [apply Sn; right; apply in_map; exact H | apply A; exact H].
        + apply in_map_iff in Hzs as [c [Hc Hcin]].
          assert (z = c) by (apply canon_inj; [exact Hz | apply Hcan; exact Hcin | symmetry; exact Hc]). subst z.
          destruct (in_dec (list_eq_dec N.eq_dec) (dname c) seen) as [Hin|Hni].
          * destruct (HP c Hz Hin Hzn w Hw) as [[H1 H2]|H]; [left; split; [apply Sn; left; exact H1 | exact H2]|].
            left. split; [apply Sn; right; apply in_map; exact H | apply A; exact H].
          * destruct (Nx c Hcin Hni) as [c' [Hc' [Hn' Hincl]]].
            assert (c' = c) by (apply canon_inj; [apply Hcan; exact Hc' | exact Hz | exact Hn']). subst c'.
            right. apply Hincl. exact Hw.
      - destruct (Src x Hx) as [[]|[c0 [_ H0]]]. apply (next_of_canon c0). exact H0. }
    induction n as [|n IHn]; intros x Hx Hor y Hy.
    - inversion Hy; subst. destruct Hor as [[_ H]|H]; [exact H | apply A; exact H].
    - inversion Hy as [|? ? x1 ? He Hr]; subst.
      assert (Hseen_case : In (dname x) seen -> dname x <> self -> dname y <> self).
      { intros Hin Hne. destruct (HP x Hx Hin Hne x1 He) as [H|H].
        - apply (IHn x1); [eapply next_of_canon; exact He | left; exact H | exact Hr].
        - apply (IHn x1); [eapply next_of_canon; exact He | right; exact H | exact Hr]. }
      destruct Hor as [[Hin Hne]|Hc]; [apply Hseen_case; assumption|].
      destruct (in_dec (list_eq_dec N.eq_dec) (dname x) seen) as [Hin|Hni]; [apply Hseen_case; [exact Hin | apply A; exact Hc]|].
      destruct (Nx x Hc Hni) as [c' [Hc' [Hn' Hincl]]].
      assert (c' = x) by (apply canon_inj; [apply Hcan; exact Hc' | exact Hx | exact Hn']). subst c'.
      apply (Hnext n x1); [apply Hincl; exact He | exact Hr].
  Qed.
End Rec.

(** ** the whole search for one definition *)
Section Rec2.
  Variable doc : tsdoc.

  Lemma first_round d :
    check_directive_recursion doc d =
    match next_of doc d with
    | [] => []
    | nx => rec_loop (length doc) doc (dname d) nx false false [dname d]
    end.
  Proof.
    unfold check_directive_recursion. cbn [rec_loop fold_left]. unfold rec_step at 1. cbn [r_start negb andb r_seen mem existsb].
    cbn [r_errs r_next r_start r_reported r_seen app]. reflexivity.
  Qed.

  Theorem recursion_search_complete d :
    canon doc d -> check_directive_recursion doc d = [] ->
    forall n y, reach doc (S n) d y -> dname y <> dname d.
  Proof.
    intros Hcan Hnil n y Hy. rewrite first_round in Hnil.
    inversion Hy as [|? ? x1 ? He Hr]; subst. unfold edge in He.
    destruct (next_of doc d) as [|c0 nx] eqn:En; [contradiction|]. rewrite <- En in *.
    apply (rec_loop_complete doc (dname d) (length doc) (next_of doc d) [dname d]) with (n := n) (x := x1);
      [| |exact Hnil| |right; exact He|exact Hr].
    - intros c Hc. eapply next_of_canon. exact Hc.
    - intros x _ [Hx|[]] Hne. exfalso. apply Hne. symmetry. exact Hx.
    - eapply next_of_canon. exact He.
  Qed.

  (** ** fuel: every continuing round adds a new name to `seen`, and names are names of definitions of [doc] *)
  Definition dnames : list str := map dname (directives_of doc).

  Lemma last_directive_In n x : last_directive doc n = Some x -> In x (directives_of doc) /\ dname x = n.
  Proof.
    induction doc as [|a r IH]; [discriminate|]. cbn [last_directive]. unfold directives_of in *. cbn [flat_map].
    destruct (last_directive r n) eqn:L.
    - intros H. injection H as ->. destruct (IH eq_refl) as [H1 H2]. split; [apply in_or_app; right; exact H1 | exact H2].
    - destruct a; try discriminate. destruct (str_eqb (dname d) n) eqn:E; [|discriminate].
      intros H. injection H as ->. split; [left; reflexivity | apply str_eqb_eq; exact E].
  Qed.
  Lemma next_of_dnames x y : In y (next_of doc x) -> In (dname y) dnames.
  Proof.
    intros H. apply next_of_canon in H. unfold canon in H. apply last_directive_In in H as [H _].
    unfold dnames. apply in_map. exact H.
  Qed.

  Definition not_fuel (e : cerr) : Prop := e_msg e <> EOutOfFuel.

  Lemma fold_general self l : forall st,
    NoDup (r_seen st) ->
    let st' := fold_left (rec_step doc self) l st in
    NoDup (r_seen st') /\
    (forall n, In n (r_seen st') -> In n (r_seen st) \/ In n (map dname l)) /\
    (r_next st' = r_next st \/ length (r_seen st) < length (r_seen st')) /\
    length (r_seen st) <= length (r_seen st') /\
    (forall y, In y (r_next st') -> In y (r_next st) \/ exists c, In c l /\ In y (next_of doc c)) /\
    (forall e, In e (r_errs st') -> In e (r_errs st) \/ (exists c, In c l /\ dname c = self /\ e = err (RecursingDirective (dname c)) (dd_pos c)) /\ True) /\
    (r_start st = false -> r_start st' = false).
  Proof.
    induction l as [|c l IH]; intros st Hnd; cbn [fold_left].
    - cbn zeta. repeat split; auto.
    - set (s1 := rec_step doc self st c).
      assert (H1 : NoDup (r_seen s1) /\ (forall n, In n (r_seen s1) -> In n (r_seen st) \/ n = dname c) /\
                   (r_next s1 = r_next st \/ length (r_seen st) < length (r_seen s1)) /\ length (r_seen st) <= length (r_seen s1) /\
                   (forall y, In y (r_next s1) -> In y (r_next st) \/ In y (next_of doc c)) /\
                   (forall e, In e (r_errs s1) -> In e (r_errs st) \/ (dname c = self /\ e = err (RecursingDirective (dname c)) (dd_pos c))) /\
                   (r_start st = false -> r_start s1 = false)).
      { subst s1. unfold rec_step. destruct (negb (r_start st) && str_eqb (dname c) self) eqn:E.
        - apply andb_true_iff in E as [_ E]. apply str_eqb_eq in E.
          destruct (r_reported st); cbn [r_seen r_next r_errs r_start]; repeat split; auto.
          intros e He. apply in_app_or in He as [He|[<-|[]]]; [left; exact He | right; split; [exact E | reflexivity]].
        - destruct (mem (dname c) (r_seen st)) eqn:M; cbn [r_seen r_next r_errs r_start]; repeat split; auto.
          + constructor; [apply mem_false; exact M | exact Hnd].
          + intros n [<-|H]; [right; reflexivity | left; exact H].
          + simpl length. lia.
          + intros y Hy. apply in_app_or in Hy. exact Hy. }
      destruct H1 as [N1 [S1 [X1 [L1 [Y1 [E1 T1]]]]]].
      destruct (IH s1 N1) as [N2 [S2 [X2 [L2 [Y2 [E2 T2]]]]]]. cbn zeta in *.
      split; [exact N2|]. split; [|split; [|split; [|split; [|split]]]].
      + intros n Hn. destruct (S2 n Hn) as [H|H]; [destruct (S1 n H) as [H' | ->]; [left; exact H' | right; left; reflexivity] | right; right; exact H].
      + destruct X2 as [X2|X2]; [destruct X1 as [X1|X1]; [left; congruence | right; lia] | right; lia].
      + lia.
      + intros y Hy. destruct (Y2 y Hy) as [H|[c0 [H0 H1]]].
        * destruct (Y1 y H) as [H'|H']; [left; exact H' | right; exists c; split; [left; reflexivity | exact H']].
        * right; exists c0; split; [right; exact H0 | exact H1].
      + intros e He. destruct (E2 e He) as [H|[[c0 [H0 H1]] _]].
        * destruct (E1 e H) as [H'|[H' H'']]; [left; exact H' | right; split; [exists c; split; [left; reflexivity | split; assumption] | exact I]].
        * right; split; [exists c0; split; [right; exact H0 | exact H1] | exact I].
      + intros Hs. apply T2. apply T1. exact Hs.
  Qed.

  Lemma rec_loop_fuel self fuel : forall current is_start reported seen,
    NoDup seen -> incl seen dnames -> (forall c, In c current -> In (dname c) dnames) ->
    length dnames < fuel + length seen ->
    forall e, In e (rec_loop fuel doc self current is_start reported seen) -> not_fuel e.
  Proof.
    induction fuel as [|fuel IH]; intros current is_start reported seen Hnd Hinc Hcur Hlen e He.
    - exfalso. cbn [plus] in Hlen. pose proof (NoDup_incl_length Hnd Hinc). lia.
    - cbn [rec_loop] in He.
      destruct (fold_general self current (mkR is_start reported seen [] []) Hnd) as [N [S [X [L [Y [E _]]]]]].
      cbn zeta in *. cbn [r_seen r_next r_errs] in *.
      set (st := fold_left (rec_step doc self) current (mkR is_start reported seen [] [])) in *.
      apply in_app_or in He as [He|He].
      + destruct (E e He) as [[]|[[c [_ [_ ->]]] _]]. unfold not_fuel. cbn. discriminate.
      + destruct (r_next st) as [|x0 nx] eqn:En; [contradiction|]. rewrite <- En in *.
        destruct X as [X|X]; [rewrite En in X; discriminate|].
        assert (Hinc' : incl (r_seen st) dnames).
        { intros n Hn. destruct (S n Hn) as [H|H]; [apply Hinc; exact H|]. apply in_map_iff in H as [c [<- Hc]]. apply Hcur. exact Hc. }
        apply (IH (r_next st) (r_start st) (r_reported st) (r_seen st) N Hinc'); [|lia|exact He].
        intros c Hc. destruct (Y c Hc) as [[]|[c0 [_ H0]]]. eapply next_of_dnames. exact H0.
  Qed.

  (** the model's fuel is enough: the out-of-fuel marker never appears *)
  Theorem recursion_search_fuel d : In d (directives_of doc) -> forall e, In e (check_directive_recursion doc d) -> not_fuel e.
  Proof.
    intros Hd e He. unfold check_directive_recursion in He.
    apply (rec_loop_fuel (dname d) (S (length doc)) [d] true false []) with (e := e); [constructor | intros ? [] | | | exact He].
    - intros c [<-|[]]. unfold dnames. apply in_map. exact Hd.
    - cbn [length]. unfold dnames. rewrite map_length.
      assert (length (directives_of doc) <= length doc).
      { clear. unfold directives_of. induction doc as [|a r IH]; cbn [flat_map length]; [lia|].
        rewrite app_length. destruct a; cbn [length]; lia. }
      lia.
  Qed.

  (** ** what is reported is a definition named like the checked one, reachable from the current frontier *)
  Lemma rec_loop_reports self fuel : forall current reported seen e,
    In e (rec_loop fuel doc self current false reported seen) ->
    ~ not_fuel e \/ exists n c0 c, In c0 current /\ reach doc n c0 c /\ dname c = self.
  Proof.
    induction fuel as [|fuel IH]; intros current reported seen e He.
    - destruct He as [<-|[]]. left. intros H. apply H. reflexivity.
    - cbn [rec_loop] in He.
      assert (Hnd : True) by exact I.
      (* facts about the round that do not need NoDup: redo the relevant part of fold_general *)
      assert (G : forall l st, r_start st = false ->
                  let st' := fold_left (rec_step doc self) l st in
                  r_start st' = false /\
                  (forall y, In y (r_next st') -> In y (r_next st) \/ exists c, In c l /\ In y (next_of doc c)) /\
                  (forall e, In e (r_errs st') -> In e (r_errs st) \/ exists c, In c l /\ dname c = self)).
      { clear. induction l as [|c l IHl]; intros st Hs; cbn [fold_left]; cbn zeta.
        - repeat split; auto.
        - assert (Hs1 : r_start (rec_step doc self st c) = false).
          { unfold rec_step. rewrite Hs. cbn [negb andb]. destruct (str_eqb (dname c) self); [destruct (r_reported st); [exact Hs | reflexivity]|].
            destruct (mem _ _); reflexivity. }
          destruct (IHl _ Hs1) as [T [Y E]]. cbn zeta in *. split; [exact T|]. split.
          + intros y Hy. destruct (Y y Hy) as [H|[c0 [H0 H1]]]; [|right; exists c0; split; [right; exact H0 | exact H1]].
            unfold rec_step in H. destruct (negb (r_start st) && str_eqb (dname c) self).
            * destruct (r_reported st); left; exact H.
            * destruct (mem _ _); cbn [r_next] in H; [left; exact H|]. apply in_app_or in H as [H|H]; [left; exact H | right; exists c; split; [left; reflexivity | exact H]].
          + intros e He. destruct (E e He) as [H|[c0 [H0 H1]]]; [|right; exists c0; split; [right; exact H0 | exact H1]].
            unfold rec_step in H. destruct (negb (r_start st) && str_eqb (dname c) self) eqn:B.
            * apply andb_true_iff in B as [_ B]. apply str_eqb_eq in B.
              destruct (r_reported st); [left; exact H|]. cbn [r_errs] in H. apply in_app_or in H as [H|_]; [left; exact H | right; exists c; split; [left; reflexivity | exact B]].
            * destruct (mem _ _); left; exact H. }
      destruct (G current (mkR false reported seen [] []) eq_refl) as [T [Y E]]. cbn zeta in *. cbn [r_next r_errs] in *.
      set (st := fold_left (rec_step doc self) current (mkR false reported seen [] [])) in *.
      apply in_app_or in He as [He|He].
      + destruct (E e He) as [[]|[c [Hc Hn]]]. right. exists 0, c, c. split; [exact Hc|]. split; [constructor | exact Hn].
      + destruct (r_next st) as [|x0 nx] eqn:En; [contradiction|]. rewrite <- En in *. rewrite T in He.
        destruct (IH _ _ _ _ He) as [H|[n [c0 [c [Hc0 [Hr Hn]]]]]]; [left; exact H|]. right.
        destruct (Y c0 Hc0) as [[]|[c1 [Hc1 H1]]]. exists (S n), c1, c. split; [exact Hc1|]. split; [|exact Hn].
        econstructor; [exact H1 | exact Hr].
  Qed.

  Theorem recursion_search_sound d :
    In d (directives_of doc) ->
    (forall n y, reach doc (S n) d y -> dname y <> dname d) ->
    check_directive_recursion doc d = [].
  Proof.
    intros Hd Hno. destruct (check_directive_recursion doc d) as [|e r] eqn:E; [reflexivity|]. exfalso.
    assert (He : In e (check_directive_recursion doc d)) by (rewrite E; left; reflexivity).
    pose proof (recursion_search_fuel d Hd e He) as Hf.
    rewrite first_round in He. destruct (next_of doc d) as [|c0 nx] eqn:En; [contradiction|]. rewrite <- En in *.
    apply rec_loop_reports in He as [H|[n [c1 [c [Hc1 [Hr Hn]]]]]]; [exact (H Hf)|].
    apply (Hno n c); [|exact Hn]. econstructor; [exact Hc1 | exact Hr].
  Qed.
End Rec2.
