(** C05 — proofs, part 4: literal values and directive applications.
    check_value = [] implies the specification's coercion judgement (32-bit range of Int literals included,
    since 556742c), and the rules about directive applications. *)
From V Require Import Base.Util Gql.Ast C05.Model C05.Spec C05.Proofs C05.Proofs2 C05.Proofs3.

(** * one-step unfoldings *)
Lemma check_value_eq doc v t :
  check_value doc v t =
  match v with
  | VVar name p => [err (UnknownVariable name) p]
  | _ =>
    match t with
    | TNonNull inner => match v with VNull p => [err (TypeMismatch (ty_to_string t)) p] | _ => check_value doc v inner end
    | TList _ inner =>
        match v with
        | VList _ vs => flat_map (fun e => check_value doc e inner) vs
        | VNull _ => []
        | _ => check_value doc v inner
        end
    | TNamed n => check_named (check_value doc) doc v t n
    end
  end.
Proof. destruct v; destruct t; reflexivity. Qed.

Lemma value_ok_eq b doc v t :
  value_ok b doc v t =
  match v with
  | VVar _ _ => false
  | _ =>
    match t with
    | TNonNull inner => match v with VNull _ => false | _ => value_ok b doc v inner end
    | TList _ inner =>
        match v with
        | VNull _ => true
        | VList _ vs => forallb (fun e => value_ok b doc e inner) vs
        | _ => value_ok b doc v inner
        end
    | TNamed n => match v with VNull _ => true | _ => named_ok (value_ok b doc) b doc v n end
    end
  end.
Proof. destruct v; destruct t; reflexivity. Qed.

(** * induction on values (nested through lists) *)
Section ValueInd.
  Variable P : value -> Prop.
  Hypothesis HVar : forall n p, P (VVar n p).
  Hypothesis HInt : forall p x, P (VInt p x).
  Hypothesis HFloat : forall p x, P (VFloat p x).
  Hypothesis HString : forall p x, P (VString p x).
  Hypothesis HBool : forall p x, P (VBool p x).
  Hypothesis HNull : forall p, P (VNull p).
  Hypothesis HEnum : forall p x, P (VEnum p x).
  Hypothesis HList : forall p vs, Forall P vs -> P (VList p vs).
  Hypothesis HObject : forall p fs, Forall (fun kv => P (snd kv)) fs -> P (VObject p fs).
  Fixpoint value_ind' (v : value) : P v :=
    match v with
    | VVar n p => HVar n p | VInt p x => HInt p x | VFloat p x => HFloat p x | VString p x => HString p x
    | VBool p x => HBool p x | VNull p => HNull p | VEnum p x => HEnum p x
    | VList p vs => HList p vs ((fix go (l : list value) : Forall P l :=
                                  match l with [] => Forall_nil _ | x :: r => Forall_cons x (value_ind' x) (go r) end) vs)
    | VObject p fs => HObject p fs ((fix go (l : list (ident * value)) : Forall (fun kv => P (snd kv)) l :=
                                       match l with
                                       | [] => Forall_nil _
                                       | kv :: r => Forall_cons kv (value_ind' (snd kv)) (go r)
                                       end) fs)
    end.
End ValueInd.

(** * counting: `seen < len` is false only if every key is a distinct known name *)
Lemma NoDup_filter {A} (p : A -> bool) l : NoDup l -> NoDup (filter p l).
Proof.
  induction 1 as [|x l Hx Hl IH]; cbn [filter]; [constructor|].
  destruct (p x); [constructor; [rewrite filter_In; tauto | exact IH] | exact IH].
Qed.
Lemma filter_map_comm {A B} (f : A -> B) (q : B -> bool) l : map f (filter (fun x => q (f x)) l) = filter q (map f l).
Proof. induction l as [|a l IH]; cbn [filter map]; [reflexivity|]. destruct (q (f a)); cbn [map]; rewrite IH; reflexivity. Qed.

Lemma count_cover (names keys : list str) :
  NoDup names -> length keys <= length (filter (fun n => mem n keys) names) -> NoDup keys /\ incl keys names.
Proof.
  intros Hnd Hlen. set (F := filter (fun n => mem n keys) names) in *.
  assert (HF : NoDup F) by (apply NoDup_filter; exact Hnd).
  assert (Hinc : incl F keys) by (intros x Hx; apply filter_In in Hx as [_ Hx]; apply mem_In; exact Hx).
  split.
  - apply (NoDup_incl_NoDup HF Hlen Hinc).
  - intros x Hx. assert (Hx' : In x F) by (apply (NoDup_length_incl HF Hlen Hinc); exact Hx).
    apply filter_In in Hx'. tauto.
Qed.

Definition keys_of (fs : list (ident * value)) : list str := map (fun kv => iname (fst kv)) fs.

Lemma look_field_some cv ef fs : is_some (look_field cv ef fs) = mem (iname (iv_name ef)) (keys_of fs).
Proof.
  induction fs as [|[k fv] r IH]; [reflexivity|]. cbn [look_field keys_of map fst]. unfold mem. cbn [existsb].
  destruct (str_eqb (iname (iv_name ef)) (iname k)); [reflexivity | exact IH].
Qed.
Lemma find_arg_some n al : is_some (find_arg n al) = mem n (keys_of al).
Proof.
  induction al as [|[k fv] r IH]; [reflexivity|]. cbn [find_arg keys_of map fst]. unfold mem. cbn [existsb].
  destruct (str_eqb n (iname k)); [reflexivity | exact IH].
Qed.

(** with distinct keys, the first entry for a key is any entry for that key *)
Lemma look_field_In cv ef fs k fv :
  NoDup (keys_of fs) -> In (k, fv) fs -> iname (iv_name ef) = iname k -> look_field cv ef fs = Some (cv fv (iv_type ef)).
Proof.
  induction fs as [|[k' fv'] r IH]; intros Hnd Hin He; [contradiction|]. cbn [look_field].
  cbn [keys_of map fst] in Hnd. inversion Hnd as [|? ? Hx Hl]; subst.
  destruct Hin as [Heq|Hin].
  - injection Heq as -> ->. rewrite He, str_eqb_refl. reflexivity.
  - destruct (str_eqb (iname (iv_name ef)) (iname k')) eqn:E; [|apply IH; assumption].
    exfalso. apply Hx. apply str_eqb_eq in E. rewrite <- E, He. apply (in_map (fun kv => iname (fst kv)) r (k, fv)). exact Hin.
Qed.
Lemma find_arg_In n al k v :
  NoDup (keys_of al) -> In (k, v) al -> n = iname k -> find_arg n al = Some v.
Proof.
  induction al as [|[k' v'] r IH]; intros Hnd Hin He; [contradiction|]. cbn [find_arg].
  cbn [keys_of map fst] in Hnd. inversion Hnd as [|? ? Hx Hl]; subst.
  destruct Hin as [Heq|Hin].
  - injection Heq as -> ->. rewrite str_eqb_refl. reflexivity.
  - destruct (str_eqb (iname k) (iname k')) eqn:E; [|apply IH; auto].
    exfalso. apply Hx. apply str_eqb_eq in E. rewrite <- E. apply (in_map (fun kv => iname (fst kv)) r (k, v)). exact Hin.
Qed.

Lemma arg_named_In l n : In n (map (fun a => iname (iv_name a)) l) -> exists a, arg_named l n = Some a /\ iname (iv_name a) = n.
Proof.
  induction l as [|a l IH]; [intros []|]. cbn [map]. unfold arg_named. cbn [find]. intros H.
  destruct (str_eqb (iname (iv_name a)) n) eqn:E.
  - exists a. split; [reflexivity | apply str_eqb_eq; exact E].
  - destruct H as [H|H]; [apply str_eqb_neq in E; contradiction | apply IH; exact H].
Qed.
Lemma arg_named_some l n a : arg_named l n = Some a -> In a l /\ iname (iv_name a) = n.
Proof. unfold arg_named. intros H. apply find_some in H as [Hi He]. apply str_eqb_eq in He. tauto. Qed.

Lemma iv_required_is a : iv_required a = is_required a.
Proof. unfold iv_required, is_required. destruct (iv_type a), (iv_default a); reflexivity. Qed.

Lemma forallb_negb_false {A} (f : A -> bool) l : forallb (fun x => negb (f x)) l = false -> existsb f l = true.
Proof.
  induction l as [|a l IH]; cbn [forallb existsb]; [discriminate|].
  destruct (f a); cbn [negb andb orb]; [reflexivity | exact IH].
Qed.

Lemma digits_value_parse acc l : digits_value acc l = parse_digits acc l.
Proof.
  revert acc. induction l as [|c r IH]; intros acc; cbn [digits_value parse_digits]; [reflexivity|].
  unfold digit. destruct ((48 <=? c)%N && (c <=? 57)%N); [apply IH | reflexivity].
Qed.
Lemma parses_as_i32_int32 x : parses_as_i32 x = int32 x.
Proof.
  unfold parses_as_i32, int32, parse_int. destruct x as [|c r]; [reflexivity|].
  rewrite digits_value_parse. destruct (parse_digits 0 _); reflexivity.
Qed.

Lemma builtin_scalar_sound n v :
  builtin_scalar_ok n v = true -> (forall q, v <> VNull q) -> (forall x q, v <> VVar x q) ->
  (if str_eqb n (s "Int") then (match v with VInt _ x => negb true || int32 x | _ => false end)
   else if str_eqb n (s "Float") then (match v with VInt _ _ | VFloat _ _ => true | _ => false end)
   else if str_eqb n (s "String") then (match v with VString _ _ => true | _ => false end)
   else if str_eqb n (s "Boolean") then (match v with VBool _ _ => true | _ => false end)
   else if str_eqb n (s "ID") then (match v with VString _ _ | VInt _ _ => true | _ => false end)
   else true) = true.
Proof.
  unfold builtin_scalar_ok. intros H Hn Hv.
  destruct (str_eqb n (s "Boolean")) eqn:E1.
  { apply str_eqb_eq in E1. subst n. cbn. destruct v; try reflexivity; try discriminate. exfalso; eapply Hn; reflexivity. }
  destruct (str_eqb n (s "Int")) eqn:E2.
  { destruct v; try reflexivity; try discriminate; [cbn [negb orb]; rewrite <- parses_as_i32_int32; exact H | exfalso; eapply Hn; reflexivity]. }
  destruct (str_eqb n (s "Float")) eqn:E3.
  { destruct v; try reflexivity; try discriminate. exfalso; eapply Hn; reflexivity. }
  destruct (str_eqb n (s "String")) eqn:E4.
  { destruct v; try reflexivity; try discriminate. exfalso; eapply Hn; reflexivity. }
  destruct (str_eqb n (s "ID")) eqn:E5.
  { destruct v; try reflexivity; try discriminate. exfalso; eapply Hn; reflexivity. }
  reflexivity.
Qed.

Section Values.
  Variable doc : tsdoc.
  Hypothesis Hchk : check_doc doc = [].

  Lemma input_fields_nodup d p n ds fields kw :
    In (TDInput d p n ds fields kw) (types_of doc) -> NoDup (map (fun a => iname (iv_name a)) fields).
  Proof.
    intros Ht. pose proof (check_nil_type doc _ Hchk Ht) as H. cbn [check_typedef] in H. split_nil H.
    apply check_input_fields_nil in H. tauto.
  Qed.

  (** the InputObject case *)
  Lemma input_object_sound (cv : value -> ty -> list cerr) (vo : value -> ty -> bool) fields fs :
    NoDup (map (fun a => iname (iv_name a)) fields) ->
    Forall (fun kv => forall t, cv (snd kv) t = [] -> vo (snd kv) t = true) fs ->
    fst (fst (input_object_check cv fields fs)) = [] ->
    snd (fst (input_object_check cv fields fs)) = true ->
    nodup_str (keys_of fs) = true /\ each_field vo fields fs = true /\
    forallb (fun fd => negb (is_required fd) || existsb (fun kv => str_eqb (iname (fst kv)) (iname (iv_name fd))) fs) fields = true.
  Proof.
    intros Hnd HIH. unfold input_object_check. cbn [fst snd]. intros Herrs Hok.
    apply andb_true_iff in Hok as [Hres Hext]. apply negb_true_iff, Nat.ltb_ge in Hext.
    (* counting *)
    assert (Hcount : length (filter (fun ef => is_some (look_field cv ef fs)) fields)
                     = length (filter (fun n => mem n (keys_of fs)) (map (fun a => iname (iv_name a)) fields))).
    { rewrite <- filter_map_comm, map_length. f_equal. apply filter_ext. intros a. apply look_field_some. }
    rewrite Hcount in Hext. replace (length fs) with (length (keys_of fs)) in Hext by apply map_length.
    destruct (count_cover _ _ Hnd Hext) as [Hkeys Hincl].
    split; [apply nodup_str_NoDup; exact Hkeys|]. split.
    - (* every provided field is known and fits *)
      rewrite flat_map_nil in Herrs.
      assert (Hall : forall k fv, In (k, fv) fs -> exists fd, arg_named fields (iname k) = Some fd /\ vo fv (iv_type fd) = true).
      { intros k fv Hin.
        assert (Hk : In (iname k) (map (fun a => iname (iv_name a)) fields)).
        { apply Hincl. apply (in_map (fun kv => iname (fst kv)) fs (k, fv)). exact Hin. }
        apply arg_named_In in Hk as [fd [Hfd Hname]]. exists fd. split; [exact Hfd|].
        apply arg_named_some in Hfd as [Hfdin _]. specialize (Herrs fd Hfdin).
        rewrite (look_field_In cv fd fs k fv Hkeys Hin Hname) in Herrs.
        rewrite Forall_forall in HIH. apply (HIH (k, fv) Hin). exact Herrs. }
      clear - Hall. induction fs as [|[k fv] r IH]; [reflexivity|]. cbn [each_field].
      destruct (Hall k fv (or_introl eq_refl)) as [fd [-> Hv]]. rewrite Hv. cbn [andb].
      apply IH. intros k' fv' Hin. apply Hall. right; exact Hin.
    - apply forallb_forall. intros fd Hfd. rewrite forallb_forall in Hres. specialize (Hres fd Hfd).
      rewrite <- iv_required_is.
      destruct (look_field cv fd fs) eqn:L.
      + assert (Hs : is_some (look_field cv fd fs) = true) by (rewrite L; reflexivity).
        rewrite look_field_some in Hs. apply mem_In in Hs. apply orb_true_iff. right.
        apply existsb_exists. unfold keys_of in Hs. apply in_map_iff in Hs as [kv [Hkv Hin]].
        exists kv. split; [exact Hin | apply str_eqb_eq; exact Hkv].
      + rewrite Hres. reflexivity.
  Qed.

  Lemma check_named_sound v t n :
    (forall q, v <> VNull q) -> (forall x q, v <> VVar x q) ->
    (forall p fs, v = VObject p fs ->
       Forall (fun kv => forall t, check_value doc (snd kv) t = [] -> value_ok true doc (snd kv) t = true) fs) ->
    check_named (check_value doc) doc v t n = [] -> named_ok (value_ok true doc) true doc v n = true.
  Proof.
    intros Hn Hv HIH. unfold check_named, named_ok. rewrite first_type_lookup.
    destruct (lookup_t doc (iname n)) as [td|] eqn:L; [|discriminate].
    apply lookup_t_In in L as [Lin Ln]. destruct td.
    - (* scalar *) intros H. cbn [typedef_name] in Ln. unfold tn in Ln. cbn [typedef_name] in Ln. rewrite Ln in H.
      apply builtin_scalar_sound; [|exact Hn|exact Hv].
      destruct (builtin_scalar_ok (iname n) v); [reflexivity | discriminate].
    - discriminate.
    - discriminate.
    - discriminate.
    - (* enum *) destruct v; try discriminate; [exfalso; eapply Hn; reflexivity|].
      intros H. apply forallb_negb_false. destruct (forallb _ vals); [discriminate | reflexivity].
    - (* input object *) destruct v; try discriminate; [exfalso; eapply Hn; reflexivity|].
      destruct (input_object_check (check_value doc) fields fs) as [[errs ok] info] eqn:E. intros H.
      apply app_eq_nil in H as [H1 H2]. destruct ok; [|discriminate].
      pose proof (input_object_sound (check_value doc) (value_ok true doc) fields fs
                    (input_fields_nodup _ _ _ _ _ _ Lin) (HIH _ fs eq_refl)) as Hs.
      rewrite E in Hs. cbn [fst snd] in Hs. destruct (Hs H1 eq_refl) as [A [B C]].
      unfold keys_of in A. rewrite A, B, C. reflexivity.
  Qed.

  Lemma value_sound v : forall t, check_value doc v t = [] -> value_ok true doc v t = true.
  Proof.
    induction v using value_ind'; intros t; induction t as [tn0|t IHt|tq t IHt];
      rewrite check_value_eq, value_ok_eq; try discriminate; intros Hc;
      try (apply IHt; exact Hc); try reflexivity;
      try (apply check_named_sound with (t := TNamed tn0); [intros; discriminate | intros; discriminate | intros ? ? Hq; discriminate Hq | exact Hc]).
    - (* list literal against a list type *)
      apply forallb_forall. intros e He. rewrite flat_map_nil in Hc. rewrite Forall_forall in H. apply H; [exact He | apply Hc; exact He].
    - (* object literal against a named type *)
      apply check_named_sound with (t := TNamed tn0); [intros; discriminate | intros; discriminate | | exact Hc].
      intros p' fs' Heq. injection Heq as <- <-. exact H.
  Qed.

  (** check_arguments = [] : known names, required arguments present, values fit.
      The application must not name an argument twice (Argument Uniqueness, a rule nitrogql does not implement:
      only the first of two equally named arguments is looked at). *)
  Lemma check_arguments_sound ppos pname kind (a : directive) (d : directivedef) :
    NoDup (map (fun x => iname (iv_name x)) (args_of (dd_args d))) ->
    NoDup (keys_of (app_args a)) ->
    check_arguments doc ppos pname kind (dir_args a) (opt_list (dd_args d)) = [] ->
    app_args_ok true doc a d = true.
  Proof.
    intros Hnd Hkeys. unfold app_args_ok. rewrite opt_list_args_of. fold (args_of (dd_args d)).
    set (defs := args_of (dd_args d)) in *. unfold check_arguments, app_args in *.
    set (al := match dir_args a with Some x => args_list x | None => [] end) in *.
    set (apos := match dir_args a with None => ppos | Some a0 => args_pos a0 end).
    intros H.
    assert (Hmain : flat_map (arg_errs doc al apos) defs = [] /\
                    (Nat.ltb (length (filter (fun d0 => is_some (find_arg (iname (iv_name d0)) al)) defs)) (length al) = true ->
                     flat_map (fun kv : ident * value =>
                        if forallb (fun d0 => negb (str_eqb (iname (iv_name d0)) (iname (fst kv)))) defs
                        then [err (UnknownArgument (iname (fst kv))) (ipos (fst kv))] else []) al = [])).
    { subst al apos. destruct (dir_args a) as [ar|]; destruct defs as [|d0 defs'] eqn:Ed; try discriminate.
      - apply app_eq_nil in H as [H1 H2]. split; [exact H1|]. intros E. rewrite E in H2. exact H2.
      - split; [reflexivity|]. cbn. discriminate.
      - apply app_eq_nil in H as [H1 H2]. split; [exact H1|]. intros E. rewrite E in H2. exact H2. }
    clear H. destruct Hmain as [Herrs Htail]. rewrite flat_map_nil in Herrs.
    (* every given argument is declared *)
    assert (Hknown : incl (keys_of al) (map (fun x => iname (iv_name x)) defs)).
    { destruct (Nat.ltb _ (length al)) eqn:Elt.
      - specialize (Htail eq_refl). rewrite flat_map_nil in Htail.
        intros k Hk. unfold keys_of in Hk. apply in_map_iff in Hk as [kv [<- Hkv]]. specialize (Htail kv Hkv).
        destruct (forallb (fun d1 => negb (str_eqb (iname (iv_name d1)) (iname (fst kv)))) defs) eqn:F; [discriminate|].
        apply forallb_negb_false in F. apply existsb_exists in F as [x [Hx He]]. apply str_eqb_eq in He.
        rewrite <- He. apply (in_map (fun x0 => iname (iv_name x0))). exact Hx.
      - apply Nat.ltb_ge in Elt.
        assert (Hcount : length (filter (fun d0 => is_some (find_arg (iname (iv_name d0)) al)) defs)
                         = length (filter (fun n => mem n (keys_of al)) (map (fun x => iname (iv_name x)) defs))).
        { rewrite <- filter_map_comm, map_length. f_equal. apply filter_ext. intros x. apply find_arg_some. }
        rewrite Hcount in Elt. replace (length al) with (length (keys_of al)) in Elt by apply map_length.
        apply (count_cover _ _ Hnd Elt). }
    apply andb_true_iff. split.
    - apply forallb_forall. intros [k v] Hkv. cbn [fst snd].
      assert (Hk : In (iname k) (map (fun x => iname (iv_name x)) defs)).
      { apply Hknown. apply (in_map (fun kv => iname (fst kv)) al (k, v)). exact Hkv. }
      apply arg_named_In in Hk as [ad [Had Hname]]. rewrite Had.
      apply arg_named_some in Had as [Hadin _]. specialize (Herrs ad Hadin). unfold arg_errs in Herrs.
      rewrite (find_arg_In (iname (iv_name ad)) al k v Hkeys Hkv Hname) in Herrs.
      apply value_sound. exact Herrs.
    - apply forallb_forall. intros ad Had. specialize (Herrs ad Had). unfold arg_errs in Herrs.
      rewrite <- iv_required_is.
      destruct (find_arg (iname (iv_name ad)) al) eqn:F.
      + assert (Hs : is_some (find_arg (iname (iv_name ad)) al) = true) by (rewrite F; reflexivity).
        rewrite find_arg_some in Hs. apply mem_In in Hs. apply orb_true_iff. right.
        apply existsb_exists. unfold keys_of in Hs. apply in_map_iff in Hs as [kv [Hkv Hin]].
        exists kv. split; [exact Hin | apply str_eqb_eq; exact Hkv].
      + destruct (iv_required ad); [discriminate | reflexivity].
  Qed.
End Values.
