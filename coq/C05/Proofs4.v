(** C05 — proofs, part 4: literal values and directive applications.
    check_value = [] implies the specification's coercion judgement (32-bit range of Int literals included,
    since 556742c), and the rules about directive applications. *)
From V Require Import Base.Util Gql.Ast C05.Model C05.Spec C05.Proofs C05.Proofs2 C05.Proofs3.

(** * one-step unfoldings *)
Lemma check_value_eq doc v t :
  check_value doc v t =
  match v with
  | VVar name p => [err (UnknownVariable name) p]
  | _ =>
    match t with
    | TNonNull inner => match v with VNull p => [err (TypeMismatch (ty_to_string t)) p] | _ => check_value doc v inner end
    | TList _ inner =>
        match v with
        | VList _ vs => flat_map (fun e => check_value doc e inner) vs
        | VNull _ => []
        | _ => check_value doc v inner
        end
    | TNamed n => check_named (check_value doc) doc v t n
    end
  end.
Proof. destruct v; destruct t; reflexivity. Qed.

Lemma value_ok_eq b doc v t :
  value_ok b doc v t =
  match v with
  | VVar _ _ => false
  | _ =>
    match t with
    | TNonNull inner => match v with VNull _ => false | _ => value_ok b doc v inner end
    | TList _ inner =>
        match v with
        | VNull _ => true
        | VList _ vs => forallb (fun e => value_ok b doc e inner) vs
        | _ => value_ok b doc v inner
        end
    | TNamed n => match v with VNull _ => true | _ => named_ok (value_ok b doc) b doc v n end
    end
  end.
Proof. destruct v; destruct t; reflexivity. Qed.

(** * induction on values (nested through lists) *)
Section ValueInd.
  Variable P : value -> Prop.
  Hypothesis HVar : forall n p, P (VVar n p).
  Hypothesis HInt : forall p x, P (VInt p x).
  Hypothesis HFloat : forall p x, P (VFloat p x).
  Hypothesis HString : forall p x, P (VString p x).
  Hypothesis HBool : forall p x, P (VBool p x).
  Hypothesis HNull : forall p, P (VNull p).
  Hypothesis HEnum : forall p x, P (VEnum p x).
  Hypothesis HList : forall p vs, Forall P vs -> P (VList p vs).
  Hypothesis HObject : forall p fs, Forall (fun kv => P (snd kv)) fs -> P (VObject p fs).
  Fixpoint value_ind' (v : value) : P v :=
    match v with
    | VVar n p => HVar n p | VInt p x => HInt p x | VFloat p x => HFloat p x | VString p x => HString p x
    | VBool p x => HBool p x | VNull p => HNull p | VEnum p x => HEnum p x
    | VList p vs => HList p vs ((fix go (l : list value) : Forall P l :=
                                  match l with [] => Forall_nil _ | x :: r => Forall_cons x (value_ind' x) (go r) end) vs)
    | VObject p fs => HObject p fs ((fix go (l : list (ident * value)) : Forall (fun kv => P (snd kv)) l :=
                                       match l with
                                       | [] => Forall_nil _
                                       | kv :: r => Forall_cons kv (value_ind' (snd kv)) (go r)
                                       end) fs)
    end.
End ValueInd.

(** * counting: `seen < len` is false only if every given name is a declared one *)
Definition keys_of (fs : list (ident * value)) : list str := map (fun kv => iname (fst kv)) fs.
(** the entry is named like one of the definitions *)
Definition known (defs : list inputvaldef) (kv : ident * value) : bool :=
  existsb (fun d => str_eqb (iname (iv_name d)) (iname (fst kv))) defs.

Lemma filter_length_le {A} (p : A -> bool) l : length (filter p l) <= length l.
Proof. induction l as [|a l IH]; cbn [filter length]; [lia|]. destruct (p a); cbn [length]; lia. Qed.
Lemma filter_length_all {A} (p : A -> bool) l : length l <= length (filter p l) -> forallb p l = true.
Proof.
  induction l as [|a l IH]; cbn [filter length forallb]; [reflexivity|].
  destruct (p a); cbn [length andb]; intros H; [apply IH; lia|]. pose proof (filter_length_le p l). lia.
Qed.
Lemma filter_or_disjoint {A} (p q : A -> bool) l :
  (forall x, p x = true -> q x = false) ->
  length (filter (fun x => p x || q x) l) = length (filter p l) + length (filter q l).
Proof.
  intros H. induction l as [|a l IH]; cbn [filter length]; [reflexivity|].
  destruct (p a) eqn:P; cbn [orb].
  - rewrite (H a P). cbn [length]. lia.
  - destruct (q a); cbn [length]; lia.
Qed.

(** with distinct definition names, the occurrences counted definition by definition are the known entries *)
Lemma occ_sum_known defs al :
  NoDup (map (fun d => iname (iv_name d)) defs) ->
  list_sum (map (fun d => occ_count (iname (iv_name d)) al) defs) = length (filter (known defs) al).
Proof.
  induction defs as [|d r IH]; intros Hnd; cbn [map list_sum fold_right].
  - unfold known. cbn [existsb]. induction al as [|x al IHal]; cbn [filter length]; [reflexivity | exact IHal].
  - cbn [map] in Hnd. inversion Hnd as [|? ? Hx Hr]; subst. fold (list_sum (map (fun d0 => occ_count (iname (iv_name d0)) al) r)).
    rewrite (IH Hr). unfold occ_count.
    rewrite <- (filter_or_disjoint (fun kv : ident * value => str_eqb (iname (iv_name d)) (iname (fst kv))) (known r) al).
    + f_equal.
    + intros kv E. apply str_eqb_eq in E. unfold known. apply not_true_iff_false. intros K.
      apply existsb_exists in K as [d' [Hd' E']]. apply str_eqb_eq in E'. apply Hx. rewrite E, <- E'.
      apply (in_map (fun d0 => iname (iv_name d0))). exact Hd'.
Qed.

Lemma app_nil_intro' {A} (a b : list A) : a = [] -> b = [] -> a ++ b = [].
Proof. intros -> ->. reflexivity. Qed.

Lemma occ_errs_nil cv ef fs :
  occ_errs cv ef fs = [] <->
  forall k fv, In (k, fv) fs -> iname (iv_name ef) = iname k -> cv fv (expected_ty ef fv) = [].
Proof.
  induction fs as [|[k fv] r IH]; cbn [occ_errs]; [split; [intros _ ? ? [] | reflexivity]|]. split.
  - intros H. apply app_eq_nil in H as [H1 H2]. intros k' fv' [E|Hin] Hn.
    + injection E as <- <-. rewrite Hn, str_eqb_refl in H1. exact H1.
    + apply (proj1 IH H2 k' fv' Hin Hn).
  - intros H. apply app_nil_intro'.
    + destruct (str_eqb (iname (iv_name ef)) (iname k)) eqn:E; [|reflexivity]. apply (H k fv (or_introl eq_refl)). apply str_eqb_eq. exact E.
    + apply IH. intros k' fv' Hin. apply H. right; exact Hin.
Qed.

Lemma occ_count_pos name fs : 0 < occ_count name fs <-> In name (keys_of fs).
Proof.
  unfold occ_count, keys_of. induction fs as [|[k fv] r IH]; cbn [filter length map fst]; [split; [lia | intros []]|].
  destruct (str_eqb name (iname k)) eqn:E; cbn [length In].
  - apply str_eqb_eq in E. split; [intros _; left; symmetry; exact E | lia].
  - apply str_eqb_neq in E. rewrite IH. split; [tauto | intros [H|H]; [congruence | exact H]].
Qed.
Lemma find_arg_some n al : is_some (find_arg n al) = mem n (keys_of al).
Proof.
  induction al as [|[k fv] r IH]; [reflexivity|]. cbn [find_arg keys_of map fst]. unfold mem. cbn [existsb].
  destruct (str_eqb n (iname k)); [reflexivity | exact IH].
Qed.

Lemma arg_named_In l n : In n (map (fun a => iname (iv_name a)) l) -> exists a, arg_named l n = Some a /\ iname (iv_name a) = n.
Proof.
  induction l as [|a l IH]; [intros []|]. cbn [map]. unfold arg_named. cbn [find]. intros H.
  destruct (str_eqb (iname (iv_name a)) n) eqn:E.
  - exists a. split; [reflexivity | apply str_eqb_eq; exact E].
  - destruct H as [H|H]; [apply str_eqb_neq in E; contradiction | apply IH; exact H].
Qed.
Lemma arg_named_some l n a : arg_named l n = Some a -> In a l /\ iname (iv_name a) = n.
Proof. unfold arg_named. intros H. apply find_some in H as [Hi He]. apply str_eqb_eq in He. tauto. Qed.
Lemma known_arg_named defs kv : known defs kv = true -> exists ad, arg_named defs (iname (fst kv)) = Some ad.
Proof.
  unfold known. intros H. apply existsb_exists in H as [d [Hd E]]. apply str_eqb_eq in E.
  destruct (arg_named_In defs (iname (fst kv))) as [a [Ha _]]; [rewrite <- E; apply (in_map (fun a => iname (iv_name a))); exact Hd|].
  exists a. exact Ha.
Qed.
(** unique definitions: looking a name up returns the definition we already hold *)
Lemma arg_named_unique l a :
  NoDup (map (fun x => iname (iv_name x)) l) -> In a l -> arg_named l (iname (iv_name a)) = Some a.
Proof.
  unfold arg_named. induction l as [|x l IH]; intros Hnd Hin; [contradiction|]. cbn [find map] in *.
  inversion Hnd as [|? ? Hx Hl]; subst. destruct Hin as [->|Hin]; [rewrite str_eqb_refl; reflexivity|].
  destruct (str_eqb (iname (iv_name x)) (iname (iv_name a))) eqn:E; [|apply IH; assumption].
  exfalso. apply Hx. apply str_eqb_eq in E. rewrite E. apply (in_map (fun x => iname (iv_name x))). exact Hin.
Qed.

Lemma iv_required_is a : iv_required a = is_required a.
Proof. unfold iv_required, is_required. destruct (iv_type a), (iv_default a); reflexivity. Qed.

Lemma forallb_negb_false {A} (f : A -> bool) l : forallb (fun x => negb (f x)) l = false -> existsb f l = true.
Proof.
  induction l as [|a l IH]; cbn [forallb existsb]; [discriminate|].
  destruct (f a); cbn [negb andb orb]; [reflexivity | exact IH].
Qed.

Lemma digits_value_parse acc l : digits_value acc l = parse_digits acc l.
Proof.
  revert acc. induction l as [|c r IH]; intros acc; cbn [digits_value parse_digits]; [reflexivity|].
  unfold digit. destruct ((48 <=? c)%N && (c <=? 57)%N); [apply IH | reflexivity].
Qed.
Lemma parses_as_i32_int32 x : parses_as_i32 x = int32 x.
Proof.
  unfold parses_as_i32, int32, parse_int. destruct x as [|c r]; [reflexivity|].
  rewrite digits_value_parse. destruct (parse_digits 0 _); reflexivity.
Qed.

(** variables nested in a literal *)
Lemma vars_in_value_eq v :
  vars_in_value v = match v with
                    | VVar name p => [err (UnknownVariable name) p]
                    | VList _ vs => flat_map vars_in_value vs
                    | VObject _ fs => flat_map (fun kv : ident * value => vars_in_value (snd kv)) fs
                    | _ => [] end.
Proof.
  destruct v; try reflexivity. cbn [vars_in_value]. induction fs as [|[k fv] r IH]; [reflexivity|].
  cbn [flat_map snd]. rewrite <- IH. reflexivity.
Qed.
Lemma no_vars_eq v :
  no_vars v = match v with
              | VVar _ _ => false
              | VList _ vs => forallb no_vars vs
              | VObject _ fs => forallb (fun kv : ident * value => no_vars (snd kv)) fs
              | _ => true end.
Proof.
  destruct v; try reflexivity. cbn [no_vars]. induction fs as [|[k fv] r IH]; [reflexivity|].
  cbn [forallb snd]. rewrite <- IH. reflexivity.
Qed.
Lemma vars_nil_no_vars v : vars_in_value v = [] <-> no_vars v = true.
Proof.
  induction v using value_ind'; rewrite vars_in_value_eq, no_vars_eq; try (split; [reflexivity | reflexivity]); try (split; discriminate).
  - rewrite flat_map_nil, forallb_forall. rewrite Forall_forall in H. split; intros Hx e He; apply (H e He); apply Hx; exact He.
  - rewrite flat_map_nil, forallb_forall. rewrite Forall_forall in H. split; intros Hx e He; apply (H e He); apply Hx; exact He.
Qed.

(** a variable is never accepted, whatever the expected type *)
Lemma check_value_var doc n p t : check_value doc (VVar n p) t <> [].
Proof. rewrite check_value_eq. discriminate. Qed.
Lemma expected_ty_nil doc d v : check_value doc v (expected_ty d v) = [] -> check_value doc v (iv_type d) = [].
Proof.
  intros H. destruct v; try (unfold expected_ty in H; destruct (iv_type d); exact H).
  exfalso. exact (check_value_var _ _ _ _ H).
Qed.

Lemma builtin_scalar_sound n v :
  (if is_builtin_scalar_name n then [] else vars_in_value v) = [] ->
  builtin_scalar_ok n v = true -> (forall q, v <> VNull q) -> (forall x q, v <> VVar x q) ->
  (if str_eqb n (s "Int") then (match v with VInt _ x => negb true || int32 x | _ => false end)
   else if str_eqb n (s "Float") then (match v with VInt _ _ | VFloat _ _ => true | _ => false end)
   else if str_eqb n (s "String") then (match v with VString _ _ => true | _ => false end)
   else if str_eqb n (s "Boolean") then (match v with VBool _ _ => true | _ => false end)
   else if str_eqb n (s "ID") then (match v with VString _ _ | VInt _ _ => true | _ => false end)
   else no_vars v) = true.
Proof.
  unfold builtin_scalar_ok, is_builtin_scalar_name. intros Hvars H Hn Hv.
  destruct (str_eqb n (s "Boolean")) eqn:E1.
  { apply str_eqb_eq in E1. subst n. cbn. destruct v; try reflexivity; try discriminate. exfalso; eapply Hn; reflexivity. }
  destruct (str_eqb n (s "Int")) eqn:E2.
  { destruct v; try reflexivity; try discriminate; [cbn [negb orb]; rewrite <- parses_as_i32_int32; exact H | exfalso; eapply Hn; reflexivity]. }
  destruct (str_eqb n (s "Float")) eqn:E3.
  { destruct v; try reflexivity; try discriminate. exfalso; eapply Hn; reflexivity. }
  destruct (str_eqb n (s "String")) eqn:E4.
  { destruct v; try reflexivity; try discriminate. exfalso; eapply Hn; reflexivity. }
  destruct (str_eqb n (s "ID")) eqn:E5.
  { destruct v; try reflexivity; try discriminate. exfalso; eapply Hn; reflexivity. }
  cbn [orb] in Hvars. apply vars_nil_no_vars. exact Hvars.
Qed.

Section Values.
  Variable doc : tsdoc.
  Hypothesis Hchk : check_doc doc = [].

  Lemma input_fields_nodup d p n ds fields kw :
    In (TDInput d p n ds fields kw) (types_of doc) -> NoDup (map (fun a => iname (iv_name a)) fields).
  Proof.
    intros Ht. pose proof (check_nil_type doc _ Hchk Ht) as H. cbn [check_typedef] in H. split_nil H.
    apply check_input_fields_nil in H. tauto.
  Qed.

  (** the loop over definitions, shared by input-object literals and argument lists: no diagnostic from the
      occurrences, every required definition present, not more entries than counted occurrences *)
  Lemma entries_sound (vo : value -> ty -> bool) (defs : list inputvaldef) (al : list (ident * value)) :
    NoDup (map (fun a => iname (iv_name a)) defs) ->
    Forall (fun kv => forall t, check_value doc (snd kv) t = [] -> vo (snd kv) t = true) al ->
    (forall d, In d defs -> occ_errs (check_value doc) d al = []) ->
    forallb (known defs) al = true ->
    forall k fv, In (k, fv) al -> exists fd, arg_named defs (iname k) = Some fd /\ vo fv (iv_type fd) = true.
  Proof.
    intros Hnd HIH Herrs Hknown k fv Hin. rewrite forallb_forall in Hknown.
    destruct (known_arg_named defs (k, fv) (Hknown _ Hin)) as [fd Hfd]. cbn [fst] in Hfd. exists fd. split; [exact Hfd|].
    apply arg_named_some in Hfd as [Hfdin Hname].
    pose proof (proj1 (occ_errs_nil _ _ _) (Herrs fd Hfdin) k fv Hin Hname) as Hc.
    rewrite Forall_forall in HIH. apply (HIH (k, fv) Hin). apply expected_ty_nil with (d := fd). exact Hc.
  Qed.

  (** the InputObject case *)
  Lemma input_object_sound (vo : value -> ty -> bool) fields fs :
    NoDup (map (fun a => iname (iv_name a)) fields) ->
    Forall (fun kv => forall t, check_value doc (snd kv) t = [] -> vo (snd kv) t = true) fs ->
    fst (fst (input_object_check (check_value doc) fields fs)) = [] ->
    snd (fst (input_object_check (check_value doc) fields fs)) = true ->
    each_field vo fields fs = true /\
    forallb (fun fd => negb (is_required fd) || existsb (fun kv => str_eqb (iname (fst kv)) (iname (iv_name fd))) fs) fields = true.
  Proof.
    intros Hnd HIH. unfold input_object_check. cbn [fst snd]. intros Herrs Hok.
    apply andb_true_iff in Hok as [Hres Hext]. apply negb_true_iff, Nat.ltb_ge in Hext.
    rewrite (occ_sum_known fields fs Hnd) in Hext. apply filter_length_all in Hext.
    rewrite flat_map_nil in Herrs. split.
    - pose proof (entries_sound vo fields fs Hnd HIH Herrs Hext) as Hall.
      clear - Hall. induction fs as [|[k fv] r IH]; [reflexivity|]. cbn [each_field].
      destruct (Hall k fv (or_introl eq_refl)) as [fd [-> Hv]]. rewrite Hv. cbn [andb].
      apply IH. intros k' fv' Hin. apply Hall. right; exact Hin.
    - apply forallb_forall. intros fd Hfd. rewrite forallb_forall in Hres. specialize (Hres fd Hfd).
      rewrite <- iv_required_is. apply orb_true_iff in Hres as [Hp|Hr]; [|rewrite Hr; reflexivity].
      apply orb_true_iff. right. apply Nat.ltb_lt in Hp. apply occ_count_pos in Hp.
      apply existsb_exists. unfold keys_of in Hp. apply in_map_iff in Hp as [kv [Hkv Hin]].
      exists kv. split; [exact Hin | apply str_eqb_eq; exact Hkv].
  Qed.

  Lemma check_named_sound v t n :
    (forall q, v <> VNull q) -> (forall x q, v <> VVar x q) ->
    (forall p fs, v = VObject p fs ->
       Forall (fun kv => forall t, check_value doc (snd kv) t = [] -> value_ok true doc (snd kv) t = true) fs) ->
    check_named (check_value doc) doc v t n = [] -> named_ok (value_ok true doc) true doc v n = true.
  Proof.
    intros Hn Hv HIH. unfold check_named, named_ok. rewrite first_type_lookup.
    destruct (lookup_t doc (iname n)) as [td|] eqn:L; [|discriminate].
    apply lookup_t_In in L as [Lin Ln]. destruct td.
    - (* scalar *) intros H. cbn [typedef_name] in Ln. unfold tn in Ln. cbn [typedef_name] in Ln. rewrite Ln in H.
      apply app_eq_nil in H as [H1 H2].
      apply builtin_scalar_sound; [exact H1| |exact Hn|exact Hv].
      destruct (builtin_scalar_ok (iname n) v); [reflexivity | discriminate].
    - discriminate.
    - discriminate.
    - discriminate.
    - (* enum *) destruct v; try discriminate; [exfalso; eapply Hn; reflexivity|].
      intros H. apply forallb_negb_false. destruct (forallb _ vals); [discriminate | reflexivity].
    - (* input object *) destruct v; try discriminate; [exfalso; eapply Hn; reflexivity|].
      destruct (input_object_check (check_value doc) fields fs) as [[errs ok] info] eqn:E. intros H.
      apply app_eq_nil in H as [H1 H2]. destruct ok; [|discriminate].
      pose proof (input_object_sound (value_ok true doc) fields fs
                    (input_fields_nodup _ _ _ _ _ _ Lin) (HIH _ fs eq_refl)) as Hs.
      rewrite E in Hs. cbn [fst snd] in Hs. destruct (Hs H1 eq_refl) as [B C].
      rewrite B, C. reflexivity.
  Qed.

  Lemma value_sound v : forall t, check_value doc v t = [] -> value_ok true doc v t = true.
  Proof.
    induction v using value_ind'; intros t; induction t as [tn0|t IHt|tq t IHt];
      rewrite check_value_eq, value_ok_eq; try discriminate; intros Hc;
      try (apply IHt; exact Hc); try reflexivity;
      try (apply check_named_sound with (t := TNamed tn0); [intros; discriminate | intros; discriminate | intros ? ? Hq; discriminate Hq | exact Hc]).
    - (* list literal against a list type *)
      apply forallb_forall. intros e He. rewrite flat_map_nil in Hc. rewrite Forall_forall in H. apply H; [exact He | apply Hc; exact He].
    - (* object literal against a named type *)
      apply check_named_sound with (t := TNamed tn0); [intros; discriminate | intros; discriminate | | exact Hc].
      intros p' fs' Heq. injection Heq as <- <-. exact H.
  Qed.

  (** check_arguments = [] : known names, required arguments present, values fit -- for every occurrence of every
      argument (since 7d19234 an argument given twice has both values checked) *)
  Lemma check_arguments_sound ppos pname kind (a : directive) (d : directivedef) :
    NoDup (map (fun x => iname (iv_name x)) (args_of (dd_args d))) ->
    check_arguments doc ppos pname kind (dir_args a) (opt_list (dd_args d)) = [] ->
    app_args_ok true doc a d = true.
  Proof.
    intros Hnd. unfold app_args_ok. rewrite opt_list_args_of. fold (args_of (dd_args d)).
    set (defs := args_of (dd_args d)) in *. unfold check_arguments, app_args in *.
    set (al := match dir_args a with Some x => args_list x | None => [] end) in *.
    set (apos := match dir_args a with None => ppos | Some a0 => args_pos a0 end).
    intros H.
    assert (Hmain : flat_map (arg_errs doc al apos) defs = [] /\
                    (Nat.ltb (list_sum (map (fun d0 => occ_count (iname (iv_name d0)) al) defs)) (length al) = true ->
                     flat_map (fun kv : ident * value =>
                        if forallb (fun d0 => negb (str_eqb (iname (iv_name d0)) (iname (fst kv)))) defs
                        then [err (UnknownArgument (iname (fst kv))) (ipos (fst kv))] else []) al = [])).
    { subst al apos. destruct (dir_args a) as [ar|]; destruct defs as [|d0 defs'] eqn:Ed; try discriminate.
      - apply app_eq_nil in H as [H1 H2]. split; [exact H1|]. intros E. rewrite E in H2. exact H2.
      - split; [reflexivity|]. cbn. discriminate.
      - apply app_eq_nil in H as [H1 H2]. split; [exact H1|]. intros E. rewrite E in H2. exact H2. }
    clear H. destruct Hmain as [Herrs Htail]. rewrite flat_map_nil in Herrs.
    (* every given argument is declared *)
    assert (Hknown : forallb (known defs) al = true).
    { destruct (Nat.ltb _ (length al)) eqn:Elt.
      - specialize (Htail eq_refl). rewrite flat_map_nil in Htail. apply forallb_forall. intros kv Hkv. specialize (Htail kv Hkv).
        destruct (forallb (fun d1 => negb (str_eqb (iname (iv_name d1)) (iname (fst kv)))) defs) eqn:F; [discriminate|].
        apply forallb_negb_false in F. exact F.
      - apply Nat.ltb_ge in Elt. rewrite (occ_sum_known defs al Hnd) in Elt. apply filter_length_all. exact Elt. }
    (* no diagnostic from the occurrences of any definition *)
    assert (Hocc : forall d0, In d0 defs -> occ_errs (check_value doc) d0 al = []).
    { intros d0 Hd0. specialize (Herrs d0 Hd0). unfold arg_errs in Herrs.
      destruct (find_arg (iname (iv_name d0)) al) eqn:F; [exact Herrs|].
      apply occ_errs_nil. intros k fv Hin Hn. exfalso.
      assert (Hs : is_some (find_arg (iname (iv_name d0)) al) = true).
      { rewrite find_arg_some. apply mem_In. rewrite Hn. apply (in_map (fun kv => iname (fst kv)) al (k, fv)). exact Hin. }
      rewrite F in Hs. discriminate. }
    apply andb_true_iff. split.
    - apply forallb_forall. intros [k v] Hkv. cbn [fst snd].
      assert (HIH : Forall (fun kv : ident * value => forall t, check_value doc (snd kv) t = [] -> value_ok true doc (snd kv) t = true) al).
      { apply Forall_forall. intros kv _ t. apply value_sound. }
      destruct (entries_sound (value_ok true doc) defs al Hnd HIH Hocc Hknown k v Hkv) as [fd [-> Hv]]. exact Hv.
    - apply forallb_forall. intros ad Had. specialize (Herrs ad Had). unfold arg_errs in Herrs.
      rewrite <- iv_required_is.
      destruct (find_arg (iname (iv_name ad)) al) eqn:F.
      + assert (Hs : is_some (find_arg (iname (iv_name ad)) al) = true) by (rewrite F; reflexivity).
        rewrite find_arg_some in Hs. apply mem_In in Hs. apply orb_true_iff. right.
        apply existsb_exists. unfold keys_of in Hs. apply in_map_iff in Hs as [kv [Hkv Hin]].
        exists kv. split; [exact Hin | apply str_eqb_eq; exact Hkv].
      + destruct (iv_required ad); [discriminate | reflexivity].
  Qed.
End Values.
