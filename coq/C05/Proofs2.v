(** C05 — proofs, part 2: soundness of the rules about names, uniqueness, known types and
    input/output positions, interfaces and unions:  check_doc doc = [] -> rule respected. *)
From V Require Import Base.Util Gql.Ast C05.Model C05.Spec C05.Proofs.

Lemma reserved_starts_uu n : reserved n = starts_uu n.
Proof. reflexivity. Qed.
Lemma unsco_nil n : unsco n = [] -> reserved (iname n) = false.
Proof. unfold unsco. change (reserved (iname n)) with (starts_uu (iname n)). destruct (starts_uu (iname n)); [discriminate | reflexivity]. Qed.

Lemma typedef_unsco doc t : check_typedef doc t = [] -> unsco (typedef_name t) = [].
Proof. destruct t; cbn [check_typedef typedef_name]; intros H; split_nil H; assumption. Qed.

Lemma inout_kind_lookup doc n : inout_kind doc n = option_map kind_of_typedef (lookup_t doc n).
Proof. unfold inout_kind. rewrite first_type_lookup. reflexivity. Qed.
Lemma is_output_named_kind doc n :
  is_output_named doc n = option_map (fun t => is_output_kind (kind_of_typedef t)) (lookup_t doc n).
Proof. unfold is_output_named. destruct (lookup_t doc n) as [[]|]; reflexivity. Qed.
Lemma is_input_named_kind doc n :
  is_input_named doc n = option_map (fun t => is_input_kind (kind_of_typedef t)) (lookup_t doc n).
Proof. unfold is_input_named. destruct (lookup_t doc n) as [[]|]; reflexivity. Qed.

(** the three shapes of the type-position test *)
Lemma out_pos_nil doc (t : ty) :
  (match inout_kind doc (iname (ty_unwrapped t)) with
   | Some k => if is_output_kind k then [] else [err (NoInputType (iname (ty_unwrapped t))) (ty_pos t)]
   | None => [err (UnknownType (iname (ty_unwrapped t))) (ty_pos t)] end) = [] ->
  defined doc (base_name t) = true /\ is_output_named doc (base_name t) = Some true.
Proof.
  unfold defined, base_name. rewrite inout_kind_lookup, is_output_named_kind.
  destruct (lookup_t doc (iname (ty_unwrapped t))) as [td|]; cbn [option_map]; [|discriminate].
  destruct (is_output_kind (kind_of_typedef td)); [split; reflexivity | discriminate].
Qed.
Lemma in_pos_nil doc (t : ty) :
  (match inout_kind doc (iname (ty_unwrapped t)) with
   | None => [err (UnknownType (iname (ty_unwrapped t))) (ty_pos t)]
   | Some k => if is_input_kind k then [] else [err (NoOutputType (iname (ty_unwrapped t))) (ty_pos t)] end) = [] ->
  defined doc (base_name t) = true /\ is_input_named doc (base_name t) = Some true.
Proof.
  unfold defined, base_name. rewrite inout_kind_lookup, is_input_named_kind.
  destruct (lookup_t doc (iname (ty_unwrapped t))) as [td|]; cbn [option_map]; [|discriminate].
  destruct (is_input_kind (kind_of_typedef td)); [split; reflexivity | discriminate].
Qed.

Section Rules.
  Variable doc : tsdoc.
  Hypothesis Hchk : check_doc doc = [].

  Lemma field_facts f :
    In f (all_fields doc) ->
    reserved (iname (fd_name f)) = false /\ defined doc (base_name (fd_type f)) = true /\
    is_output_named doc (base_name (fd_type f)) = Some true.
  Proof.
    intros Hf. apply (clean_field doc Hchk) in Hf. unfold field_body in Hf. split_nil Hf.
    split; [apply unsco_nil; assumption|]. apply out_pos_nil. assumption.
  Qed.
  Lemma arg_facts l a :
    In l (all_arg_lists doc) -> In a l ->
    reserved (iname (iv_name a)) = false /\ defined doc (base_name (iv_type a)) = true /\
    is_input_named doc (base_name (iv_type a)) = Some true.
  Proof.
    intros Hl Ha. apply (clean_arg_list doc Hchk) in Hl. apply check_args_def_nil in Hl as [_ Hb].
    specialize (Hb a Ha). unfold args_def_body in Hb. split_nil Hb.
    split; [apply unsco_nil; assumption|]. apply in_pos_nil. assumption.
  Qed.
  Lemma input_field_facts l a :
    In l (all_input_field_lists doc) -> In a l ->
    reserved (iname (iv_name a)) = false /\ defined doc (base_name (iv_type a)) = true /\
    is_input_named doc (base_name (iv_type a)) = Some true.
  Proof.
    intros Hl Ha. apply (clean_input_field_list doc Hchk) in Hl. apply check_input_fields_nil in Hl as [_ Hb].
    specialize (Hb a Ha). unfold input_field_body in Hb. split_nil Hb.
    split; [apply unsco_nil; assumption|]. apply in_pos_nil. assumption.
  Qed.

  Lemma sound_reserved : ok_reserved doc = true.
  Proof.
    unfold ok_reserved. rewrite !andb_true_iff. repeat split; apply forallb_forall.
    - intros t Ht. apply negb_true_iff. apply unsco_nil. apply typedef_unsco with (doc := doc).
      apply check_nil_type; assumption.
    - intros d Hd. apply negb_true_iff. apply unsco_nil.
      pose proof (check_nil_directive doc d Hchk Hd) as H. unfold check_directive_def in H. split_nil H. assumption.
    - intros f Hf. apply negb_true_iff. apply field_facts. exact Hf.
    - intros l Hl. apply forallb_forall. intros a Ha. apply negb_true_iff. eapply arg_facts; eassumption.
    - intros l Hl. apply forallb_forall. intros a Ha. apply negb_true_iff. eapply input_field_facts; eassumption.
  Qed.

  Lemma sound_dup_field : ok_dup_field doc = true.
  Proof.
    unfold ok_dup_field. apply forallb_forall. intros [[n impls] fs] Hc. cbn [snd].
    apply nodup_str_NoDup. apply (clean_comp doc Hchk) in Hc as [_ [Hfs _]]. apply check_fields_nil in Hfs. tauto.
  Qed.
  Lemma sound_dup_arg : ok_dup_arg doc = true.
  Proof.
    unfold ok_dup_arg. apply forallb_forall. intros l Hl. apply nodup_str_NoDup.
    apply (clean_arg_list doc Hchk) in Hl. apply check_args_def_nil in Hl. tauto.
  Qed.
  Lemma sound_dup_input_field : ok_dup_input_field doc = true.
  Proof.
    unfold ok_dup_input_field. apply forallb_forall. intros l Hl. apply nodup_str_NoDup.
    apply (clean_input_field_list doc Hchk) in Hl. apply check_input_fields_nil in Hl. tauto.
  Qed.
  Lemma sound_dup_enum_value : ok_dup_enum_value doc = true.
  Proof.
    unfold ok_dup_enum_value. apply forallb_forall. intros t Ht.
    pose proof (check_nil_type doc t Hchk Ht) as H. destruct t; try reflexivity.
    cbn [check_typedef] in H. split_nil H. apply nodup_str_NoDup. apply check_enum_values_nil in H. tauto.
  Qed.
  Lemma union_members_nil d p n ds ms kw :
    In (TDUnion d p n ds ms kw) (types_of doc) -> check_members doc ms = [].
  Proof. intros Ht. pose proof (check_nil_type doc _ Hchk Ht) as H. cbn [check_typedef] in H. split_nil H. exact H. Qed.
  Lemma sound_dup_union_member : ok_dup_union_member doc = true.
  Proof.
    unfold ok_dup_union_member. apply forallb_forall. intros t Ht. destruct t; try reflexivity.
    apply nodup_str_NoDup. apply union_members_nil in Ht. apply check_members_nil in Ht. tauto.
  Qed.

  Lemma sound_input_in_output : ok_input_in_output doc = true.
  Proof.
    unfold ok_input_in_output. apply forallb_forall. intros f Hf.
    destruct (field_facts f Hf) as [_ [_ ->]]. reflexivity.
  Qed.
  Lemma sound_output_in_input : ok_output_in_input doc = true.
  Proof.
    unfold ok_output_in_input. rewrite andb_true_iff. split; apply forallb_forall; intros l Hl; apply forallb_forall; intros a Ha.
    - destruct (arg_facts l a Hl Ha) as [_ [_ ->]]. reflexivity.
    - destruct (input_field_facts l a Hl Ha) as [_ [_ ->]]. reflexivity.
  Qed.

  (** ** from here on the two lookups have to agree: unique names *)
  Hypothesis Huniq : unique_names doc = true.

  (** one entry of an `implements` list *)
  Lemma implements_entry b n fs impls i :
    check_implements doc b n fs impls = [] -> In i impls ->
    (b = true -> iname n <> iname i) /\
    exists d p n' ii ds ifs kw,
      lookup_t doc (iname i) = Some (TDInterface d p n' ii ds ifs kw) /\
      check_valid_implementation doc n fs impls n' ii ifs = [].
  Proof.
    unfold check_implements. rewrite flat_map_nil. intros H Hi. specialize (H i Hi).
    destruct (b && str_eqb (iname n) (iname i)) eqn:E; [discriminate|]. split.
    - intros ->. cbn [andb] in E. apply str_eqb_neq. exact E.
    - rewrite (last_type_lookup doc _ Huniq) in H.
      destruct (lookup_t doc (iname i)) as [[]|]; try discriminate. do 7 eexists. split; [reflexivity | exact H].
  Qed.

  Lemma member_entry d p n ds ms kw m :
    In (TDUnion d p n ds ms kw) (types_of doc) -> In m ms ->
    exists d' p' n' ii ds' fs kw', lookup_t doc (iname m) = Some (TDObject d' p' n' ii ds' fs kw').
  Proof.
    intros Ht Hm. apply union_members_nil in Ht. apply check_members_nil in Ht as [_ Hb]. specialize (Hb m Hm).
    unfold member_body in Hb. cbn [dup_err app] in Hb. rewrite (last_type_lookup doc _ Huniq) in Hb.
    destruct (lookup_t doc (iname m)) as [[]|]; try discriminate. do 7 eexists. reflexivity.
  Qed.

  Lemma sound_unknown_type : ok_unknown_type doc = true.
  Proof.
    unfold ok_unknown_type. rewrite !andb_true_iff. repeat split; apply forallb_forall.
    - intros f Hf. apply field_facts. exact Hf.
    - intros l Hl. apply forallb_forall. intros a Ha. eapply arg_facts; eassumption.
    - intros l Hl. apply forallb_forall. intros a Ha. eapply input_field_facts; eassumption.
    - intros [[n impls] fs] Hc. cbn [fst snd]. apply forallb_forall. intros i Hi.
      apply (clean_comp doc Hchk) in Hc as [_ [_ [b [Himp _]]]].
      destruct (implements_entry _ _ _ _ _ Himp Hi) as [_ [d [p [n' [ii [ds [ifs [kw [Hl _]]]]]]]]].
      unfold defined. rewrite Hl. reflexivity.
    - intros t Ht. destruct t; try reflexivity. apply forallb_forall. intros m Hm.
      destruct (member_entry _ _ _ _ _ _ _ Ht Hm) as [d' [p' [n' [ii [ds' [fs [kw' Hl]]]]]]].
      unfold defined. rewrite Hl. reflexivity.
  Qed.

  Lemma sound_not_interface : ok_not_interface doc = true.
  Proof.
    unfold ok_not_interface. apply forallb_forall. intros [[n impls] fs] Hc. cbn [fst snd]. apply forallb_forall. intros i Hi.
    apply (clean_comp doc Hchk) in Hc as [_ [_ [b [Himp _]]]].
    destruct (implements_entry _ _ _ _ _ Himp Hi) as [_ [d [p [n' [ii [ds [ifs [kw [Hl _]]]]]]]]].
    unfold is_interface. rewrite Hl. reflexivity.
  Qed.

  Lemma sound_implements_self : ok_implements_self doc = true.
  Proof.
    unfold ok_implements_self. apply forallb_forall. intros t Ht. destruct t; try reflexivity.
    apply negb_true_iff. apply not_true_iff_false. intros He. apply existsb_exists in He as [i [Hi He]].
    pose proof (check_nil_type doc _ Hchk Ht) as H. cbn [check_typedef] in H. split_nil H.
    destruct (implements_entry _ _ _ _ _ H Hi) as [Hne _]. apply str_eqb_eq in He. apply (Hne eq_refl). symmetry. exact He.
  Qed.

  Lemma sound_union_member_not_object : ok_union_member_not_object doc = true.
  Proof.
    unfold ok_union_member_not_object. apply forallb_forall. intros t Ht. destruct t; try reflexivity.
    apply forallb_forall. intros m Hm.
    destruct (member_entry _ _ _ _ _ _ _ Ht Hm) as [d' [p' [n' [ii [ds' [fs [kw' Hl]]]]]]]. rewrite Hl. reflexivity.
  Qed.
End Rules.
