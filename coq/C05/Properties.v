(** C05 — property theorems only.  Each is closed by [exact] of a lemma proved in Proofs*.v and followed by
    [Print Assumptions].  [check_doc] is the model of check_type_system_document (C05/Model.v) that the
    correspondence run ties to /repo; [spec_valid], [rule_ok] are the specification side (C05/Spec.v). *)
From V Require Import Base.Util Gql.Ast C05.Model C05.Spec C05.SpecExamples C05.Witness
     C05.Proofs C05.Proofs2 C05.Proofs3 C05.Proofs4 C05.Proofs5 C05.Proofs6 C05.Proofs7 C05.Proofs8
     C05.Proofs9 C05.Proofs10 C05.Proofs11 C05.Proofs12 C05.Proofs13.

(** no false alarm: a document valid under the specification gets no diagnostic *)
Theorem C05_complete : forall doc, spec_valid doc = true -> check_doc doc = [].
Proof. exact complete. Qed.
Print Assumptions C05_complete.

(** the former false alarm (an additional non-null argument with a default value) is gone: fe470c6 *)
Theorem C05_complete_extra_default_accepted :
  spec_valid Witness.w_extra_default = true /\ check_doc Witness.w_extra_default = [].
Proof. exact extra_default_accepted. Qed.
Print Assumptions C05_complete_extra_default_accepted.

(** every implemented rule is enforced, in the specification's reading: no diagnostics => the rule is respected.
    Premises: type names are unique (the specification's premise; nitrogql does not check it across kinds) and the
    built-in directive definitions are not redefined by the schema (nitrogql tolerates that; its two lookups then
    disagree for that name).  Uniqueness of the schema's own directive names is no premise any more (451006c): it is
    one of the rules. *)
Theorem C05_sound : forall doc,
  check_doc doc = [] -> unique_type_names doc = true -> builtins_not_redefined doc = true ->
  forall r, rule_ok r doc = true.
Proof. exact sound_all_weak. Qed.
Print Assumptions C05_sound.

(** exactness: on well-formed documents (unique type names, built-in directives not redefined, no application written
    with empty parentheses) the checker is silent exactly when the document respects every rule *)
Theorem C05_exact : forall doc, wf_doc doc = true ->
  (check_doc doc = [] <-> forall r, rule_ok r doc = true).
Proof.
  intros doc Hwf. unfold wf_doc in Hwf. rewrite !andb_true_iff in Hwf. destruct Hwf as [[Ht Hb] Hne]. split.
  - intros H. apply sound_all_weak; assumption.
  - intros HR. apply complete_rules; assumption.
Qed.
Print Assumptions C05_exact.

(** the rules that need no premise about the rest of the document *)
Theorem C05_sound_local : forall doc,
  check_doc doc = [] ->
  ok_reserved doc = true /\ ok_dup_field doc = true /\ ok_dup_arg doc = true /\ ok_dup_input_field doc = true /\
  ok_dup_enum_value doc = true /\ ok_dup_union_member doc = true /\ ok_input_in_output doc = true /\
  ok_output_in_input doc = true /\ ok_directive_unknown doc = true /\ ok_directive_misplaced doc = true /\
  ok_directive_repeated doc = true /\ ok_directive_args doc = true /\ ok_dup_directive doc = true.
Proof.
  intros doc H. repeat split.
  - exact (sound_reserved doc H). - exact (sound_dup_field doc H). - exact (sound_dup_arg doc H).
  - exact (sound_dup_input_field doc H). - exact (sound_dup_enum_value doc H). - exact (sound_dup_union_member doc H).
  - exact (sound_input_in_output doc H). - exact (sound_output_in_input doc H). - exact (sound_directive_unknown doc H).
  - exact (sound_directive_misplaced doc H). - exact (sound_directive_repeated doc H). - exact (sound_directive_args doc H).
  - exact (sound_dup_directive doc H).
Qed.
Print Assumptions C05_sound_local.

(** the three former deviations, now positive (fe470c6 above; 556742c, 2bc0346, 7d19234 here): the former witnesses
    violate the rule and are reported *)
Theorem C05_sound_directive_args_int_range_rejected :
  rule_ok RDirectiveArgs Witness.w_int_range = false /\ check_doc Witness.w_int_range <> [].
Proof. destruct int_range_rejected as [A [B C]]. split; [exact A | rewrite B; exact C]. Qed.
Print Assumptions C05_sound_directive_args_int_range_rejected.
Theorem C05_sound_directive_recursive_nested_rejected :
  rule_ok RDirectiveRecursive Witness.w_nested = false /\ check_doc Witness.w_nested <> [] /\
  rule_ok RDirectiveRecursive Witness.w_input_cycle_rec = false /\ check_doc Witness.w_input_cycle_rec <> [] /\
  spec_valid Witness.w_input_cycle = true /\ check_doc Witness.w_input_cycle = [].
Proof.
  destruct nested_recursion_rejected as [A [B C]]. destruct input_cycle_recursion_rejected as [A' [B' C']].
  destruct input_cycle_alone_accepted as [D E].
  split; [exact A|]. split; [rewrite B; exact C|]. split; [exact A'|]. split; [rewrite B'; exact C'|]. split; assumption.
Qed.
Print Assumptions C05_sound_directive_recursive_nested_rejected.
Theorem C05_sound_directive_args_duplicate_rejected :
  rule_ok RDirectiveArgs Witness.w_dup_arg_ill_typed = false /\ check_doc Witness.w_dup_arg_ill_typed <> [].
Proof. destruct dup_arg_ill_typed_rejected as [A [B C]]. split; [exact A | rewrite B; exact C]. Qed.
Print Assumptions C05_sound_directive_args_duplicate_rejected.

(** the directive-recursion search is exact on the graph it walks, and the fuel the model gives it suffices *)
Theorem C05_directive_recursion_exact : forall doc d,
  unique_names doc = true -> In d (directives_of doc) ->
  (check_directive_recursion doc d = [] <-> forall n y, reach doc (S n) d y -> dname y <> dname d).
Proof.
  intros doc d Hu Hd. split.
  - intros H. apply recursion_search_complete; [|exact H]. unfold canon, dname.
    rewrite (last_directive_lookup doc _ Hu). apply lookup_d_self; assumption.
  - apply recursion_search_sound. exact Hd.
Qed.
Print Assumptions C05_directive_recursion_exact.
Theorem C05_recursion_fuel_enough : forall doc d e,
  In d (directives_of doc) -> In e (check_directive_recursion doc d) -> e_msg e <> EOutOfFuel.
Proof. intros doc d e Hd He. exact (recursion_search_fuel doc d Hd e He). Qed.
Print Assumptions C05_recursion_fuel_enough.

Theorem C05_type_traversal_fuel_enough : forall doc d, next_of_fuel_ok doc d = true.
Proof. exact next_of_fuel_enough. Qed.
Print Assumptions C05_type_traversal_fuel_enough.

(** is_subtype decides the specification's IsValidImplementationFieldType on defined types *)
Theorem C05_is_subtype_covariant_correct : forall doc a b,
  check_doc doc = [] -> unique_names doc = true ->
  defined doc (base_name a) = true -> defined doc (base_name b) = true ->
  (is_subtype doc a b = Some true <-> valid_impl_field_type doc a b = true).
Proof.
  intros doc a b Hc Hu Da Db. split; [apply is_subtype_true; assumption|]. intros H.
  pose proof (is_subtype_complete doc a b H) as Hn.
  destruct (is_subtype doc a b) as [[]|] eqn:E; [reflexivity | exfalso; apply Hn; reflexivity|].
  apply is_subtype_none in E as [E|E]; congruence.
Qed.
Print Assumptions C05_is_subtype_covariant_correct.

(** an accepted document has no `implements` cycle, of any length (spec 3.7: an interface may not implement itself,
    and a type must declare every interface its interfaces implement) *)
Theorem C05_no_implements_cycle : forall doc,
  check_doc doc = [] -> unique_names doc = true -> implements_acyclic doc.
Proof. exact no_implements_cycle. Qed.
Print Assumptions C05_no_implements_cycle.

(** two definitions of one kind with one name never get past resolve_schema_extensions *)
Theorem C05_resolve_rejects_same_kind_dup : forall doc, same_kind_dup doc = true -> resolve_fails doc = true.
Proof. exact resolve_rejects_same_kind_dup. Qed.
Print Assumptions C05_resolve_rejects_same_kind_dup.
