(** C05 — the specification side checked against the specification's own examples
    (GraphQL October 2021: the List input-coercion table of section 3.11, Int range of 3.5.1,
    Non-Null of 3.12, IsValidImplementationFieldType of 3.6). *)
From V Require Import Base.Util Gql.Ast C05.Spec.

Definition ex_id (x : String.string) : ident := mkId (s x) pos0.
Arguments ex_id x%string_scope.
Definition ex_kw0 : keyword := mkKw [] pos0.
Definition ex_scalar (x : String.string) : tsdef := TSType (TDScalar None pos0 (ex_id x) [] ex_kw0).
Arguments ex_scalar x%string_scope.
Definition ex_fld (x : String.string) (t : ty) : fielddef := mkFieldDef None (ex_id x) None t [].
Arguments ex_fld x%string_scope t.

Definition ex_doc : tsdoc :=
  [ex_scalar "Int"; ex_scalar "String"; ex_scalar "Boolean";
   TSType (TDInterface None pos0 (ex_id "Node") [] [] [ex_fld "id" (TNamed (ex_id "Int"))] ex_kw0);
   TSType (TDInterface None pos0 (ex_id "Res") [ex_id "Node"] [] [ex_fld "id" (TNamed (ex_id "Int"))] ex_kw0);
   TSType (TDObject None pos0 (ex_id "A") [ex_id "Res"; ex_id "Node"] [] [ex_fld "id" (TNamed (ex_id "Int"))] ex_kw0);
   TSType (TDObject None pos0 (ex_id "B") [] [] [ex_fld "id" (TNamed (ex_id "Int"))] ex_kw0);
   TSType (TDUnion None pos0 (ex_id "U") [] [ex_id "A"] ex_kw0)].

Definition ex_int := TNamed (ex_id "Int").
Definition ex_list (t : ty) := TList pos0 t.
Definition ex_n1 := VInt pos0 (s "1"). Definition ex_n2 := VInt pos0 (s "2"). Definition ex_n3 := VInt pos0 (s "3").
Definition ex_vl (l : list value) := VList pos0 l.
Definition ex_ok (v : value) (t : ty) : bool := value_ok true ex_doc v t.

(** 3.11, Input Coercion table *)
Example list_row1 : ex_ok (ex_vl [ex_n1; ex_n2; ex_n3]) (ex_list ex_int) = true. Proof. reflexivity. Qed.
Example list_row2 : ex_ok (ex_vl [ex_n1; VString pos0 (s "b"); VBool pos0 true]) (ex_list ex_int) = false. Proof. reflexivity. Qed.
Example list_row3 : ex_ok ex_n1 (ex_list ex_int) = true. Proof. reflexivity. Qed.
Example list_row4 : ex_ok (VNull pos0) (ex_list ex_int) = true. Proof. reflexivity. Qed.
Example list_row5 : ex_ok (ex_vl [ex_vl [ex_n1]; ex_vl [ex_n2; ex_n3]]) (ex_list (ex_list ex_int)) = true. Proof. reflexivity. Qed.
Example list_row6 : ex_ok (ex_vl [ex_n1; ex_n2; ex_n3]) (ex_list (ex_list ex_int)) = true. Proof. reflexivity. Qed.
Example list_row7 : ex_ok ex_n1 (ex_list (ex_list ex_int)) = true. Proof. reflexivity. Qed.
Example list_row8 : ex_ok (VNull pos0) (ex_list (ex_list ex_int)) = true. Proof. reflexivity. Qed.
(** 3.12: `[Int!]` does not accept `[1, null]`, `[Int]!` does not accept `null`, `[Int]` accepts `[1, null]` *)
Example nonnull_item : ex_ok (ex_vl [ex_n1; VNull pos0]) (ex_list (TNonNull ex_int)) = false. Proof. reflexivity. Qed.
Example nonnull_list : ex_ok (VNull pos0) (TNonNull (ex_list ex_int)) = false. Proof. reflexivity. Qed.
Example nullable_item : ex_ok (ex_vl [ex_n1; VNull pos0]) (ex_list ex_int) = true. Proof. reflexivity. Qed.
(** 3.5.1: Int is a signed 32-bit integer; a string is not an Int; variables are not constants *)
Example int_max : ex_ok (VInt pos0 (s "2147483647")) ex_int = true. Proof. reflexivity. Qed.
Example int_over : ex_ok (VInt pos0 (s "2147483648")) ex_int = false. Proof. reflexivity. Qed.
Example int_min : ex_ok (VInt pos0 (s "-2147483648")) ex_int = true. Proof. reflexivity. Qed.
Example int_under : ex_ok (VInt pos0 (s "-2147483649")) ex_int = false. Proof. reflexivity. Qed.
Example int_string : ex_ok (VString pos0 (s "1")) ex_int = false. Proof. reflexivity. Qed.
Example no_variable : ex_ok (VVar (s "v") pos0) ex_int = false. Proof. reflexivity. Qed.

(** 3.6, IsValidImplementationFieldType *)
Definition ex_vi (a b : ty) : bool := valid_impl_field_type ex_doc a b.
Definition ex_named (x : String.string) := TNamed (ex_id x).
Arguments ex_named x%string_scope.
Example impl_same : ex_vi (ex_named "Int") (ex_named "Int") = true. Proof. reflexivity. Qed.
Example impl_nonnull_of_nullable : ex_vi (TNonNull (ex_named "Int")) (ex_named "Int") = true. Proof. reflexivity. Qed.
Example impl_nullable_of_nonnull : ex_vi (ex_named "Int") (TNonNull (ex_named "Int")) = false. Proof. reflexivity. Qed.
Example impl_list_items : ex_vi (ex_list (TNonNull (ex_named "A"))) (ex_list (ex_named "Node")) = true. Proof. reflexivity. Qed.
Example impl_list_vs_named : ex_vi (ex_list (ex_named "Int")) (ex_named "Int") = false. Proof. reflexivity. Qed.
Example impl_object_of_union : ex_vi (ex_named "A") (ex_named "U") = true. Proof. reflexivity. Qed.
Example impl_nonmember_of_union : ex_vi (ex_named "B") (ex_named "U") = false. Proof. reflexivity. Qed.
Example impl_object_of_interface : ex_vi (ex_named "A") (ex_named "Node") = true. Proof. reflexivity. Qed.
Example impl_interface_of_interface : ex_vi (ex_named "Res") (ex_named "Node") = true. Proof. reflexivity. Qed.
Example impl_undeclared : ex_vi (ex_named "B") (ex_named "Node") = false. Proof. reflexivity. Qed.
Example impl_other_scalar : ex_vi (ex_named "String") (ex_named "Int") = false. Proof. reflexivity. Qed.
