(** C05 — proofs, part 9 (completeness, literals): a constant the specification accepts for a type gets
    no diagnostic from check_value; an application the specification accepts gets none from check_arguments. *)
From V Require Import Base.Util Gql.Ast C05.Model C05.Spec C05.Proofs C05.Proofs2 C05.Proofs3 C05.Proofs4.

Lemma builtin_scalar_complete n v :
  (if str_eqb n (s "Int") then (match v with VInt _ x => negb true || int32 x | _ => false end)
   else if str_eqb n (s "Float") then (match v with VInt _ _ | VFloat _ _ => true | _ => false end)
   else if str_eqb n (s "String") then (match v with VString _ _ => true | _ => false end)
   else if str_eqb n (s "Boolean") then (match v with VBool _ _ => true | _ => false end)
   else if str_eqb n (s "ID") then (match v with VString _ _ | VInt _ _ => true | _ => false end)
   else true) = true ->
  builtin_scalar_ok n v = true.
Proof.
  unfold builtin_scalar_ok.
  destruct (str_eqb n (s "Boolean")) eqn:E1.
  { apply str_eqb_eq in E1. subst n. cbn. destruct v; try reflexivity; discriminate. }
  destruct (str_eqb n (s "Int")) eqn:E2; [destruct v; try reflexivity; try discriminate; intros H; rewrite parses_as_i32_int32; exact H|].
  destruct (str_eqb n (s "Float")) eqn:E3; [destruct v; try reflexivity; discriminate|].
  destruct (str_eqb n (s "String")) eqn:E4; [destruct v; try reflexivity; discriminate|].
  destruct (str_eqb n (s "ID")) eqn:E5; [destruct v; try reflexivity; discriminate|].
  reflexivity.
Qed.

Lemma existsb_forallb_negb {A} (f : A -> bool) l : existsb f l = true -> forallb (fun x => negb (f x)) l = false.
Proof.
  induction l as [|a l IH]; cbn [forallb existsb]; [discriminate|].
  destruct (f a); cbn [negb andb orb]; [reflexivity | exact IH].
Qed.

(** unique definitions: looking a name up returns the definition we already hold *)
Lemma arg_named_unique l a :
  NoDup (map (fun x => iname (iv_name x)) l) -> In a l -> arg_named l (iname (iv_name a)) = Some a.
Proof.
  unfold arg_named. induction l as [|x l IH]; intros Hnd Hin; [contradiction|]. cbn [find map] in *.
  inversion Hnd as [|? ? Hx Hl]; subst. destruct Hin as [->|Hin]; [rewrite str_eqb_refl; reflexivity|].
  destruct (str_eqb (iname (iv_name x)) (iname (iv_name a))) eqn:E; [|apply IH; assumption].
  exfalso. apply Hx. apply str_eqb_eq in E. rewrite E. apply (in_map (fun x => iname (iv_name x))). exact Hin.
Qed.

Lemma each_field_In vo fields fs k fv :
  each_field vo fields fs = true -> In (k, fv) fs ->
  exists fd, arg_named fields (iname k) = Some fd /\ vo fv (iv_type fd) = true.
Proof.
  induction fs as [|[k' fv'] r IH]; intros H Hin; [contradiction|]. cbn [each_field] in H.
  apply andb_true_iff in H as [H1 H2]. destruct Hin as [Heq|Hin]; [|apply IH; assumption].
  injection Heq as -> ->. destruct (arg_named fields (iname k)) as [fd|]; [|discriminate]. exists fd. split; [reflexivity | exact H1].
Qed.

Lemma look_field_none cv ef fs : look_field cv ef fs = None -> ~ In (iname (iv_name ef)) (keys_of fs).
Proof.
  intros H Hin. apply mem_In in Hin. rewrite <- (look_field_some cv ef fs), H in Hin. discriminate.
Qed.
Lemma look_field_some_In cv ef fs es :
  look_field cv ef fs = Some es -> exists k fv, In (k, fv) fs /\ iname (iv_name ef) = iname k /\ es = cv fv (iv_type ef).
Proof.
  induction fs as [|[k fv] r IH]; [discriminate|]. cbn [look_field].
  destruct (str_eqb (iname (iv_name ef)) (iname k)) eqn:E.
  - intros H. injection H as <-. exists k, fv. split; [left; reflexivity|]. split; [apply str_eqb_eq; exact E | reflexivity].
  - intros H. destruct (IH H) as [k' [fv' [Hin Hrest]]]. exists k', fv'. split; [right; exact Hin | exact Hrest].
Qed.

Section ValuesComplete.
  Variable doc : tsdoc.
  Hypothesis Hdupin : ok_dup_input_field doc = true.
  Hypothesis Hunk : ok_unknown_type doc = true.
  Hypothesis Hoi : ok_output_in_input doc = true.

  Definition input_ty (t : ty) : Prop := is_input_named doc (base_name t) = Some true.

  Lemma input_field_input_ty d p n ds fields kw fd :
    In (TDInput d p n ds fields kw) (types_of doc) -> In fd fields -> input_ty (iv_type fd).
  Proof.
    intros Ht Hfd. unfold input_ty.
    assert (Hl : In fields (all_input_field_lists doc)).
    { unfold all_input_field_lists. apply in_flat_map. exists (TDInput d p n ds fields kw). split; [exact Ht | left; reflexivity]. }
    unfold ok_unknown_type in Hunk. rewrite !andb_true_iff in Hunk. destruct Hunk as [[[[_ _] H3] _] _].
    rewrite forallb_forall in H3. specialize (H3 fields Hl). rewrite forallb_forall in H3. specialize (H3 fd Hfd).
    unfold ok_output_in_input in Hoi. rewrite andb_true_iff in Hoi. destruct Hoi as [_ H5].
    rewrite forallb_forall in H5. specialize (H5 fields Hl). rewrite forallb_forall in H5. specialize (H5 fd Hfd).
    unfold defined in H3. unfold is_input_named in *. destruct (lookup_t doc (base_name (iv_type fd))) as [[]|]; try discriminate; reflexivity.
  Qed.

  Lemma input_fields_nodup' d p n ds fields kw :
    In (TDInput d p n ds fields kw) (types_of doc) -> NoDup (map (fun a => iname (iv_name a)) fields).
  Proof.
    intros Ht. unfold ok_dup_input_field in Hdupin. rewrite forallb_forall in Hdupin. apply nodup_str_NoDup. apply Hdupin.
    unfold all_input_field_lists. apply in_flat_map. exists (TDInput d p n ds fields kw). split; [exact Ht | left; reflexivity].
  Qed.

  Lemma input_object_complete (cv : value -> ty -> list cerr) (vo : value -> ty -> bool) fields fs :
    NoDup (map (fun a => iname (iv_name a)) fields) ->
    (forall fd, In fd fields -> input_ty (iv_type fd)) ->
    Forall (fun kv => forall t, input_ty t -> vo (snd kv) t = true -> cv (snd kv) t = []) fs ->
    nodup_str (keys_of fs) = true -> each_field vo fields fs = true ->
    forallb (fun fd => negb (is_required fd) || existsb (fun kv => str_eqb (iname (fst kv)) (iname (iv_name fd))) fs) fields = true ->
    fst (fst (input_object_check cv fields fs)) = [] /\ snd (fst (input_object_check cv fields fs)) = true.
  Proof.
    intros Hnd Hity HIH Hkeys Heach Hreq. apply nodup_str_NoDup in Hkeys. unfold input_object_check. cbn [fst snd]. split.
    - apply flat_map_nil. intros ef Hef. destruct (look_field cv ef fs) as [es|] eqn:L; [|reflexivity].
      apply look_field_some_In in L as [k [fv [Hin [Hname ->]]]].
      destruct (each_field_In vo fields fs k fv Heach Hin) as [fd [Hfd Hv]].
      rewrite <- Hname, (arg_named_unique fields ef Hnd Hef) in Hfd. injection Hfd as <-.
      rewrite Forall_forall in HIH. apply (HIH (k, fv) Hin); [apply Hity; exact Hef | exact Hv].
    - apply andb_true_iff. split.
      + apply forallb_forall. intros ef Hef. destruct (look_field cv ef fs) eqn:L; [reflexivity|].
        apply look_field_none in L. rewrite forallb_forall in Hreq. specialize (Hreq ef Hef). rewrite iv_required_is.
        apply orb_true_iff in Hreq as [H|H]; [exact H|]. exfalso. apply L. apply existsb_exists in H as [kv [Hkv He]].
        apply str_eqb_eq in He. rewrite <- He. apply (in_map (fun kv => iname (fst kv))). exact Hkv.
      + apply negb_true_iff. apply Nat.ltb_ge.
        assert (Hcount : length (filter (fun ef => is_some (look_field cv ef fs)) fields)
                         = length (filter (fun n => mem n (keys_of fs)) (map (fun a => iname (iv_name a)) fields))).
        { rewrite <- filter_map_comm, map_length. f_equal. apply filter_ext. intros a. apply look_field_some. }
        rewrite Hcount. replace (length fs) with (length (keys_of fs)) by apply map_length.
        apply NoDup_incl_length; [exact Hkeys|]. intros k Hk. apply filter_In. split; [|apply mem_In; exact Hk].
        unfold keys_of in Hk. apply in_map_iff in Hk as [[k' fv] [<- Hin]]. cbn [fst].
        destruct (each_field_In vo fields fs k' fv Heach Hin) as [fd [Hfd _]]. apply arg_named_some in Hfd as [Hfdin Hn].
        rewrite <- Hn. apply (in_map (fun a => iname (iv_name a))). exact Hfdin.
  Qed.

  Lemma builtin_scalar_null n p : builtin_scalar_ok n (VNull p) = true.
  Proof. unfold builtin_scalar_ok. repeat (destruct (str_eqb n _); [reflexivity|]). reflexivity. Qed.

  Lemma check_named_complete v t n :
    (forall x q, v <> VVar x q) ->
    (forall p fs, v = VObject p fs ->
       Forall (fun kv => forall t, input_ty t -> value_ok true doc (snd kv) t = true -> check_value doc (snd kv) t = []) fs) ->
    is_input_named doc (iname n) = Some true ->
    (match v with VNull _ => True | _ => named_ok (value_ok true doc) true doc v n = true end) ->
    check_named (check_value doc) doc v t n = [].
  Proof.
    intros Hv HIH Hin. unfold check_named, named_ok, is_input_named in *. rewrite first_type_lookup.
    destruct (lookup_t doc (iname n)) as [td|] eqn:L; [|discriminate].
    apply lookup_t_In in L as [Lin Ln]. destruct td; try discriminate.
    - intros H. unfold tn in Ln. cbn [typedef_name] in Ln. rewrite Ln.
      assert (Hb : builtin_scalar_ok (iname n) v = true).
      { destruct v; try (apply builtin_scalar_complete; exact H); apply builtin_scalar_null. }
      rewrite Hb. reflexivity.
    - destruct v; try discriminate; [reflexivity|]. intros H. rewrite (existsb_forallb_negb _ _ H). reflexivity.
    - destruct v; try discriminate; [reflexivity|]. intros H. apply andb_true_iff in H as [H H3]. apply andb_true_iff in H as [H1 H2].
      destruct (input_object_complete (check_value doc) (value_ok true doc) fields fs
                  (input_fields_nodup' _ _ _ _ _ _ Lin) (fun fd Hfd => input_field_input_ty _ _ _ _ _ _ fd Lin Hfd)
                  (HIH _ fs eq_refl) H1 H2 H3) as [A B].
      destruct (input_object_check (check_value doc) fields fs) as [[errs ok] info]. cbn [fst snd] in A, B. subst. reflexivity.
  Qed.

  Lemma value_complete v : forall t, input_ty t -> value_ok true doc v t = true -> check_value doc v t = [].
  Proof.
    induction v using value_ind'; intros t; induction t as [tn0|t IHt|tq t IHt]; intros Hity;
      rewrite check_value_eq, value_ok_eq; try discriminate; intros Hc;
      try (apply IHt; [exact Hity | exact Hc]); try reflexivity;
      try (apply check_named_complete; [intros; discriminate | intros ? ? Hq; discriminate Hq | exact Hity | exact Hc]);
      try (apply check_named_complete; [intros; discriminate | intros ? ? Hq; discriminate Hq | exact Hity | exact I]).
    - apply flat_map_nil. intros e He. rewrite forallb_forall in Hc. rewrite Forall_forall in H. apply H; [exact He | exact Hity | apply Hc; exact He].
    - apply check_named_complete; [intros; discriminate | | exact Hity | exact Hc].
      intros p' fs' Heq. injection Heq as <- <-. exact H.
  Qed.

  Lemma find_arg_some_In n al v : find_arg n al = Some v -> exists k, In (k, v) al /\ n = iname k.
  Proof.
    induction al as [|[k v'] r IH]; [discriminate|]. cbn [find_arg]. destruct (str_eqb n (iname k)) eqn:E.
    - intros H. injection H as <-. exists k. split; [left; reflexivity | apply str_eqb_eq; exact E].
    - intros H. destruct (IH H) as [k' [Hin Hn]]. exists k'. split; [right; exact Hin | exact Hn].
  Qed.

  Lemma check_arguments_complete ppos pname kind (a : directive) (d : directivedef) :
    NoDup (map (fun x => iname (iv_name x)) (args_of (dd_args d))) ->
    (forall ad, In ad (args_of (dd_args d)) -> input_ty (iv_type ad)) ->
    NoDup (keys_of (app_args a)) ->
    (match dir_args a with Some x => args_list x <> [] | None => True end) ->
    app_args_ok true doc a d = true ->
    check_arguments doc ppos pname kind (dir_args a) (opt_list (dd_args d)) = [].
  Proof.
    intros Hnd Hity Hkeys Hne. revert Hnd Hity Hkeys.
    intros Hnd Hity Hkeys.
    unfold app_args_ok. rewrite opt_list_args_of. fold (args_of (dd_args d)).
    set (defs := args_of (dd_args d)) in *. intros H. apply andb_true_iff in H as [Hgiven Hreq].
    rewrite forallb_forall in Hgiven, Hreq.
    unfold check_arguments, app_args in *.
    set (al := match dir_args a with Some x => args_list x | None => [] end) in *.
    set (apos := match dir_args a with None => ppos | Some a0 => args_pos a0 end).
    assert (Hknown : forall k v, In (k, v) al -> exists ad, arg_named defs (iname k) = Some ad /\ value_ok true doc v (iv_type ad) = true).
    { intros k v Hin. specialize (Hgiven (k, v) Hin). cbn [fst snd] in Hgiven.
      destruct (arg_named defs (iname k)) as [ad|]; [exists ad; split; [reflexivity | exact Hgiven] | discriminate]. }
    assert (Herrs : flat_map (arg_errs doc al apos) defs = []).
    { apply flat_map_nil. intros ad Had. unfold arg_errs. destruct (find_arg (iname (iv_name ad)) al) as [v|] eqn:F.
      - apply find_arg_some_In in F as [k [Hin Hn]]. destruct (Hknown k v Hin) as [ad' [Had' Hv]].
        rewrite <- Hn, (arg_named_unique defs ad Hnd Had) in Had'. injection Had' as <-. apply value_complete; [apply Hity; exact Had | exact Hv].
      - specialize (Hreq ad Had). rewrite iv_required_is. apply orb_true_iff in Hreq as [Hr|Hr].
        + apply negb_true_iff in Hr. rewrite Hr. reflexivity.
        + exfalso. apply existsb_exists in Hr as [[k v] [Hkv He]]. cbn [fst] in He. apply str_eqb_eq in He.
          assert (Hs : is_some (find_arg (iname (iv_name ad)) al) = true).
          { rewrite find_arg_some. apply mem_In. rewrite <- He. apply (in_map (fun kv => iname (fst kv)) al (k, v)). exact Hkv. }
          rewrite F in Hs. discriminate. }
    assert (Htail : flat_map (fun kv : ident * value =>
                       if forallb (fun d0 => negb (str_eqb (iname (iv_name d0)) (iname (fst kv)))) defs
                       then [err (UnknownArgument (iname (fst kv))) (ipos (fst kv))] else []) al = []).
    { apply flat_map_nil. intros [k v] Hin. cbn [fst]. destruct (Hknown k v Hin) as [ad [Had _]].
      apply arg_named_some in Had as [Hadin Hn].
      rewrite (existsb_forallb_negb (fun d0 => str_eqb (iname (iv_name d0)) (iname k)) defs); [reflexivity|].
      apply existsb_exists. exists ad. split; [exact Hadin | apply str_eqb_eq; exact Hn]. }
    subst al apos. destruct (dir_args a) as [ar|] eqn:Ea; destruct defs as [|d0 defs'] eqn:Ed.
    - (* arguments given, none declared: the first given argument is unknown *)
      exfalso. destruct (args_list ar) as [|[k v] r] eqn:Eal.
      + exact (Hne eq_refl).
      + destruct (Hknown k v (or_introl eq_refl)) as [ad [Had _]]. discriminate.
    - rewrite Herrs, Htail. cbn [app]. destruct (Nat.ltb _ _); reflexivity.
    - reflexivity.
    - rewrite Herrs. cbn [app length]. destruct (Nat.ltb _ 0) eqn:E; [apply Nat.ltb_lt in E; lia | reflexivity].
  Qed.
End ValuesComplete.
