(** C05 — proofs, part 9 (completeness, literals): a constant the specification accepts for a type gets
    no diagnostic from check_value; an application the specification accepts gets none from check_arguments. *)
From V Require Import Base.Util Gql.Ast C05.Model C05.Spec C05.Proofs C05.Proofs2 C05.Proofs3 C05.Proofs4.

Lemma builtin_scalar_complete n v :
  (if str_eqb n (s "Int") then (match v with VInt _ x => negb true || int32 x | _ => false end)
   else if str_eqb n (s "Float") then (match v with VInt _ _ | VFloat _ _ => true | _ => false end)
   else if str_eqb n (s "String") then (match v with VString _ _ => true | _ => false end)
   else if str_eqb n (s "Boolean") then (match v with VBool _ _ => true | _ => false end)
   else if str_eqb n (s "ID") then (match v with VString _ _ | VInt _ _ => true | _ => false end)
   else no_vars v) = true ->
  builtin_scalar_ok n v = true /\ (if is_builtin_scalar_name n then [] else vars_in_value v) = [].
Proof.
  unfold builtin_scalar_ok, is_builtin_scalar_name.
  destruct (str_eqb n (s "Boolean")) eqn:E1.
  { apply str_eqb_eq in E1. subst n. cbn. destruct v; intros H; try discriminate; split; reflexivity. }
  destruct (str_eqb n (s "Int")) eqn:E2.
  { cbn [orb]. destruct v; intros H; try discriminate; split; try reflexivity. rewrite parses_as_i32_int32. exact H. }
  destruct (str_eqb n (s "Float")) eqn:E3; [cbn [orb]; destruct v; intros H; try discriminate; split; reflexivity|].
  destruct (str_eqb n (s "String")) eqn:E4; [cbn [orb]; destruct v; intros H; try discriminate; split; reflexivity|].
  destruct (str_eqb n (s "ID")) eqn:E5; [cbn [orb]; destruct v; intros H; try discriminate; split; reflexivity|].
  cbn [orb]. intros H. split; [reflexivity | apply vars_nil_no_vars; exact H].
Qed.

Lemma existsb_forallb_negb {A} (f : A -> bool) l : existsb f l = true -> forallb (fun x => negb (f x)) l = false.
Proof.
  induction l as [|a l IH]; cbn [forallb existsb]; [discriminate|].
  destruct (f a); cbn [negb andb orb]; [reflexivity | exact IH].
Qed.

Lemma each_field_In vo fields fs k fv :
  each_field vo fields fs = true -> In (k, fv) fs ->
  exists fd, arg_named fields (iname k) = Some fd /\ vo fv (iv_type fd) = true.
Proof.
  induction fs as [|[k' fv'] r IH]; intros H Hin; [contradiction|]. cbn [each_field] in H.
  apply andb_true_iff in H as [H1 H2]. destruct Hin as [Heq|Hin]; [|apply IH; assumption].
  injection Heq as -> ->. destruct (arg_named fields (iname k)) as [fd|]; [|discriminate]. exists fd. split; [reflexivity | exact H1].
Qed.

Lemma expected_ty_nonvar d v : (forall x q, v <> VVar x q) -> expected_ty d v = iv_type d.
Proof. intros H. unfold expected_ty. destruct (iv_type d), v; try reflexivity. exfalso. eapply H. reflexivity. Qed.
Lemma value_ok_nonvar b doc v t : value_ok b doc v t = true -> forall x q, v <> VVar x q.
Proof. rewrite value_ok_eq. intros H x q ->. discriminate. Qed.

Lemma known_of_named defs kv ad : arg_named defs (iname (fst kv)) = Some ad -> known defs kv = true.
Proof.
  intros H. apply arg_named_some in H as [Hin Hn]. unfold known. apply existsb_exists. exists ad. split; [exact Hin | apply str_eqb_eq; exact Hn].
Qed.
Lemma forallb_filter_length {A} (p : A -> bool) l : forallb p l = true -> length (filter p l) = length l.
Proof. induction l as [|a l IH]; cbn [forallb filter length]; [reflexivity|]. destruct (p a); cbn [andb length]; [intros H; rewrite IH; auto | discriminate]. Qed.

Section ValuesComplete.
  Variable doc : tsdoc.
  Hypothesis Hdupin : ok_dup_input_field doc = true.
  Hypothesis Hunk : ok_unknown_type doc = true.
  Hypothesis Hoi : ok_output_in_input doc = true.

  Definition input_ty (t : ty) : Prop := is_input_named doc (base_name t) = Some true.

  Lemma input_field_input_ty d p n ds fields kw fd :
    In (TDInput d p n ds fields kw) (types_of doc) -> In fd fields -> input_ty (iv_type fd).
  Proof.
    intros Ht Hfd. unfold input_ty.
    assert (Hl : In fields (all_input_field_lists doc)).
    { unfold all_input_field_lists. apply in_flat_map. exists (TDInput d p n ds fields kw). split; [exact Ht | left; reflexivity]. }
    unfold ok_unknown_type in Hunk. rewrite !andb_true_iff in Hunk. destruct Hunk as [[[[_ _] H3] _] _].
    rewrite forallb_forall in H3. specialize (H3 fields Hl). rewrite forallb_forall in H3. specialize (H3 fd Hfd).
    unfold ok_output_in_input in Hoi. rewrite andb_true_iff in Hoi. destruct Hoi as [_ H5].
    rewrite forallb_forall in H5. specialize (H5 fields Hl). rewrite forallb_forall in H5. specialize (H5 fd Hfd).
    unfold defined in H3. unfold is_input_named in *. destruct (lookup_t doc (base_name (iv_type fd))) as [[]|]; try discriminate; reflexivity.
  Qed.

  Lemma input_fields_nodup' d p n ds fields kw :
    In (TDInput d p n ds fields kw) (types_of doc) -> NoDup (map (fun a => iname (iv_name a)) fields).
  Proof.
    intros Ht. unfold ok_dup_input_field in Hdupin. rewrite forallb_forall in Hdupin. apply nodup_str_NoDup. apply Hdupin.
    unfold all_input_field_lists. apply in_flat_map. exists (TDInput d p n ds fields kw). split; [exact Ht | left; reflexivity].
  Qed.

  (** the loop over definitions, shared by input-object literals and argument lists *)
  Lemma entries_complete (vo : value -> ty -> bool) (defs : list inputvaldef) (al : list (ident * value)) :
    NoDup (map (fun a => iname (iv_name a)) defs) ->
    (forall fd, In fd defs -> input_ty (iv_type fd)) ->
    Forall (fun kv => forall t, input_ty t -> vo (snd kv) t = true -> check_value doc (snd kv) t = []) al ->
    (forall k fv, In (k, fv) al -> exists fd, arg_named defs (iname k) = Some fd /\ vo fv (iv_type fd) = true) ->
    (forall k fv t, In (k, fv) al -> vo fv t = true -> forall x q, fv <> VVar x q) ->
    (forall d, In d defs -> occ_errs (check_value doc) d al = []) /\
    list_sum (map (fun d => occ_count (iname (iv_name d)) al) defs) = length al.
  Proof.
    intros Hnd Hity HIH Hall Hnv. split.
    - intros d Hd. apply occ_errs_nil. intros k fv Hin Hname.
      destruct (Hall k fv Hin) as [fd [Hfd Hv]].
      rewrite <- Hname, (arg_named_unique defs d Hnd Hd) in Hfd. injection Hfd as <-.
      rewrite (expected_ty_nonvar d fv (Hnv k fv _ Hin Hv)).
      rewrite Forall_forall in HIH. apply (HIH (k, fv) Hin); [apply Hity; exact Hd | exact Hv].
    - rewrite (occ_sum_known defs al Hnd). apply forallb_filter_length. apply forallb_forall. intros [k fv] Hin.
      destruct (Hall k fv Hin) as [fd [Hfd _]]. apply (known_of_named defs (k, fv) fd). exact Hfd.
  Qed.

  Lemma input_object_complete (vo : value -> ty -> bool) fields fs :
    NoDup (map (fun a => iname (iv_name a)) fields) ->
    (forall fd, In fd fields -> input_ty (iv_type fd)) ->
    Forall (fun kv => forall t, input_ty t -> vo (snd kv) t = true -> check_value doc (snd kv) t = []) fs ->
    (forall k fv t, In (k, fv) fs -> vo fv t = true -> forall x q, fv <> VVar x q) ->
    each_field vo fields fs = true ->
    forallb (fun fd => negb (is_required fd) || existsb (fun kv => str_eqb (iname (fst kv)) (iname (iv_name fd))) fs) fields = true ->
    fst (fst (input_object_check (check_value doc) fields fs)) = [] /\ snd (fst (input_object_check (check_value doc) fields fs)) = true.
  Proof.
    intros Hnd Hity HIH Hnv Heach Hreq.
    destruct (entries_complete vo fields fs Hnd Hity HIH (fun k fv Hin => each_field_In vo fields fs k fv Heach Hin) Hnv) as [Hocc Hsum].
    unfold input_object_check. cbn [fst snd]. split.
    - apply flat_map_nil. exact Hocc.
    - apply andb_true_iff. split.
      + apply forallb_forall. intros ef Hef. rewrite forallb_forall in Hreq. specialize (Hreq ef Hef). rewrite iv_required_is.
        apply orb_true_iff in Hreq as [H|H]; [apply orb_true_iff; right; exact H|]. apply orb_true_iff. left.
        apply Nat.ltb_lt. apply occ_count_pos. apply existsb_exists in H as [kv [Hkv He]]. apply str_eqb_eq in He.
        rewrite <- He. apply (in_map (fun kv => iname (fst kv))). exact Hkv.
      + apply negb_true_iff. apply Nat.ltb_ge. rewrite Hsum. lia.
  Qed.

  Lemma builtin_scalar_null n p : builtin_scalar_ok n (VNull p) = true.
  Proof. unfold builtin_scalar_ok. repeat (destruct (str_eqb n _); [reflexivity|]). reflexivity. Qed.

  Lemma check_named_complete v t n :
    (forall x q, v <> VVar x q) ->
    (forall p fs, v = VObject p fs ->
       Forall (fun kv => forall t, input_ty t -> value_ok true doc (snd kv) t = true -> check_value doc (snd kv) t = []) fs) ->
    is_input_named doc (iname n) = Some true ->
    (match v with VNull _ => True | _ => named_ok (value_ok true doc) true doc v n = true end) ->
    check_named (check_value doc) doc v t n = [].
  Proof.
    intros Hv HIH Hin. unfold check_named, named_ok, is_input_named in *. rewrite first_type_lookup.
    destruct (lookup_t doc (iname n)) as [td|] eqn:L; [|discriminate].
    apply lookup_t_In in L as [Lin Ln]. destruct td; try discriminate.
    - intros H. unfold tn in Ln. cbn [typedef_name] in Ln. rewrite Ln.
      assert (Hb : builtin_scalar_ok (iname n) v = true /\ (if is_builtin_scalar_name (iname n) then [] else vars_in_value v) = []).
      { destruct v; try (apply builtin_scalar_complete; exact H).
        split; [apply builtin_scalar_null | destruct (is_builtin_scalar_name (iname n)); reflexivity]. }
      destruct Hb as [Hb1 Hb2]. rewrite Hb1, Hb2. reflexivity.
    - destruct v; try discriminate; [reflexivity|]. intros H. rewrite (existsb_forallb_negb _ _ H). reflexivity.
    - destruct v; try discriminate; [reflexivity|]. intros H. apply andb_true_iff in H as [H2 H3].
      destruct (input_object_complete (value_ok true doc) fields fs
                  (input_fields_nodup' _ _ _ _ _ _ Lin) (fun fd Hfd => input_field_input_ty _ _ _ _ _ _ fd Lin Hfd)
                  (HIH _ fs eq_refl) (fun k fv t _ Hvo => value_ok_nonvar true doc fv t Hvo) H2 H3) as [A B].
      destruct (input_object_check (check_value doc) fields fs) as [[errs ok] info]. cbn [fst snd] in A, B. subst. reflexivity.
  Qed.

  Lemma value_complete v : forall t, input_ty t -> value_ok true doc v t = true -> check_value doc v t = [].
  Proof.
    induction v using value_ind'; intros t; induction t as [tn0|t IHt|tq t IHt]; intros Hity;
      rewrite check_value_eq, value_ok_eq; try discriminate; intros Hc;
      try (apply IHt; [exact Hity | exact Hc]); try reflexivity;
      try (apply check_named_complete; [intros; discriminate | intros ? ? Hq; discriminate Hq | exact Hity | exact Hc]);
      try (apply check_named_complete; [intros; discriminate | intros ? ? Hq; discriminate Hq | exact Hity | exact I]).
    - apply flat_map_nil. intros e He. rewrite forallb_forall in Hc. rewrite Forall_forall in H. apply H; [exact He | exact Hity | apply Hc; exact He].
    - apply check_named_complete; [intros; discriminate | | exact Hity | exact Hc].
      intros p' fs' Heq. injection Heq as <- <-. exact H.
  Qed.

  Lemma check_arguments_complete ppos pname kind (a : directive) (d : directivedef) :
    NoDup (map (fun x => iname (iv_name x)) (args_of (dd_args d))) ->
    (forall ad, In ad (args_of (dd_args d)) -> input_ty (iv_type ad)) ->
    (match dir_args a with Some x => args_list x <> [] | None => True end) ->
    app_args_ok true doc a d = true ->
    check_arguments doc ppos pname kind (dir_args a) (opt_list (dd_args d)) = [].
  Proof.
    intros Hnd Hity Hne.
    unfold app_args_ok. rewrite opt_list_args_of. fold (args_of (dd_args d)).
    set (defs := args_of (dd_args d)) in *. intros H. apply andb_true_iff in H as [Hgiven Hreq].
    rewrite forallb_forall in Hgiven, Hreq.
    unfold check_arguments, app_args in *.
    set (al := match dir_args a with Some x => args_list x | None => [] end) in *.
    set (apos := match dir_args a with None => ppos | Some a0 => args_pos a0 end).
    assert (Hknown : forall k v, In (k, v) al -> exists ad, arg_named defs (iname k) = Some ad /\ value_ok true doc v (iv_type ad) = true).
    { intros k v Hin. specialize (Hgiven (k, v) Hin). cbn [fst snd] in Hgiven.
      destruct (arg_named defs (iname k)) as [ad|]; [exists ad; split; [reflexivity | exact Hgiven] | discriminate]. }
    assert (HIH : Forall (fun kv : ident * value => forall t, input_ty t -> value_ok true doc (snd kv) t = true -> check_value doc (snd kv) t = []) al).
    { apply Forall_forall. intros kv _ t. apply value_complete. }
    destruct (entries_complete (value_ok true doc) defs al Hnd Hity HIH Hknown (fun k fv t _ Hvo => value_ok_nonvar true doc fv t Hvo)) as [Hocc Hsum].
    assert (Herrs : flat_map (arg_errs doc al apos) defs = []).
    { apply flat_map_nil. intros ad Had. unfold arg_errs. destruct (find_arg (iname (iv_name ad)) al) as [v|] eqn:F; [apply Hocc; exact Had|].
      specialize (Hreq ad Had). rewrite iv_required_is. apply orb_true_iff in Hreq as [Hr|Hr].
      + apply negb_true_iff in Hr. rewrite Hr. reflexivity.
      + exfalso. apply existsb_exists in Hr as [[k v] [Hkv He]]. cbn [fst] in He. apply str_eqb_eq in He.
        assert (Hs : is_some (find_arg (iname (iv_name ad)) al) = true).
        { rewrite find_arg_some. apply mem_In. rewrite <- He. apply (in_map (fun kv => iname (fst kv)) al (k, v)). exact Hkv. }
        rewrite F in Hs. discriminate. }
    subst al apos. destruct (dir_args a) as [ar|] eqn:Ea; destruct defs as [|d0 defs'] eqn:Ed.
    - exfalso. destruct (args_list ar) as [|[k v] r] eqn:Eal.
      + exact (Hne eq_refl).
      + destruct (Hknown k v (or_introl eq_refl)) as [ad [Had _]]. discriminate.
    - rewrite Herrs, Hsum. cbn [app]. rewrite Nat.ltb_irrefl. reflexivity.
    - reflexivity.
    - rewrite Herrs, Hsum. cbn [app length]. reflexivity.
  Qed.
End ValuesComplete.
