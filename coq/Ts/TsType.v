(** Mirror of /repo/crates/printer/src/ts_types (TSType, print_type, ts_union, ts_intersection,
    get_ts_type_of_type, into_readonly) and of jsdoc.rs (print_description). Definitions only. *)
From V Require Import Base.Util Gql.Ast Writer.Wop.

Inductive tstype :=
| TVar (name : str) (p : pos)
| TFunc (f : tstype) (args : list tstype)
| TStrLit (v : str)
| TNs (ns key : str)
| TNs3 (ns k1 k2 : str)
| TObject (fields : list tsfield)
| TArray (t : tstype)
| TRoArray (t : tstype)
| TUnion (ts : list tstype)
| TInter (ts : list tstype)
| TUndefined
| TNull
| TNever
| TUnknown
| TRaw (s : str)
with tsfield :=
| mkField (key : str) (kpos : pos) (ty : tstype) (readonly optional : bool) (descr : option str).

Definition f_key (f : tsfield) := match f with mkField k _ _ _ _ _ => k end.
Definition f_kpos (f : tsfield) := match f with mkField _ p _ _ _ _ => p end.
Definition f_ty (f : tsfield) := match f with mkField _ _ t _ _ _ => t end.
Definition f_readonly (f : tsfield) := match f with mkField _ _ _ r _ _ => r end.
Definition f_optional (f : tsfield) := match f with mkField _ _ _ _ o _ => o end.
Definition f_descr (f : tsfield) := match f with mkField _ _ _ _ _ d => d end.

(** ** jsdoc.rs *)

(** Rust [char::is_whitespace] (Unicode White_Space) *)
Definition is_whitespace (c : N) : bool :=
  ((9 <=? c) && (c <=? 13) || (c =? 32) || (c =? 133) || (c =? 160) || (c =? 5760)
   || ((8192 <=? c) && (c <=? 8202)) || (c =? 8232) || (c =? 8233) || (c =? 8239)
   || (c =? 8287) || (c =? 12288))%N.

(** split on '\n' (10); like [str::split('\n')]: never empty *)
Fixpoint split_lf (s : str) : list str :=
  match s with
  | [] => [[]]
  | c :: r =>
      if N.eqb c 10 then [] :: split_lf r
      else match split_lf r with
           | [] => [[c]]
           | l :: ls => (c :: l) :: ls
           end
  end.

Definition strip_cr (l : str) : str :=
  match rev l with
  | c :: r => if N.eqb c 13 then rev r else l
  | [] => l
  end.

(** [str::lines]: split after each '\n'; a final piece without '\n' is a line only if it is non-empty;
    only a line that was terminated by '\n' has one trailing '\r' stripped as well *)
Definition lines (s : str) : list str :=
  match rev (split_lf s) with
  | [] => []
  | last :: r => map strip_cr (rev r) ++ (match last with [] => [] | _ => [last] end)
  end.

Definition is_nil {A} (l : list A) : bool := match l with [] => true | _ => false end.

Fixpoint drop_while {A} (f : A -> bool) (l : list A) : list A :=
  match l with x :: r => if f x then drop_while f r else l | [] => [] end.

(** [first_non_space_byte_index(line).map(|(char_idx, _)| char_idx)] *)
Fixpoint first_non_space (l : str) : option nat :=
  match l with
  | [] => None
  | c :: r => if is_whitespace c then option_map S (first_non_space r) else Some O
  end.

Fixpoint list_min (l : list nat) : option nat :=
  match l with
  | [] => None
  | x :: r => match list_min r with None => Some x | Some m => Some (Nat.min x m) end
  end.

Definition filter_map {A B} (f : A -> option B) (l : list A) : list B :=
  flat_map (fun x => match f x with Some y => [y] | None => [] end) l.

(** [dedent]: returns the lines (each will be followed by '\n') *)
Definition dedent_lines (value : str) : list str :=
  let ls := drop_while is_nil (lines value) in
  let ls := rev (drop_while is_nil (rev ls)) in
  let m := match list_min (filter_map first_non_space ls) with Some m => m | None => O end in
  filter (fun l => negb (is_nil l)) (map (skipn m) ls).

Definition STAR : N := 42.
Definition SLASHC : N := 47.
Definition BSLASH : N := 92.

(** [line.replace("*/", "*\\/")] *)
Fixpoint escape_close (l : str) : str :=
  match l with
  | a :: ((b :: r) as t) =>
      if N.eqb a STAR && N.eqb b SLASHC then STAR :: BSLASH :: SLASHC :: escape_close r
      else a :: escape_close t
  | _ => l
  end.

(** [dedent] produces "line\n" per line and [print_description] iterates [desc.lines()], which
    gives back exactly those lines (none is empty, a '\r' at the end of a line is stripped again) *)
Definition print_description (d : str) : list wop :=
  [W (s "/**" ++ [10%N])]
  ++ flat_map (fun l => [W (s " * "); W (escape_close (strip_cr l)); W [10%N]]) (dedent_lines d)
  ++ [W (s " */" ++ [10%N])].

(** ** TSType::print_type *)

Definition is_ascii_ident_start (c : N) : bool :=
  ((97 <=? c) && (c <=? 122) || (65 <=? c) && (c <=? 90) || (c =? 95))%N.
Definition is_ascii_ident_char (c : N) : bool :=
  (is_ascii_ident_start c || (48 <=? c) && (c <=? 57))%N.
Definition is_raw_ident (k : str) : bool :=
  match k with
  | [] => false
  | c :: r => is_ascii_ident_start c && forallb is_ascii_ident_char r
  end.

Definition sep_by {A} (sep : list wop) (f : A -> list wop) : list A -> list wop :=
  fix go (l : list A) : list wop :=
    match l with
    | [] => []
    | [x] => f x
    | x :: r => f x ++ sep ++ go r
    end.

Fixpoint print_type (t : tstype) : list wop :=
  match t with
  | TVar n p => [WF n p (Some n)]
  | TFunc f args =>
      print_type f ++ [W (s "<")]
      ++ (fix go (first : bool) (l : list tstype) : list wop :=
            match l with
            | [] => []
            | x :: r => (if first then [] else [W (s ", ")]) ++ print_type x ++ go false r
            end) true args
      ++ [W (s ">")]
  | TStrLit v => [W (s """"); W v; W (s """")]
  | TNs ns k => [W (ns ++ s "." ++ k)]
  | TNs3 ns k1 k2 => [W (ns ++ s "." ++ k1 ++ s "." ++ k2)]
  | TObject fields =>
      match fields with
      | [] => [W (s "{}")]
      | _ =>
          [W (s "{" ++ [10%N]); Indent]
          ++ (fix go (l : list tsfield) : list wop :=
                match l with
                | [] => []
                | mkField k kp ty ro opt d :: r =>
                    (match d with Some d => print_description d | None => [] end)
                    ++ (if ro then [W (s "readonly ")] else [])
                    ++ (if is_raw_ident k then [WF k kp (Some k)] else [W (s """"); W k; W (s """")])
                    ++ (if opt then [W (s "?")] else [])
                    ++ [W (s ": ")] ++ print_type ty ++ [W (s ";" ++ [10%N])]
                    ++ go r
                end) fields
          ++ [Dedent; W (s "}")]
      end
  | TArray ty => [W (s "(")] ++ print_type ty ++ [W (s ")[]")]
  | TRoArray ty => [W (s "readonly (")] ++ print_type ty ++ [W (s ")[]")]
  | TInter ts =>
      match ts with
      | [] => [W (s "unknown")]
      | _ => (fix go (first : bool) (l : list tstype) : list wop :=
                match l with
                | [] => []
                | x :: r => (if first then [] else [W (s " & ")]) ++ print_type x ++ go false r
                end) true ts
      end
  | TUnion ts =>
      match ts with
      | [] => [W (s "never")]
      | _ => (fix go (first : bool) (l : list tstype) : list wop :=
                match l with
                | [] => []
                | x :: r => (if first then [] else [W (s " | ")]) ++ print_type x ++ go false r
                end) true ts
      end
  | TNull => [W (s "null")]
  | TUndefined => [W (s "undefined")]
  | TNever => [W (s "never")]
  | TUnknown => [W (s "unknown")]
  | TRaw r => [W (s "("); W r; W (s ")")]
  end.

(** ** ts_types_util.rs *)

Definition ts_union (ts : list tstype) : tstype :=
  match ts with
  | [] => TNever
  | [t] => t
  | _ => TUnion ts
  end.

Fixpoint fast_equal (l r : tstype) {struct l} : bool :=
  match l, r with
  | TVar a _, TVar b _ => str_eqb a b
  | TFunc f fa, TFunc g ga =>
      fast_equal f g &&
      (fix go (x y : list tstype) {struct x} : bool :=
         match x, y with
         | [], [] => true
         | a :: x', b :: y' => fast_equal a b && go x' y'
         | _, _ => false
         end) fa ga
  | TStrLit a, TStrLit b => str_eqb a b
  | TNs a1 a2, TNs b1 b2 => str_eqb a1 b1 && str_eqb a2 b2
  | TNs3 a1 a2 a3, TNs3 b1 b2 b3 => str_eqb a1 b1 && str_eqb a2 b2 && str_eqb a3 b3
  | TObject a, TObject b => is_nil a && is_nil b
  | TArray a, TArray b => fast_equal a b
  | TRoArray a, TRoArray b => fast_equal a b
  | TRaw a, TRaw b => str_eqb a b
  | TNever, TNever | TNull, TNull | TUndefined, TUndefined => true
  | _, _ => false
  end.

(** itertools [dedup_by(f)]: drops an element when [f(previous_kept, element)] *)
Fixpoint dedup_by (f : tstype -> tstype -> bool) (l : list tstype) : list tstype :=
  match l with
  | a :: ((b :: _) as t) =>
      match dedup_by f t with
      | b' :: r' => if f a b then a :: r' else a :: b' :: r'
      | [] => [a]
      end
  | _ => l
  end.

Definition ts_intersection (ts : list tstype) : tstype :=
  match ts with
  | [] => TUnknown
  | [t] => t
  | _ =>
      let props := flat_map (fun t => match t with TObject ps => ps | _ => [] end) ts in
      let others := filter (fun t => match t with TObject _ => false | _ => true end) ts in
      let obj := match props with [] => [] | _ => [TObject props] end in
      match others with
      | [] => match obj with [o] => o | _ => TUnknown end
      | _ => TInter (obj ++ dedup_by fast_equal others)
      end
  end.

(** ** type_to_ts_type.rs *)
Fixpoint ts_of_type_impl (map_name : ident -> tstype) (t : ty) : tstype * bool :=
  match t with
  | TNamed n => (map_name n, true)
  | TList _ t' =>
      let '(x, nullable) := ts_of_type_impl map_name t' in
      (TArray (if nullable then TUnion [x; TNull] else x), true)
  | TNonNull t' => (fst (ts_of_type_impl map_name t'), false)
  end.
Definition get_ts_type_of_type (map_name : ident -> tstype) (t : ty) : tstype :=
  let '(x, nullable) := ts_of_type_impl map_name t in
  if nullable then TUnion [x; TNull] else x.

(** ** into_readonly *)
Fixpoint into_readonly (t : tstype) : tstype :=
  match t with
  | TFunc f args => TFunc f (map into_readonly args)
  | TArray x | TRoArray x => TRoArray (into_readonly x)
  | TObject fs => TObject (map (fun f => match f with mkField k p ty _ o d => mkField k p ty true o d end) fs)
  | TInter ts => TInter (map into_readonly ts)
  | TUnion ts => TUnion (map into_readonly ts)
  | t => t
  end.

(** structural equality ignoring positions and descriptions (used by correspondence checks) *)
Fixpoint tstype_eqb (a b : tstype) {struct a} : bool :=
  let list_eq := fix go (x y : list tstype) {struct x} : bool :=
    match x, y with [], [] => true | p :: x', q :: y' => tstype_eqb p q && go x' y' | _, _ => false end in
  match a, b with
  | TVar x _, TVar y _ => str_eqb x y
  | TFunc f fa, TFunc g ga => tstype_eqb f g && list_eq fa ga
  | TStrLit x, TStrLit y => str_eqb x y
  | TNs a1 a2, TNs b1 b2 => str_eqb a1 b1 && str_eqb a2 b2
  | TNs3 a1 a2 a3, TNs3 b1 b2 b3 => str_eqb a1 b1 && str_eqb a2 b2 && str_eqb a3 b3
  | TObject fa, TObject fb =>
      (fix go (x y : list tsfield) {struct x} : bool :=
         match x, y with
         | [], [] => true
         | mkField k _ t r o _ :: x', mkField k' _ t' r' o' _ :: y' =>
             str_eqb k k' && tstype_eqb t t' && Bool.eqb r r' && Bool.eqb o o' && go x' y'
         | _, _ => false
         end) fa fb
  | TArray x, TArray y | TRoArray x, TRoArray y => tstype_eqb x y
  | TUnion x, TUnion y | TInter x, TInter y => list_eq x y
  | TUndefined, TUndefined | TNull, TNull | TNever, TNever | TUnknown, TUnknown => true
  | TRaw x, TRaw y => str_eqb x y
  | _, _ => false
  end.
