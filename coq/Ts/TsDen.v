(** Denotation of the emitted TypeScript types over an abstract JSON value domain (DESIGN §3).
    Spec side: used by C01/C02/C09/C10/C15 to say which values a generated type admits.

    Reading (stated in the evidence of every check that uses it):
    - object types are read EXACTLY: a record inhabits [{k1: T1; k2?: T2}] iff it has no other
      keys, has k1 with a value in T1, and has k2 absent (or [undefined]) or in T2;
    - [__SelectionSet<Orig, Obj, Others>] is read as: the fields of [Obj] whose key is a key of
      [Orig], with [Obj]'s own optional markers, merged with the fields of [Others];
    - [Raw s] (a configured scalar TS type): "string"/"number"/"boolean" have their usual
      inhabitants, any other text [s] is inhabited exactly by the opaque atom [VAtom s];
    - unknown constructs make the decider return [None] (never [Some true]). *)
From V Require Import Base.Util Gql.Ast Writer.Wop Ts.TsType.

Inductive val :=
| VNull | VUndef | VBool (b : bool) | VNum | VStr (v : str) | VAtom (raw : str)
| VList (l : list val) | VObj (fs : list (str * val)).

(** the emitted declaration files as lookup functions *)
Record tsenv := mkEnv {
  env_var : str -> option tstype;                 (* local alias / type variable *)
  env_ns2 : str -> str -> option tstype;          (* N.K *)
  env_ns3 : str -> str -> str -> option tstype;   (* N.K1.K2 *)
}.

Fixpoint assoc {A} (k : str) (l : list (str * A)) : option A :=
  match l with
  | [] => None
  | (k', v) :: r => if str_eqb k k' then Some v else assoc k r
  end.

Fixpoint nodup_keys (ks : list str) : bool :=
  match ks with
  | [] => true
  | k :: r => negb (existsb (str_eqb k) r) && nodup_keys r
  end.

Definition obool_and (a b : option bool) : option bool :=
  match a, b with
  | Some false, _ | _, Some false => Some false
  | Some true, Some true => Some true
  | _, _ => None
  end.
Definition obool_or (a b : option bool) : option bool :=
  match a, b with
  | Some true, _ | _, Some true => Some true
  | Some false, Some false => Some false
  | _, _ => None
  end.

Definition raw_member (r : str) (v : val) : bool :=
  if str_eqb r (s "string") then match v with VStr _ => true | _ => false end
  else if str_eqb r (s "number") then match v with VNum => true | _ => false end
  else if str_eqb r (s "boolean") then match v with VBool _ => true | _ => false end
  else match v with VAtom a => str_eqb a r | _ => false end.

Definition SELSET : str := s "__SelectionSet".

Section Den.
  Variable E : tsenv.

  (** resolve aliases until an object type appears; [None] if it is not (known to be) one *)
  Fixpoint as_object (fuel : nat) (t : tstype) : option (list tsfield) :=
    match fuel with
    | O => None
    | S fuel' =>
        match t with
        | TObject fs => Some fs
        | TVar n _ => match env_var E n with Some t' => as_object fuel' t' | None => None end
        | TNs a b => match env_ns2 E a b with Some t' => as_object fuel' t' | None => None end
        | TNs3 a b c => match env_ns3 E a b c with Some t' => as_object fuel' t' | None => None end
        | _ => None
        end
    end.

  Fixpoint has_type_b (fuel : nat) (t : tstype) (v : val) {struct fuel} : option bool :=
    match fuel with
    | O => None
    | S fuel' =>
        let rec := has_type_b fuel' in
        (* membership of a record in a field list; [open]: extra keys allowed (checked by caller) *)
        let fields_ok (fs : list tsfield) (kvs : list (str * val)) : option bool :=
          fold_right (fun f acc =>
            obool_and
              (match assoc (f_key f) kvs with
               | Some x => if f_optional f then obool_or (rec (f_ty f) x) (Some (match x with VUndef => true | _ => false end))
                           else rec (f_ty f) x
               | None => Some (f_optional f)
               end) acc) (Some true) fs in
        match t with
        | TVar n _ =>
            match env_var E n with
            | Some t' => rec t' v
            | None => Some (raw_member n v)
            end
        | TNs a b => match env_ns2 E a b with Some t' => rec t' v | None => None end
        | TNs3 a b c => match env_ns3 E a b c with Some t' => rec t' v | None => None end
        | TStrLit x => Some (match v with VStr y => str_eqb x y | _ => false end)
        | TRaw r => Some (raw_member r v)
        | TNull => Some (match v with VNull => true | _ => false end)
        | TUndefined => Some (match v with VUndef => true | _ => false end)
        | TNever => Some false
        | TUnknown => Some true
        | TArray x | TRoArray x =>
            match v with
            | VList l => fold_right (fun e acc => obool_and (rec x e) acc) (Some true) l
            | _ => Some false
            end
        | TUnion ts => fold_right (fun x acc => obool_or (rec x v) acc) (Some false) ts
        | TObject fs =>
            match v with
            | VObj kvs =>
                if nodup_keys (map fst kvs)
                   && forallb (fun k => existsb (fun f => str_eqb (f_key f) k) fs) (map fst kvs)
                then fields_ok fs kvs else Some false
            | _ => Some false
            end
        | TFunc (TNs _ fn) [orig; TObject obj; TObject others] =>
            if str_eqb fn SELSET then
              match as_object fuel' orig, v with
              | Some ofs, VObj kvs =>
                  let picked := filter (fun f => existsb (fun g => str_eqb (f_key g) (f_key f)) ofs) obj in
                  let all := picked ++ others in
                  if nodup_keys (map fst kvs)
                     && forallb (fun k => existsb (fun f => str_eqb (f_key f) k) all) (map fst kvs)
                  then fields_ok all kvs else Some false
              | Some _, _ => Some false
              | None, _ => None
              end
            else None
        | TInter ts =>
            (* every member admits the value when read openly, and no key is outside all members *)
            match v with
            | VObj kvs =>
                let members := map (as_object fuel') ts in
                if forallb (fun m => match m with Some _ => true | None => false end) members then
                  let all := flat_map (fun m => match m with Some fs => fs | None => [] end) members in
                  if nodup_keys (map fst kvs)
                     && forallb (fun k => existsb (fun f => str_eqb (f_key f) k) all) (map fst kvs)
                  then fields_ok all kvs else Some false
                else None
            | _ => fold_right (fun x acc => obool_and (rec x v) acc) (Some true) ts
            end
        | TFunc _ _ => None
        end
    end.

  (** [v] is in the denotation of [t] *)
  Definition In_type (t : tstype) (v : val) : Prop := exists fuel, has_type_b fuel t v = Some true.
  Definition NotIn_type (t : tstype) (v : val) : Prop := exists fuel, has_type_b fuel t v = Some false.
End Den.
