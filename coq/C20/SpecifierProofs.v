From V Require Import Base.Util C20.Model C20.Proofs C20.Specifier Gen.C20_tables_gen.

Lemma ends_with_app n suffix : ends_with n suffix = true -> exists stem, n = stem ++ suffix.
Proof.
  induction n as [|c n IH]; cbn [ends_with].
  - destruct (str_eqb_spec [] suffix) as [E|E]; [exists []; auto|discriminate].
  - destruct (str_eqb_spec (c :: n) suffix) as [E|E].
    + exists []; auto.
    + intros H. destruct (IH H) as (st & ->). exists (c :: st); auto.
Qed.

Lemma truncate_suffix_app stem ext : truncate_suffix (stem ++ ext) ext = stem.
Proof.
  unfold truncate_suffix. rewrite app_length, Nat.add_sub.
  rewrite firstn_app, Nat.sub_diag, firstn_all. cbn. apply app_nil_r.
Qed.

Lemma rename_spec tbl : forall n n', rename tbl n = Some n' ->
  exists ts js stem, In (ts, js) tbl /\ n = stem ++ ts /\ n' = stem ++ js.
Proof.
  induction tbl as [|[ts js] tbl IH]; cbn; intros n n' H; [discriminate|].
  destruct (ends_with n ts) eqn:E.
  - injection H as <-. destruct (ends_with_app _ _ E) as (stem & ->).
    rewrite truncate_suffix_app. exists ts, js, stem; auto.
  - destruct (IH _ _ H) as (ts' & js' & stem & Hin & -> & ->). exists ts', js', stem; auto.
Qed.

(** [path_to_ts] never touches the directory part and only swaps a listed extension *)
Lemma path_to_ts_spec tbl cs :
  path_to_ts tbl cs = cs \/
  exists dir ts js stem, In (ts, js) tbl /\ cs = dir ++ [Name (stem ++ ts)] /\
    path_to_ts tbl cs = dir ++ [Name (stem ++ js)].
Proof.
  unfold path_to_ts. destruct (rev cs) as [|c r] eqn:E; auto.
  destruct c; auto. destruct (rename tbl n) as [n'|] eqn:R; auto.
  right. destruct (rename_spec _ _ _ R) as (ts & js & stem & Hin & -> & ->).
  exists (rev r), ts, js, stem. split; auto. split.
  - rewrite <- (rev_involutive cs), E. reflexivity.
  - reflexivity.
Qed.

Lemma pop_app_name dir n : pop (dir ++ [Name n]) = dir.
Proof. apply pop_snoc_name. Qed.

Lemma path_to_ts_dir tbl cs : dir_of (path_to_ts tbl cs) = dir_of cs.
Proof.
  destruct (path_to_ts_spec tbl cs) as [->|(dir & ts & js & stem & _ & -> & ->)]; auto.
  unfold dir_of. now rewrite !pop_app_name.
Qed.

(** the specifier points into the schema output's directory: resolving its directory part against the
    declaration file gives the directory of the (normalised) schema output *)
Lemma specifier_dir_lands decl schema :
  abs_ok decl = true -> abs_ok schema = true -> is_file decl = true ->
  exists r, relative decl schema = Some r /\
    normalize (push (pop decl) (dir_of (path_to_ts ts_to_js r))) = normalize (push (pop decl) (dir_of r)) /\
    resolve decl r = normalize schema.
Proof.
  intros Ha Hb Hf. destruct (roundtrip decl schema Ha Hb Hf) as (r & Hr & Hres).
  exists r. rewrite path_to_ts_dir. auto.
Qed.

