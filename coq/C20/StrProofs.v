(** C20 — the string level: [components] re-reads what [render] writes, so the component-level
    theorems speak about the path strings nitrogql actually emits (import specifiers, [sources]). *)
From V Require Import Base.Util C20.Model.

Definition no_slash (n : str) : bool := forallb (fun c => negb (N.eqb c SLASH)) n.

(** a legal file-name component *)
Definition name_ok (n : str) : bool :=
  no_slash n && negb (str_eqb n []) && negb (str_eqb n [DOT]) && negb (str_eqb n [DOT; DOT]).

Definition comp_ok (c : comp) : bool :=
  match c with Par => true | Name n => name_ok n | _ => false end.

(** component lists as [Path::components] produces them *)
Definition canonical (cs : list comp) : bool :=
  match cs with
  | Root :: t => forallb comp_ok t
  | Cur :: t => forallb comp_ok t
  | t => forallb comp_ok t
  end.

Lemma split_slash_nonempty p : split_slash p <> [].
Proof. induction p as [|c r IH]; cbn; [discriminate|]. destruct (N.eqb c SLASH); [discriminate|].
  destruct (split_slash r); [contradiction|discriminate]. Qed.

Lemma split_slash_seg n : no_slash n = true -> forall r,
  split_slash (n ++ SLASH :: r) = n :: split_slash r.
Proof.
  induction n as [|c n IH]; cbn; intros H r.
  - reflexivity.
  - apply andb_prop in H as [Hc H]. destruct (N.eqb c SLASH); [discriminate|].
    rewrite IH by auto. reflexivity.
Qed.

Lemma split_slash_last n : no_slash n = true -> split_slash n = [n].
Proof.
  induction n as [|c n IH]; cbn; intros H; [reflexivity|].
  apply andb_prop in H as [Hc H]. destruct (N.eqb c SLASH); [discriminate|].
  rewrite IH by auto. reflexivity.
Qed.

Lemma comp_ok_no_slash c : comp_ok c = true -> no_slash (comp_str c) = true.
Proof.
  destruct c; cbn; try discriminate; auto.
  unfold name_ok. intros H. repeat (apply andb_prop in H as [H ?]). auto.
Qed.

Lemma seg_comp_ok c : comp_ok c = true -> forall b, seg_comp b (comp_str c) = Some c.
Proof.
  destruct c as [| | |n]; cbn; try discriminate; auto.
  unfold name_ok. intros H b. repeat (apply andb_prop in H as [H ?]).
  destruct n as [|d [|e [|f n]]]; cbn in *; try discriminate; auto.
  - destruct (N.eqb_spec d DOT) as [->|]; [discriminate|reflexivity].
  - destruct (N.eqb_spec d DOT) as [->|]; cbn; [|reflexivity].
    destruct (N.eqb_spec e DOT) as [->|]; [discriminate|reflexivity].
Qed.

(** the text after the first component: "/c2/c3…" *)
Lemma render_from_false_split t : forallb comp_ok t = true -> forall n,
  no_slash n = true ->
  split_slash (n ++ render_from false t) = n :: map comp_str t.
Proof.
  induction t as [|c t IH]; cbn; intros H n Hn.
  - rewrite app_nil_r. apply split_slash_last; auto.
  - apply andb_prop in H as [Hc H].
    destruct c; try discriminate; cbn [app];
      rewrite split_slash_seg by auto; f_equal; apply IH; auto using comp_ok_no_slash.
Qed.

Lemma segs_comps_ok t : forallb comp_ok t = true -> segs_comps false (map comp_str t) = t.
Proof.
  induction t as [|c t IH]; cbn; intros H; [reflexivity|].
  apply andb_prop in H as [Hc H]. rewrite seg_comp_ok by auto. f_equal; auto.
Qed.

Lemma render_tail t : forallb comp_ok t = true ->
  segs_comps false (split_slash (render_from true t)) = t.
Proof.
  destruct t as [|c t]; intros H; [reflexivity|]. cbn [forallb] in H.
  apply andb_prop in H as [Hc H].
  assert (E : render_from true (c :: t) = comp_str c ++ render_from false t).
  { destruct c; try discriminate; reflexivity. }
  rewrite E, render_from_false_split by auto using comp_ok_no_slash.
  cbn. rewrite seg_comp_ok by auto. f_equal. apply segs_comps_ok; auto.
Qed.

Lemma first_not_slash c t : comp_ok c = true ->
  exists d r, comp_str c ++ render_from false t = d :: r /\ N.eqb d SLASH = false.
Proof.
  destruct c as [| | |n]; cbn; try discriminate; intros H.
  - eexists _, _; split; reflexivity.
  - unfold name_ok in H. repeat (apply andb_prop in H as [H ?]).
    destruct n as [|d n]; [discriminate|]. cbn in H. apply andb_prop in H as [Hd _].
    exists d, (n ++ render_from false t). split; auto. destruct (N.eqb d SLASH); auto; discriminate.
Qed.

Lemma components_rel d r : N.eqb d SLASH = false ->
  components (d :: r) = segs_comps true (split_slash (d :: r)).
Proof. intros H. unfold components. rewrite H. reflexivity. Qed.

Lemma render_rel c t : c <> Root -> render_from true (c :: t) = comp_str c ++ render_from false t.
Proof. destruct c; try congruence; reflexivity. Qed.

Lemma components_render cs : canonical cs = true -> components (render cs) = cs.
Proof.
  unfold render. destruct cs as [|c t]; [reflexivity|].
  destruct (match c with Root => true | _ => false end) eqn:Ec.
  - destruct c; try discriminate. cbn [canonical]. intros H.
    change (render_from true (Root :: t)) with (SLASH :: render_from true t).
    unfold components. rewrite N.eqb_refl. f_equal. apply render_tail; auto.
  - intros H.
    assert (Hnr : c <> Root) by (destruct c; congruence).
    assert (Ht : forallb comp_ok t = true).
    { destruct c; cbn in H; try congruence; auto. apply andb_prop in H; tauto. }
    assert (Hns : no_slash (comp_str c) = true).
    { destruct c; try congruence; try reflexivity. cbn in H. apply andb_prop in H as [H _].
      apply (comp_ok_no_slash (Name n)); auto. }
    assert (Hsc : seg_comp true (comp_str c) = Some c).
    { destruct c; try congruence; try reflexivity. cbn in H. apply andb_prop in H as [H _].
      apply (seg_comp_ok (Name n)); auto. }
    assert (Hhd : exists d r, comp_str c ++ render_from false t = d :: r /\ N.eqb d SLASH = false).
    { destruct c; try congruence.
      - eexists _, _; split; reflexivity.
      - eexists _, _; split; reflexivity.
      - cbn in H. apply andb_prop in H as [H _]. apply (first_not_slash (Name n)); auto. }
    destruct Hhd as (d & r & E & Hd).
    rewrite render_rel by auto. rewrite E, components_rel by auto. rewrite <- E.
    rewrite render_from_false_split by auto.
    cbn [segs_comps]. rewrite Hsc. f_equal. apply segs_comps_ok; auto.
Qed.
