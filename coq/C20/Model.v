(** C20 — model of crates/utils/src/relative_path.rs (definitions only).

    A path is modelled by the list of components [std::path::Path::components] yields on
    Unix.  [components]/[render] give the string-level view used by the correspondence run
    (the harness feeds the same strings to the Rust functions).  [PathBuf::push]/[pop] are
    modelled on component lists: the string a [PathBuf] holds is always re-read through
    [components] by the code under study, so only its component list matters. *)
From V Require Import Base.Util.

Inductive comp := Root | Cur | Par | Name (n : str).

Definition comp_eqb (a b : comp) : bool :=
  match a, b with
  | Root, Root | Cur, Cur | Par, Par => true
  | Name x, Name y => str_eqb x y
  | _, _ => false
  end.

(** * String level *)

Definition SLASH : N := 47.
Definition DOT : N := 46.

(** split on '/', never returns [] (like Rust's [str::split]). *)
Fixpoint split_slash (p : str) : list str :=
  match p with
  | [] => [[]]
  | c :: r =>
      if N.eqb c SLASH then [] :: split_slash r
      else match split_slash r with
           | [] => [[c]]
           | seg :: segs => (c :: seg) :: segs
           end
  end.

Definition seg_comp (first_of_relative : bool) (seg : str) : option comp :=
  match seg with
  | [] => None
  | [d] => if N.eqb d DOT then (if first_of_relative then Some Cur else None) else Some (Name seg)
  | [d; e] => if N.eqb d DOT && N.eqb e DOT then Some Par else Some (Name seg)
  | _ => Some (Name seg)
  end.

Fixpoint segs_comps (first_of_relative : bool) (segs : list str) : list comp :=
  match segs with
  | [] => []
  | sg :: r =>
      match seg_comp first_of_relative sg with
      | Some c => c :: segs_comps false r
      | None => segs_comps false r
      end
  end.

(** [Path::components] on Unix. *)
Definition components (p : str) : list comp :=
  match p with
  | c :: r => if N.eqb c SLASH then Root :: segs_comps false (split_slash r)
              else segs_comps true (split_slash p)
  | [] => []
  end.

Definition comp_str (c : comp) : str :=
  match c with Root => [SLASH] | Cur => [DOT] | Par => [DOT; DOT] | Name n => n end.

(** The string a [PathBuf] holds after pushing the components one by one onto an empty
    buffer (a separator is inserted unless the buffer is empty or ends in '/'). *)
Fixpoint render_from (ends_slash_or_empty : bool) (cs : list comp) : str :=
  match cs with
  | [] => []
  | Root :: r => SLASH :: render_from true r
  | c :: r => (if ends_slash_or_empty then [] else [SLASH]) ++ comp_str c ++ render_from false r
  end.
Definition render (cs : list comp) : str := render_from true cs.

(** * Component level *)

(** One iteration of the loop in [normalize_path]; the stack is kept reversed (top first). *)
Definition nstep (st : list comp) (c : comp) : list comp :=
  match c with
  | Cur => st
  | Name n => Name n :: st
  | Par => tl st
  | Root => [Root]
  end.

Definition normalize (cs : list comp) : list comp := rev (fold_left nstep cs []).

(** [PathBuf::pop]: drop the last component unless the path is empty or only a root. *)
Definition pop (cs : list comp) : list comp :=
  match rev cs with
  | Root :: _ => cs
  | [] => cs
  | _ :: r => rev r
  end.

(** [PathBuf::push] of a one-component path [c] (as done by [result.push(component.as_os_str())]). *)
Definition push1 (base : list comp) (c : comp) : list comp :=
  match c with
  | Root => [Root]
  | Cur => match base with [] => [Cur] | _ => base end   (* "x/." has the components of "x" *)
  | _ => base ++ [c]
  end.

(** [PathBuf::push] of an arbitrary path. *)
Definition push (base rel : list comp) : list comp :=
  match rel with
  | Root :: _ => rel
  | _ => fold_left push1 rel base
  end.

Fixpoint strip_common (x y : list comp) : list comp * list comp :=
  match x, y with
  | c :: x', d :: y' => if comp_eqb c d then strip_common x' y' else (x, y)
  | _, _ => (x, y)
  end.

(** The [flat_map] in [relative_path]: [None] = the [panic!] branch. *)
Fixpoint reverse_from (x : list comp) : option (list comp) :=
  match x with
  | [] => Some []
  | Cur :: r => option_map (cons Cur) (reverse_from r)
  | Name _ :: r => option_map (cons Par) (reverse_from r)
  | Par :: _ => None
  | Root :: r => reverse_from r
  end.

Definition build_result (cs : list comp) : list comp :=
  match cs with
  | [] => []
  | Cur :: _ | Par :: _ => fold_left push1 cs []
  | _ => fold_left push1 cs [Cur]
  end.

(** [relative_path(from, to)]; [None] = panic. *)
Definition relative (a b : list comp) : option (list comp) :=
  let from := pop (normalize a) in
  let to := normalize b in
  let '(x, y) := strip_common from to in
  match reverse_from x with
  | None => None
  | Some ups => Some (build_result (ups ++ y))
  end.

(** [resolve_relative_path(from_file, relative)] *)
Definition resolve (a r : list comp) : list comp := normalize (push (pop a) r).

(** * Predicates used as guards of the theorems *)

Definition tail_ok (t : list comp) : bool :=
  forallb (fun c => match c with Root | Cur => false | _ => true end) t.

Fixpoint no_climb_d (d : nat) (t : list comp) : bool :=
  match t with
  | [] => true
  | Name _ :: r => no_climb_d (S d) r
  | Par :: r => match d with O => false | S d' => no_climb_d d' r end
  | _ :: r => no_climb_d d r
  end.

(** an absolute path (as [components] produces them) that never climbs above the root *)
Definition abs_ok (p : list comp) : bool :=
  match p with
  | Root :: t => tail_ok t && no_climb_d 0 t
  | _ => false
  end.

(** "file": the last component is a name *)
Definition is_file (p : list comp) : bool :=
  match rev p with Name _ :: _ => true | _ => false end.

(** * String-level entry points compared with the Rust functions *)
Definition normalize_s (p : str) : str := render (normalize (components p)).
Definition relative_s (a b : str) : option str := option_map render (relative (components a) (components b)).
Definition resolve_s (a r : str) : str := render (resolve (components a) (components r)).
