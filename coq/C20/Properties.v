(** C20 — property theorems only.  Each is closed by [exact] of a lemma in Proofs.v and
    followed by [Print Assumptions]. *)
From V Require Import Base.Util C20.Model C20.Proofs C20.StrProofs.

Theorem C20_normalize_idempotent : forall p, normalize (normalize p) = normalize p.
Proof. exact normalize_idem. Qed.
Print Assumptions C20_normalize_idempotent.

Theorem C20_normalize_no_dots : forall p, Forall (fun c => c <> Cur /\ c <> Par) (normalize p).
Proof. exact normalize_no_dots. Qed.
Print Assumptions C20_normalize_no_dots.

Theorem C20_relative_total : forall a b, relative a b <> None.
Proof. exact relative_total. Qed.
Print Assumptions C20_relative_total.

Theorem C20_roundtrip : forall a b,
  abs_ok a = true -> abs_ok b = true -> is_file a = true ->
  exists r, relative a b = Some r /\ resolve a r = normalize b.
Proof. exact roundtrip. Qed.
Print Assumptions C20_roundtrip.

Theorem C20_relative_starts_dot : forall a b r,
  abs_ok a = true -> abs_ok b = true -> relative a b = Some r ->
  r = [] \/ exists t, r = Cur :: t \/ r = Par :: t.
Proof. exact relative_starts_dot. Qed.
Print Assumptions C20_relative_starts_dot.

Theorem C20_relative_empty_iff : forall a b,
  abs_ok a = true -> abs_ok b = true ->
  (relative a b = Some [] <-> normalize b = pop (normalize a)).
Proof. exact relative_empty_iff. Qed.
Print Assumptions C20_relative_empty_iff.

(** string level: reading back a written path gives its components *)
Theorem C20_components_render : forall cs, canonical cs = true -> components (render cs) = cs.
Proof. exact components_render. Qed.
Print Assumptions C20_components_render.
