(** C20 — the import specifier written into operation declaration files:
    [path_to_ts(relative_path(decl_file, schema_output))] (crates/cli/src/generate.rs), with the
    extension table regenerated from the source on every run (Gen/C20_tables_gen.v). *)
From V Require Import Base.Util C20.Model Gen.C20_tables_gen.

Fixpoint ends_with (n suffix : str) : bool :=
  if str_eqb n suffix then true
  else match n with [] => false | _ :: r => ends_with r suffix end.

(** [file_name.truncate(len - ts_ext.len())]: drop the last [length ext] characters *)
Definition truncate_suffix (n ext : str) : str := firstn (length n - length ext) n.

Fixpoint rename (tbl : list (str * str)) (n : str) : option str :=
  match tbl with
  | [] => None
  | (ts, js) :: r => if ends_with n ts then Some (truncate_suffix n ts ++ js) else rename r n
  end.

(** [path_to_ts] on component lists: [file_name()] is the last component when it is a name *)
Definition path_to_ts (tbl : list (str * str)) (cs : list comp) : list comp :=
  match rev cs with
  | Name n :: r => match rename tbl n with Some n' => rev (Name n' :: r) | None => cs end
  | _ => cs
  end.

Definition specifier_s (decl schema : str) : option str :=
  option_map (fun r => render (path_to_ts ts_to_js r)) (relative (components decl) (components schema)).

(** what the emitted specifier must resolve to: same directory as the schema output, file name mapped *)
Definition dir_of (cs : list comp) : list comp := pop cs.
