(** Pinned statements of the C20 property theorems: compiled on every check, so a theorem
    cannot be weakened silently. *)
From V Require Import Base.Util C20.Model C20.StrProofs C20.Properties.

Check (C20_normalize_idempotent : forall p, normalize (normalize p) = normalize p).
Check (C20_normalize_no_dots : forall p, Forall (fun c => c <> Cur /\ c <> Par) (normalize p)).
Check (C20_relative_total : forall a b, relative a b <> None).
Check (C20_roundtrip : forall a b,
  abs_ok a = true -> abs_ok b = true -> is_file a = true ->
  exists r, relative a b = Some r /\ resolve a r = normalize b).
Check (C20_relative_starts_dot : forall a b r,
  abs_ok a = true -> abs_ok b = true -> relative a b = Some r ->
  r = [] \/ exists t, r = Cur :: t \/ r = Par :: t).
Check (C20_relative_empty_iff : forall a b,
  abs_ok a = true -> abs_ok b = true ->
  (relative a b = Some [] <-> normalize b = pop (normalize a))).
Print Assumptions C20_relative_empty_iff.
Check (C20_components_render : forall cs, canonical cs = true -> components (render cs) = cs).
Print Assumptions C20_components_render.
Print Assumptions C20_normalize_idempotent.
Print Assumptions C20_normalize_no_dots.
Print Assumptions C20_relative_total.
Print Assumptions C20_roundtrip.
Print Assumptions C20_relative_starts_dot.
