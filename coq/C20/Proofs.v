(** C20 — proofs about the path model. *)
From V Require Import Base.Util C20.Model.

(** ** Shape of normalised paths *)

(** reversed stacks reachable by [nstep]: names on top of an optional root *)
Inductive RClean : list comp -> Prop :=
| RC_nil : RClean []
| RC_root : RClean [Root]
| RC_name n st : RClean st -> RClean (Name n :: st).

Lemma RClean_tl st : RClean st -> RClean (tl st).
Proof. intros H; destruct H; cbn; auto using RClean. Qed.

Lemma nstep_clean st c : RClean st -> RClean (nstep st c).
Proof. intros H; destruct c; cbn; auto using RClean, RClean_tl. Qed.

Lemma run_clean cs : forall st, RClean st -> RClean (fold_left nstep cs st).
Proof. induction cs as [|c cs IH]; cbn; intros st H; auto using nstep_clean. Qed.

Lemma run_rev_clean st : RClean st -> fold_left nstep (rev st) [] = st.
Proof.
  induction 1 as [| |n st H IH]; cbn; auto.
  rewrite fold_left_app, IH; reflexivity.
Qed.

Lemma normalize_idem p : normalize (normalize p) = normalize p.
Proof.
  unfold normalize. rewrite run_rev_clean; [reflexivity|].
  apply run_clean; constructor.
Qed.

Lemma RClean_no_dots st : RClean st -> Forall (fun c => c <> Cur /\ c <> Par) st.
Proof. induction 1; constructor; auto; split; discriminate. Qed.

Lemma normalize_no_dots p : Forall (fun c => c <> Cur /\ c <> Par) (normalize p).
Proof.
  unfold normalize. apply Forall_rev, RClean_no_dots, run_clean; constructor.
Qed.

(** ** Absolute, non-climbing paths *)

Definition stk (ns : list str) : list comp := rev (Root :: map Name ns).
Arguments stk : simpl never.

Lemma stk_snoc ns n : stk (ns ++ [n]) = Name n :: stk ns.
Proof. unfold stk; cbn. rewrite map_app, rev_app_distr; reflexivity. Qed.

Lemma stk_tl ns n : tl (stk (ns ++ [n])) = stk ns.
Proof. rewrite stk_snoc; reflexivity. Qed.

Lemma run_abs t : forall ns,
  tail_ok t = true -> no_climb_d (length ns) t = true ->
  exists ns', fold_left nstep t (stk ns) = stk ns'.
Proof.
  induction t as [|c t IH]; intros ns Hok Hnc; cbn [fold_left nstep tail_ok forallb no_climb_d] in *.
  - eauto.
  - apply andb_prop in Hok as [Hc Hok].
    destruct c as [| | |n]; try discriminate.
    + (* Par *)
      destruct (exists_last (l := ns)) as (ns0 & x & ->).
      { destruct ns; cbn in *; congruence. }
      rewrite app_length in Hnc; cbn in Hnc. rewrite Nat.add_comm in Hnc; cbn in Hnc.
      change (nstep (stk (ns0 ++ [x])) Par) with (tl (stk (ns0 ++ [x]))).
      rewrite stk_tl. apply IH; auto.
    + (* Name *)
      change (nstep (stk ns) (Name n)) with (Name n :: stk ns).
      rewrite <- stk_snoc. apply IH; auto.
      rewrite app_length, Nat.add_comm; cbn; auto.
Qed.

Lemma no_climb_app t1 : forall d t2, no_climb_d d (t1 ++ t2) = true -> no_climb_d d t1 = true.
Proof.
  induction t1 as [|c t1 IH]; cbn; intros d t2 H; auto.
  destruct c; eauto. destruct d; [discriminate|eauto].
Qed.

Lemma tail_ok_app t1 t2 : tail_ok (t1 ++ t2) = true -> tail_ok t1 = true /\ tail_ok t2 = true.
Proof. unfold tail_ok; rewrite forallb_app; apply andb_prop. Qed.

Lemma normalize_abs t : tail_ok t = true -> no_climb_d 0 t = true ->
  exists ns, normalize (Root :: t) = Root :: map Name ns /\ fold_left nstep t [Root] = stk ns.
Proof.
  intros Hok Hnc. destruct (run_abs t [] Hok Hnc) as (ns & H).
  exists ns. unfold normalize; cbn. change [Root] with (stk []). rewrite H.
  unfold stk. rewrite rev_involutive. auto.
Qed.

(** ** [relative] never reaches its panic branch *)

Lemma RClean_rev_reverse st : RClean st -> forall x, (exists p, rev st = p ++ x) -> reverse_from x <> None.
Proof.
  intros Hc x (p & Hp).
  assert (Hf : Forall (fun c => c <> Cur /\ c <> Par) x).
  { apply RClean_no_dots in Hc. apply Forall_rev in Hc. rewrite Hp in Hc.
    apply Forall_app in Hc; tauto. }
  clear -Hf. induction Hf as [|c x [H1 H2] _ IH]; cbn; [discriminate|].
  destruct c; try congruence; destruct (reverse_from x); cbn; congruence.
Qed.

Lemma strip_common_suffix x : forall y x' y', strip_common x y = (x', y') ->
  exists p, x = p ++ x' /\ y = p ++ y'.
Proof.
  induction x as [|c x IH]; intros y x' y' H; cbn in H.
  - inversion H; subst. exists []; auto.
  - destruct y as [|d y]. { inversion H; subst. exists []; auto. }
    destruct (comp_eqb c d) eqn:E.
    + destruct (IH _ _ _ H) as (p & -> & ->).
      assert (c = d) as ->.
      { destruct c, d; cbn in E; try discriminate; auto.
        destruct (str_eqb_spec n n0); congruence. }
      exists (d :: p); auto.
    + inversion H; subst. exists []; auto.
Qed.

Lemma pop_clean l : RClean (rev l) -> RClean (rev (pop l)).
Proof.
  unfold pop. destruct (rev l) as [|c r] eqn:E; intros H; [rewrite E; auto|].
  destruct c; try (rewrite E; assumption); rewrite rev_involutive; inversion H; subst; auto.
Qed.

Lemma relative_total a b : relative a b <> None.
Proof.
  unfold relative.
  destruct (strip_common (pop (normalize a)) (normalize b)) as [x y] eqn:E.
  apply strip_common_suffix in E as (p & Hx & _).
  assert (Hc : RClean (rev (pop (normalize a)))).
  { apply pop_clean. unfold normalize. rewrite rev_involutive. apply run_clean; constructor. }
  pose proof (RClean_rev_reverse _ Hc x) as Hr.
  destruct (reverse_from x); [discriminate|].
  exfalso; apply Hr; auto. exists p. rewrite rev_involutive; auto.
Qed.

(** ** Round trip *)

Lemma strip_common_names xs : forall ys, exists c x y,
  xs = c ++ x /\ ys = c ++ y /\
  strip_common (map Name xs) (map Name ys) = (map Name x, map Name y) /\
  (x = [] \/ y = [] \/ hd_error x <> hd_error y).
Proof.
  induction xs as [|a xs IH]; intros ys.
  - exists [], [], ys; cbn; repeat split; auto.
  - destruct ys as [|b ys].
    + exists [], (a :: xs), []; cbn; repeat split; auto.
    + cbn. destruct (str_eqb_spec a b) as [->|Hn].
      * destruct (IH ys) as (c & x & y & -> & -> & E & Hd).
        exists (b :: c), x, y; cbn; repeat split; auto.
      * exists [], (a :: xs), (b :: ys); cbn; repeat split; auto.
        right; right; congruence.
Qed.

Lemma reverse_from_names x : reverse_from (map Name x) = Some (repeat Par (length x)).
Proof. induction x as [|n x IH]; cbn; auto. rewrite IH; reflexivity. Qed.

Definition plain (c : comp) : bool := match c with Root | Cur => false | _ => true end.

Lemma push1_plain l : forall base, forallb plain l = true -> fold_left push1 l base = base ++ l.
Proof.
  induction l as [|c l IH]; intros base H; cbn in *; [now rewrite app_nil_r|].
  apply andb_prop in H as [Hc H]. rewrite IH by auto.
  destruct c; try discriminate; cbn; now rewrite <- app_assoc.
Qed.

Lemma plain_ups_names k y : forallb plain (repeat Par k ++ map Name y) = true.
Proof.
  rewrite forallb_app. apply andb_true_intro; split.
  - induction k; cbn; auto.
  - induction y; cbn; auto.
Qed.

(** pushing then normalising = normalising the concatenation *)
Lemma run_push rel : forall base st,
  fold_left nstep (fold_left push1 rel base) st = fold_left nstep rel (fold_left nstep base st).
Proof.
  induction rel as [|c rel IH]; intros base st; cbn; auto.
  rewrite IH. f_equal.
  destruct c; cbn.
  - reflexivity.
  - destruct base; cbn; auto.
  - rewrite fold_left_app; reflexivity.
  - rewrite fold_left_app; reflexivity.
Qed.

Lemma run_pops x : forall c, fold_left nstep (repeat Par (length x)) (stk (c ++ x)) = stk c.
Proof.
  induction x as [|n x IH] using rev_ind; intros c; cbn.
  - now rewrite app_nil_r.
  - rewrite app_length, Nat.add_comm; cbn.
    rewrite app_assoc, stk_tl. apply IH.
Qed.

Lemma run_names y : forall c, fold_left nstep (map Name y) (stk c) = stk (c ++ y).
Proof.
  induction y as [|n y IH]; intros c; cbn; [now rewrite app_nil_r|].
  rewrite <- stk_snoc, IH, <- app_assoc; reflexivity.
Qed.

Lemma is_file_split a : is_file a = true -> exists a' f, a = a' ++ [Name f].
Proof.
  unfold is_file. destruct (rev a) as [|c r] eqn:E; [discriminate|].
  destruct c; try discriminate. intros _.
  exists (rev r), n. rewrite <- (rev_involutive a), E; reflexivity.
Qed.

Lemma pop_snoc_name l f : pop (l ++ [Name f]) = l.
Proof. unfold pop. rewrite rev_app_distr; cbn. apply rev_involutive. Qed.

Lemma build_result_shape k y :
  build_result (repeat Par k ++ map Name y) =
    match k, y with
    | O, [] => []
    | O, _ => Cur :: map Name y
    | _, _ => repeat Par k ++ map Name y
    end.
Proof.
  destruct k as [|k].
  - destruct y as [|n y]; cbn; auto.
    change (fold_left push1 (map Name y) [Cur; Name n])
      with (fold_left push1 (map Name y) ([Cur; Name n])).
    rewrite push1_plain; auto. induction y; cbn; auto.
  - cbn [repeat app build_result]. cbn [fold_left push1 app].
    rewrite push1_plain; auto. apply (plain_ups_names k y).
Qed.

Lemma roundtrip a b :
  abs_ok a = true -> abs_ok b = true -> is_file a = true ->
  exists r, relative a b = Some r /\ resolve a r = normalize b.
Proof.
  intros Ha Hb Hf.
  destruct a as [|ra ta]; [discriminate|]. destruct ra; try discriminate.
  destruct b as [|rb tb]; [discriminate|]. destruct rb; try discriminate.
  cbn in Ha, Hb. apply andb_prop in Ha as [Hoka Hnca]. apply andb_prop in Hb as [Hokb Hncb].
  destruct (is_file_split _ Hf) as (a' & f & Ea).
  destruct a' as [|ra' ta']; [destruct ta; discriminate|].
  cbn in Ea. injection Ea as <- ->.
  apply tail_ok_app in Hoka as [Hoka' _]. pose proof (no_climb_app _ _ _ Hnca) as Hnca'.
  destruct (normalize_abs ta' Hoka' Hnca') as (as' & Hna' & Hra').
  destruct (normalize_abs tb Hokb Hncb) as (bs & Hnb & Hrb).
  assert (Hna : normalize (Root :: ta' ++ [Name f]) = Root :: map Name as' ++ [Name f]).
  { unfold normalize in *. cbn [fold_left nstep] in *. rewrite fold_left_app. cbn.
    rewrite Hra'. unfold stk. rewrite rev_involutive. reflexivity. }
  unfold relative. rewrite Hna, Hnb.
  change (Root :: map Name as' ++ [Name f]) with ((Root :: map Name as') ++ [Name f]).
  rewrite pop_snoc_name. cbn [strip_common comp_eqb].
  destruct (strip_common_names as' bs) as (c & x & y & -> & -> & E & _).
  rewrite E, reverse_from_names. eexists; split; [reflexivity|].
  unfold resolve.
  change (Root :: ta' ++ [Name f]) with ((Root :: ta') ++ [Name f]). rewrite pop_snoc_name.
  rewrite build_result_shape.
  assert (Hgoal : forall rel, (forall st, fold_left nstep rel st = fold_left nstep (repeat Par (length x) ++ map Name y) st) ->
            match rel with Root :: _ => False | _ => True end ->
            normalize (push (Root :: ta') rel) = Root :: map Name (c ++ y)).
  { intros rel Hrel Hnr. unfold normalize, push.
    destruct rel as [|r0 rel']; [|destruct r0; try contradiction];
    rewrite run_push, Hrel; cbn [fold_left nstep]; rewrite Hra';
    rewrite fold_left_app, run_pops, run_names; unfold stk; now rewrite rev_involutive. }
  destruct (length x) as [|k] eqn:Ek.
  - destruct y as [|n y].
    + apply Hgoal; auto.
    + apply Hgoal; auto.
  - apply Hgoal; cbn; auto.
Qed.

(** ** First component of the relative path *)

Lemma relative_shape_full a b :
  abs_ok a = true -> abs_ok b = true ->
  exists c x y,
    pop (normalize a) = Root :: map Name (c ++ x) /\
    normalize b = Root :: map Name (c ++ y) /\
    relative a b = Some (build_result (repeat Par (length x) ++ map Name y)) /\
    (x = [] \/ y = [] \/ hd_error x <> hd_error y).
Proof.
  intros Ha Hb.
  destruct a as [|ra ta]; [discriminate|]. destruct ra; try discriminate.
  destruct b as [|rb tb]; [discriminate|]. destruct rb; try discriminate.
  cbn in Ha, Hb. apply andb_prop in Ha as [Hoka Hnca]. apply andb_prop in Hb as [Hokb Hncb].
  destruct (normalize_abs ta Hoka Hnca) as (as' & Hna & _).
  destruct (normalize_abs tb Hokb Hncb) as (bs & Hnb & _).
  unfold relative. rewrite Hna, Hnb.
  assert (Hpop : exists as'', pop (Root :: map Name as') = Root :: map Name as'').
  { clear. induction as' as [|n l _] using rev_ind.
    - exists []. reflexivity.
    - exists l. rewrite map_app. cbn [map].
      change (Root :: map Name l ++ [Name n]) with ((Root :: map Name l) ++ [Name n]).
      apply pop_snoc_name. }
  destruct Hpop as (as'' & ->). cbn [strip_common comp_eqb].
  destruct (strip_common_names as'' bs) as (c & x & y & -> & -> & E & Hd).
  rewrite E, reverse_from_names. exists c, x, y. auto.
Qed.

Lemma relative_shape a b :
  abs_ok a = true -> abs_ok b = true ->
  exists k y, relative a b = Some (build_result (repeat Par k ++ map Name y)).
Proof.
  intros Ha Hb. destruct (relative_shape_full a b Ha Hb) as (c & x & y & _ & _ & E & _). eauto.
Qed.

Lemma map_Name_inj x y : map Name x = map Name y -> x = y.
Proof.
  revert y; induction x as [|a x IH]; intros [|b y] H; cbn in H; try discriminate; auto.
  injection H as -> H. f_equal; auto.
Qed.

(** the relative path is empty exactly when [b] is the directory that contains [a] *)
Lemma relative_empty_iff a b :
  abs_ok a = true -> abs_ok b = true ->
  (relative a b = Some [] <-> normalize b = pop (normalize a)).
Proof.
  intros Ha Hb. destruct (relative_shape_full a b Ha Hb) as (c & x & y & Hp & Hn & E & Hd).
  rewrite E, Hp, Hn, build_result_shape. split.
  - intros H. destruct x as [|n x]; cbn [length] in H.
    + destruct y; [reflexivity|discriminate].
    + destruct y; cbn in H; discriminate.
  - intros H. injection H as H. apply map_Name_inj, app_inv_head in H. subst y.
    destruct Hd as [->| [->|Hd]]; try reflexivity. congruence.
Qed.

Lemma relative_starts_dot a b r :
  abs_ok a = true -> abs_ok b = true -> relative a b = Some r ->
  r = [] \/ exists t, r = Cur :: t \/ r = Par :: t.
Proof.
  intros Ha Hb Hr. destruct (relative_shape a b Ha Hb) as (k & y & E).
  rewrite E in Hr. injection Hr as <-. rewrite build_result_shape.
  destruct k; [destruct y|]; cbn; eauto.
Qed.
