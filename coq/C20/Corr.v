(** C20 — correspondence and spec-side predicates evaluated on the implementation's outputs. *)
From V Require Import Base.Util C20.Model.

Inductive case :=
| CNorm (p out out2 : str)                       (* out = normalize_path(p), out2 = normalize_path(out) *)
| CRes (a r out : str)                           (* out = resolve_relative_path(a, r) *)
| CRound (a b : str) (rel : option str) (res : option str) (normb : str).
    (* rel = relative_path(a,b) (None = panic), res = resolve_relative_path(a, rel), normb = normalize_path(b) *)

Definition agree (c : case) : bool :=
  match c with
  | CNorm p out out2 => str_eqb (normalize_s p) out && str_eqb (normalize_s out) out2
  | CRes a r out => str_eqb (resolve_s a r) out
  | CRound a b rel res normb =>
      option_eqb str_eqb (relative_s a b) rel
      && option_eqb str_eqb (option_map (resolve_s a) rel) res
      && str_eqb (normalize_s b) normb
  end.

Definition no_dots (cs : list comp) : bool :=
  forallb (fun c => match c with Cur | Par => false | _ => true end) cs.

Definition starts_dot_or_empty (cs : list comp) : bool :=
  match cs with [] | Cur :: _ | Par :: _ => true | _ => false end.

(** the property, read on the implementation's own outputs *)
Definition holds (c : case) : bool :=
  match c with
  | CNorm p out out2 =>
      str_eqb out out2 &&
      (match components p with Root :: _ => no_dots (components out) | _ => true end)
  | CRes _ _ _ => true
  | CRound a b rel res normb =>
      let ca := components a in let cb := components b in
      if abs_ok ca && abs_ok cb then
        match rel with
        | None => false
        | Some r =>
            starts_dot_or_empty (components r) &&
            (if is_file ca then option_eqb str_eqb res (Some normb) else true)
        end
      else true
  end.
