(** C20 — correspondence and spec-side predicates evaluated on the implementation's outputs. *)
From V Require Import Base.Util C20.Model Gen.C20_tables_gen C20.Specifier.

Inductive case :=
| CNorm (p out out2 : str)                       (* out = normalize_path(p), out2 = normalize_path(out) *)
| CRes (a r out : str)                           (* out = resolve_relative_path(a, r) *)
| CRound (a b : str) (rel : option str) (res : option str) (normb : str)
| CSpec (decl schema out : str)      (* out = import specifier the real CLI wrote into decl for the schema output *)
| CSource (map_file input src : str). (* src = an entry of "sources" the real CLI wrote into map_file; input = the file meant *)
    (* rel = relative_path(a,b) (None = panic), res = resolve_relative_path(a, rel), normb = normalize_path(b) *)

Definition agree (c : case) : bool :=
  match c with
  | CNorm p out out2 => str_eqb (normalize_s p) out && str_eqb (normalize_s out) out2
  | CRes a r out => str_eqb (resolve_s a r) out
  | CRound a b rel res normb =>
      option_eqb str_eqb (relative_s a b) rel
      && option_eqb str_eqb (option_map (resolve_s a) rel) res
      && str_eqb (normalize_s b) normb
  | CSpec decl schema out => option_eqb str_eqb (specifier_s decl schema) (Some out)
  | CSource mapf input src => option_eqb str_eqb (relative_s mapf input) (Some src)
  end.

Definition no_dots (cs : list comp) : bool :=
  forallb (fun c => match c with Cur | Par => false | _ => true end) cs.

Definition starts_dot_or_empty (cs : list comp) : bool :=
  match cs with [] | Cur :: _ | Par :: _ => true | _ => false end.

(** the property, read on the implementation's own outputs *)
Definition holds (c : case) : bool :=
  match c with
  | CNorm p out out2 =>
      str_eqb out out2 &&
      (match components p with Root :: _ => no_dots (components out) | _ => true end)
  | CRes _ _ _ => true
  | CRound a b rel res normb =>
      let ca := components a in let cb := components b in
      if abs_ok ca && abs_ok cb then
        match rel with
        | None => false
        | Some r =>
            starts_dot_or_empty (components r) &&
            (if is_file ca then option_eqb str_eqb res (Some normb) else true)
        end
      else true
  | CSpec decl schema out =>
      let r := components out in
      let landed := resolve (components decl) r in
      let want := normalize (components schema) in
      match r with Cur :: _ | Par :: _ => true | _ => false end
      && list_eqb comp_eqb (dir_of landed) (dir_of want)
      && match rev landed, rev want with
         | Name l :: _, Name w :: _ =>
             str_eqb l (match rename ts_to_js w with Some w' => w' | None => w end)
         | _, _ => false
         end
  | CSource mapf input src =>
      match components src with Cur :: _ | Par :: _ => true | _ => false end
      && str_eqb (resolve_s mapf src) (normalize_s input)
  end.
