(** C11 — correspondence and the spec-side predicate evaluated on the implementation's outputs.
    One case = the abstract item lists of 1–4 rendered schema files (positions as the parser must
    report them), the builtin items the CLI appends, and what the real
    parse_type_system_document → TypeSystemOrExtensionDocument::merge → (+ builtins) →
    resolve_schema_extensions produced, dumped canonically. *)
From V Require Import Base.Util C11.Model C11.Spec.

Inductive result :=
| ROk (out : list item)
| RErr (e : xerr) (diag : option pos) (info : list (pos * str)) (msg : str)
    (* PositionedError::from(e): position(), additional_info, Display of the inner error *)
| RPanic.                      (* a panic or parse failure inside the implementation *)

Inductive case := Case (files : list (list item)) (builtins : list item) (r : result).

Definition result_eqb (a : xerr + list item) (b : result) : bool :=
  match a, b with
  | inr x, ROk y => list_eqb item_eqb x y
  | inl e, RErr e' dg info msg =>
      xerr_eqb e e' && option_eqb pos_eqb (Some (diag_pos e)) dg
      && list_eqb (fun a b => pos_eqb (fst a) (fst b) && str_eqb (snd a) (snd b)) (additional_info e) info
      && str_eqb (error_message e) msg
  | _, _ => false
  end.

(** model output = implementation output, exactly (order of the output definitions included) *)
Definition agree (c : case) : bool :=
  match c with Case files builtins r => result_eqb (resolve_files files builtins) r end.

(** the property read on the implementation's own output: verdict exact, error located at an
    offending item, output = reference merge as a multiset, no extension left *)
Definition holds (c : case) : bool :=
  match c with
  | Case files builtins (ROk out) => spec_ok_b (merge_documents files ++ builtins) (OOk out)
  | Case files builtins (RErr e dg _ _) =>
      spec_ok_b (merge_documents files ++ builtins) (OErr e)
      && match dg, e with
         | Some p, DupOriginal _ _ p1 p2 => pos_eqb p p1 || pos_eqb p p2
         | Some p, NoOriginal _ p1 => pos_eqb p p1
         | None, _ => false
         end
  | Case _ _ RPanic => false
  end.
