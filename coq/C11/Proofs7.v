(** C11 — proofs, part 7: the guard-free statements of SpecFull.v. *)
From V Require Import Base.Util C11.Model C11.Spec C11.SpecFull C11.Corr
  C11.Proofs1 C11.Proofs2 C11.Proofs3 C11.Proofs4 C11.Proofs5 C11.Proofs6.
From Coq Require Import Permutation.

(** ---- the model's merge is the kind-aware reference merge, for every input ---- *)

Lemma merge_of_ref_k d es : merge_of (d_kind d) (d, es) = merge_ref_k d es.
Proof. destruct d as [k n p kp ds is ms]. destruct k; reflexivity. Qed.

Lemma model_merged_ref_k doc : model_merged doc = merged_defs_k doc.
Proof. unfold model_merged, merged_defs_k. apply map_ext. intros d. apply merge_of_ref_k. Qed.

Lemma resolve_exact_full doc out :
  resolve doc = inr out ->
  exists defs, out = map IDir (dirdefs doc) ++ map IDef defs /\ Permutation defs (merged_defs_k doc).
Proof. intros H. rewrite <- model_merged_ref_k. now apply resolve_exact_model. Qed.

Lemma model_spec_ok_full doc : spec_ok_full doc (outcome_of (resolve doc)).
Proof.
  destruct (resolve doc) as [e|out] eqn:E; cbn.
  - destruct e as [elem nm p1 p2|elem p].
    + apply dup_error_located in E.
      destruct E as (pre & d1 & mid & d2 & post & E & Hk & Hn & He & Hm & H1 & H2 & _).
      exists pre, d1, mid, d2, post. tauto.
    + apply orphan_error_located in E. destruct E as (_ & pre & k & post & x & _ & _ & Hfo & -> & ->).
      destruct (first_orphan_in_doc k doc x Hfo) as (Hin & <- & Hd).
      apply in_split in Hin. destruct Hin as (a & b & ->).
      exists a, x, b. tauto.
  - pose proof (resolve_ok_form doc out E) as [Hok _]. apply all_kinds_ok_iff in Hok.
    destruct Hok as [H1 H2]. repeat split; try assumption.
    + now apply no_extension_survives with (doc := doc).
    + destruct (resolve_exact_full doc out E) as [defs [-> P]].
      unfold reference_k. apply Permutation_app_head. now apply Permutation_map.
Qed.

(** on documents the Rust AST can represent, the kind-aware and the uniform reference coincide *)
Lemma reference_k_wf doc : wf_doc doc = true -> reference_k doc = reference doc.
Proof.
  intros Hwf. unfold reference_k, reference. f_equal. f_equal.
  rewrite <- model_merged_ref_k. now apply model_merged_ref.
Qed.

(** ---- which output definition is what: definition first, then its extensions in document
         order, across files ---- *)

Lemma merged_item_form doc out d' :
  resolve doc = inr out -> In (IDef d') out ->
  exists d, In (IDef d) doc /\ d' = merge_ref_k d (exts_of (d_kind d) (d_name d) doc).
Proof.
  intros H Hin. destruct (resolve_exact_full doc out H) as [defs [-> P]].
  apply in_app_or in Hin. destruct Hin as [Hin|Hin].
  - apply in_map_iff in Hin. destruct Hin as (a & Ha & _). discriminate.
  - apply in_map_iff in Hin. destruct Hin as (x & Hx & Hin). inversion Hx; subst x. clear Hx.
    apply (Permutation_in _ P) in Hin. unfold merged_defs_k in Hin.
    apply in_map_iff in Hin. destruct Hin as (d & <- & Hd).
    exists d. split; [|reflexivity].
    unfold all_defs in Hd. apply in_flat_map in Hd. destruct Hd as (it & Hit & Hd).
    destruct it; cbn in Hd; try tauto. destruct Hd as [->|[]]. assumption.
Qed.

Lemma exts_of_files k n files builtins :
  exts_of k n (merge_documents files ++ builtins) = flat_map (exts_of k n) files ++ exts_of k n builtins.
Proof.
  rewrite exts_of_app. f_equal. unfold merge_documents.
  induction files as [|f fs IH]; [reflexivity|]. cbn [concat flat_map]. now rewrite exts_of_app, IH.
Qed.

Lemma dirdefs_files files builtins :
  dirdefs (merge_documents files ++ builtins) = flat_map dirdefs files ++ dirdefs builtins.
Proof.
  rewrite dirdefs_app. f_equal. unfold merge_documents.
  induction files as [|f fs IH]; [reflexivity|]. cbn [concat flat_map]. now rewrite dirdefs_app, IH.
Qed.

Lemma merged_item_order files builtins out d' :
  resolve_files files builtins = inr out -> In (IDef d') out ->
  exists d, In (IDef d) (concat files ++ builtins) /\
    d' = merge_ref_k d (flat_map (exts_of (d_kind d) (d_name d)) files ++ exts_of (d_kind d) (d_name d) builtins).
Proof.
  intros H Hin. destruct (merged_item_form _ _ _ H Hin) as (d & Hd & ->).
  exists d. split; [exact Hd|]. now rewrite exts_of_files.
Qed.

(** ---- directive definitions ---- *)

Lemma dirdefs_out dirs defs : dirdefs (map IDir dirs ++ map IDef defs) = dirs.
Proof.
  rewrite dirdefs_app.
  assert (E1 : dirdefs (map IDir dirs) = dirs).
  { induction dirs as [|a l IH]; [reflexivity|]. unfold dirdefs in *. cbn. now rewrite IH. }
  assert (E2 : dirdefs (map IDef defs) = []) by (induction defs; [reflexivity|assumption]).
  now rewrite E1, E2, app_nil_r.
Qed.

Lemma directive_definitions_pass doc out :
  resolve doc = inr out ->
  dirdefs out = dirdefs doc /\ out = map IDir (dirdefs doc) ++ map IDef (all_defs out).
Proof.
  intros H. destruct (resolve_exact_full doc out H) as [defs [-> _]].
  now rewrite dirdefs_out, all_defs_out.
Qed.

(** ---- conservation: nothing lost, nothing invented ---- *)

Lemma flat_map_app_perm {A B} (f g : A -> list B) l :
  Permutation (flat_map (fun x => f x ++ g x) l) (flat_map f l ++ flat_map g l).
Proof.
  induction l as [|x l IH]; [constructor|]. cbn.
  rewrite <- !app_assoc. apply Permutation_app_head.
  eapply Permutation_trans; [apply Permutation_app_head, IH|].
  rewrite !app_assoc. apply Permutation_app_tail. apply Permutation_app_comm.
Qed.

Lemma flat_map_flat_map {A B C} (f : B -> list C) (g : A -> list B) l :
  flat_map f (flat_map g l) = flat_map (fun x => flat_map f (g x)) l.
Proof. induction l as [|x l IH]; [reflexivity|]. cbn. now rewrite flat_map_app, IH. Qed.

Lemma flat_map_of_map {A B C} (f : B -> list C) (g : A -> B) l :
  flat_map f (map g l) = flat_map (fun x => f (g x)) l.
Proof. induction l as [|x l IH]; [reflexivity|]. cbn. now rewrite IH. Qed.

Lemma tag_all_app k n c a b : tag_all k n c (a ++ b) = tag_all k n c a ++ tag_all k n c b.
Proof. apply map_app. Qed.

Lemma tag_all_flat_map k n c (f : ext -> list atom) es :
  tag_all k n c (flat_map f es) = flat_map (fun e => tag_all k n c (f e)) es.
Proof. unfold tag_all. now rewrite <- flat_map_map_comm. Qed.

Lemma perm_3x2 {A} (a b c d e f : list A) :
  Permutation ((a ++ b) ++ (c ++ d) ++ (e ++ f)) ((a ++ c ++ e) ++ (b ++ d ++ f)).
Proof.
  rewrite <- !app_assoc. apply Permutation_app_head.
  eapply Permutation_trans; [apply Permutation_app_swap_app|]. apply Permutation_app_head.
  change (Permutation (b ++ d ++ e ++ f) (e ++ b ++ d ++ f)).
  rewrite (app_assoc b d (e ++ f)), (app_assoc b d f). apply Permutation_app_swap_app.
Qed.

Lemma if_flat_map (b : bool) (f : ext -> list atom) (l : list atom) es :
  (if b then l ++ flat_map f es else l) = l ++ flat_map (fun e => if b then f e else []) es.
Proof.
  destruct b; [reflexivity|]. rewrite flat_map_nil; [now rewrite app_nil_r|reflexivity].
Qed.

Lemma merged_parts d es :
  (forall e, In e es -> e_kind e = d_kind d /\ e_name e = d_name d) ->
  Permutation (def_parts (merge_ref_k d es)) (def_parts d ++ flat_map ext_parts es).
Proof.
  intros Hk. unfold def_parts, merge_ref_k.
  cbn [d_kind d_name d_dirs d_impls d_members].
  rewrite !if_flat_map, !tag_all_app, !tag_all_flat_map.
  eapply Permutation_trans; [apply perm_3x2|]. apply Permutation_app_head.
  eapply Permutation_trans; [|symmetry; apply flat_map_app_perm].
  apply Permutation_app; [|eapply Permutation_trans; [|symmetry; apply flat_map_app_perm]; apply Permutation_app].
  - erewrite flat_map_ext_in; [apply Permutation_refl|]. intros e He. destruct (Hk e He) as [-> ->]. reflexivity.
  - erewrite flat_map_ext_in; [apply Permutation_refl|]. intros e He. destruct (Hk e He) as [-> ->]. reflexivity.
  - erewrite flat_map_ext_in; [apply Permutation_refl|]. intros e He. destruct (Hk e He) as [-> ->]. reflexivity.
Qed.

(** every extension belongs to exactly one definition when nothing is duplicated or orphaned *)
Definition key_of_def (d : def) : kind * key := (d_kind d, d_name d).
Definition key_of_ext (e : ext) : kind * key := (e_kind e, e_name e).
Definition pair_eqb (a b : kind * key) : bool := same_key (fst a) (snd a) (fst b) (snd b).

Lemma pair_eqb_spec a b : reflect (a = b) (pair_eqb a b).
Proof.
  destruct a as [k n], b as [k' n']. unfold pair_eqb. cbn.
  destruct (same_key k n k' n') eqn:E; constructor.
  - apply same_key_true in E. destruct E; congruence.
  - intros H. inversion H; subst. assert (T : same_key k' n' k' n' = true) by (apply same_key_true; tauto). congruence.
Qed.

Lemma def_keys_nodup (l : list def) :
  (forall k n, length (filter (def_has_key k n) l) <= 1) -> NoDup (map key_of_def l).
Proof.
  induction l as [|d l IH]; intros H; [constructor|]. cbn. constructor.
  - intros Hin. apply in_map_iff in Hin. destruct Hin as (d' & Hk & Hd').
    specialize (H (d_kind d) (d_name d)). cbn in H.
    unfold def_has_key at 1 in H. assert (T : same_key (d_kind d) (d_name d) (d_kind d) (d_name d) = true) by (apply same_key_true; tauto).
    rewrite T in H. cbn in H.
    assert (Hf : In d' (filter (def_has_key (d_kind d) (d_name d)) l)).
    { apply filter_In. split; [assumption|]. unfold def_has_key. unfold key_of_def in Hk. inversion Hk. apply same_key_true. tauto. }
    destruct (filter (def_has_key (d_kind d) (d_name d)) l); [destruct Hf|cbn in H; lia].
  - apply IH. intros k n. specialize (H k n). cbn in H. destruct (def_has_key k n d); cbn in H; lia.
Qed.

Lemma exts_grouped doc :
  all_kinds_ok doc ->
  Permutation (flat_map (fun d => exts_for d doc) (all_defs doc)) (all_exts doc).
Proof.
  intros Hok. pose proof (proj1 (all_kinds_ok_iff doc) Hok) as [Hnd Hno].
  pose proof (group_perm key_of_ext pair_eqb pair_eqb_spec (map key_of_def (all_defs doc)) (all_exts doc)) as G.
  rewrite flat_map_of_map in G. apply G.
  - apply def_keys_nodup. intros k n. apply (proj2 (nodup_iff doc) Hnd k n).
  - intros e He.
    destruct (defs_of (e_kind e) (e_name e) doc) as [|d r] eqn:E.
    + exfalso. apply Hno. exists (e_kind e), (e_name e). split; [|assumption].
      intros En. assert (Hin : In e (exts_of (e_kind e) (e_name e) doc)).
      { unfold exts_of. apply filter_In. split; [assumption|]. unfold ext_has_key. apply same_key_true. tauto. }
      rewrite En in Hin. destruct Hin.
    + assert (Hin : In d (defs_of (e_kind e) (e_name e) doc)) by (rewrite E; now left).
      unfold defs_of in Hin. apply filter_In in Hin. destruct Hin as [Hd Hk].
      unfold def_has_key in Hk. apply same_key_true in Hk. destruct Hk as [Hk Hn].
      apply in_map_iff. exists d. split; [|assumption]. unfold key_of_def, key_of_ext. congruence.
Qed.

Lemma conservation doc out :
  resolve doc = inr out ->
  Permutation (parts_out out) (parts_in doc) /\
  Permutation (map def_head (all_defs out)) (map def_head (all_defs doc)) /\
  dirdefs out = dirdefs doc.
Proof.
  intros H. pose proof (resolve_ok_form doc out H) as [Hok _].
  destruct (resolve_exact_full doc out H) as [defs [-> P]].
  unfold parts_out. rewrite all_defs_out, dirdefs_out. repeat split.
  - eapply Permutation_trans; [apply Permutation_flat_map, P|].
    unfold merged_defs_k, parts_in. rewrite flat_map_of_map.
    eapply Permutation_trans.
    { apply flat_map_perm. intros d _. apply merged_parts. intros e He.
      unfold exts_for in He. apply in_exts_of in He. tauto. }
    eapply Permutation_trans; [apply flat_map_app_perm|]. apply Permutation_app_head.
    rewrite <- flat_map_flat_map. apply Permutation_flat_map. now apply exts_grouped.
  - eapply Permutation_trans; [apply Permutation_map, P|].
    unfold merged_defs_k. rewrite map_map. erewrite map_ext; [apply Permutation_refl|]. reflexivity.
Qed.
