(** C11 — proofs, part 2: closed form of one registry after the scanning loop. *)
From V Require Import Base.Util C11.Model C11.Spec C11.Proofs1.
From Coq Require Import Permutation.

(** registry entry of key [n] as the specification sees it *)
Definition spec_item (k : kind) (doc : list item) (n : key) : eitem :=
  mkeitem (hd_error (defs_of k n doc)) (exts_of k n doc).
Definition el_of (F : key -> eitem) (ks : list key) : elist := map (fun n => (n, F n)) ks.
Definition el_spec (k : kind) (doc : list item) : elist := el_of (spec_item k doc) (keys k doc).

Lemma el_find_of F n ks : el_find n (el_of F ks) = if mem_key n ks then Some (F n) else None.
Proof.
  induction ks as [|m ks IH]; [reflexivity|].
  cbn [el_of map el_find mem_key existsb]. fold (mem_key n ks). fold (el_of F ks).
  destruct (key_eqb_spec n m) as [->|Hn]; [reflexivity|]. exact IH.
Qed.

Lemma el_of_ext F G ks : (forall n, In n ks -> F n = G n) -> el_of F ks = el_of G ks.
Proof. intros H. apply map_ext_in. intros n Hn. now rewrite H. Qed.

Lemma el_of_app F a b : el_of F (a ++ b) = el_of F a ++ el_of F b.
Proof. apply map_app. Qed.

Lemma upsert_of F f n ks : NoDup ks ->
  el_upsert n f (el_of F ks) =
  if mem_key n ks then el_of (fun m => if key_eqb n m then f (F m) else F m) ks
  else el_of F ks ++ [(n, f eitem_default)].
Proof.
  induction ks as [|m ks IH]; intros Hnd; [reflexivity|].
  inversion Hnd as [|? ? Hm Hks]; subst.
  cbn [el_of map el_upsert mem_key existsb]. fold (mem_key n ks). fold (el_of F ks).
  destruct (key_eqb_spec n m) as [->|Hn]; cbn [orb].
  - f_equal. apply el_of_ext. intros m' Hm'.
    destruct (key_eqb_spec m m') as [->|]; [contradiction|reflexivity].
  - rewrite IH by assumption. destruct (mem_key n ks); reflexivity.
Qed.

(** ---- keys ---- *)

Lemma keys_acc_nodup k doc : forall acc, NoDup acc -> NoDup (keys_acc k doc acc).
Proof.
  induction doc as [|it r IH]; intros acc H; [assumption|]. cbn. apply IH. now apply add_key_nodup.
Qed.

Lemma keys_nodup k doc : NoDup (keys k doc).
Proof. apply keys_acc_nodup. constructor. Qed.

Lemma in_add_key n o ks : In n (add_key o ks) <-> In n ks \/ o = Some n.
Proof.
  destruct o as [m|]; cbn.
  - destruct (mem_key m ks) eqn:E.
    + split; [tauto|]. intros [H|H]; [assumption|]. inversion H; subst. now apply mem_key_In.
    + rewrite in_app_iff. cbn. split.
      * intros [H|[->|[]]]; tauto.
      * intros [H|H]; [tauto|]. inversion H; subst. tauto.
  - split; [tauto|]. intros [H|H]; [assumption|discriminate].
Qed.

Lemma defs_of_single k n it :
  defs_of k n [it] = match it with IDef d => if same_key k n (d_kind d) (d_name d) then [d] else [] | _ => [] end.
Proof.
  destruct it as [d|e|a]; reflexivity.
Qed.

Lemma exts_of_single k n it :
  exts_of k n [it] = match it with IExt e => if same_key k n (e_kind e) (e_name e) then [e] else [] | _ => [] end.
Proof.
  destruct it as [d|e|a]; reflexivity.
Qed.

Lemma single_no_key k n it : item_key k it <> Some n -> defs_of k n [it] = [] /\ exts_of k n [it] = [].
Proof.
  intros H. rewrite defs_of_single, exts_of_single. destruct it as [d|e|a]; cbn in H; split; try reflexivity.
  - destruct (same_key k n (d_kind d) (d_name d)) eqn:E; [|reflexivity].
    apply same_key_true in E. destruct E as [-> ->]. rewrite kind_eqb_refl in H. now elim H.
  - destruct (same_key k n (e_kind e) (e_name e)) eqn:E; [|reflexivity].
    apply same_key_true in E. destruct E as [-> ->]. rewrite kind_eqb_refl in H. now elim H.
Qed.

Lemma not_in_keys k doc : forall n, ~ In n (keys k doc) -> defs_of k n doc = [] /\ exts_of k n doc = [].
Proof.
  induction doc as [|it doc IH] using rev_ind; intros n H; [split; reflexivity|].
  rewrite keys_snoc, in_add_key in H.
  destruct (IH n) as [H1 H2]; [tauto|].
  destruct (single_no_key k n it) as [H3 H4]; [tauto|].
  rewrite defs_of_app, exts_of_app, H1, H2, H3, H4. split; reflexivity.
Qed.

Lemma in_keys k doc : forall n, In n (keys k doc) -> defs_of k n doc <> [] \/ exts_of k n doc <> [].
Proof.
  induction doc as [|it doc IH] using rev_ind; intros n H; [destruct H|].
  rewrite keys_snoc, in_add_key in H. rewrite defs_of_app, exts_of_app.
  destruct H as [H|H].
  - destruct (IH n H) as [H1|H1]; [left|right]; intros E; apply app_eq_nil in E; tauto.
  - rewrite defs_of_single, exts_of_single. destruct it as [d|e|a]; cbn in H; try discriminate.
    + destruct (kind_eqb_spec (d_kind d) k) as [<-|]; [|discriminate]. inversion H; subst.
      left. unfold same_key. rewrite kind_eqb_refl, key_eqb_refl. cbn. intros E. apply app_eq_nil in E.
      destruct E; discriminate.
    + destruct (kind_eqb_spec (e_kind e) k) as [<-|]; [|discriminate]. inversion H; subst.
      right. unfold same_key. rewrite kind_eqb_refl, key_eqb_refl. cbn. intros E. apply app_eq_nil in E.
      destruct E; discriminate.
Qed.

(** ---- how a registry entry changes when one item is appended ---- *)

Lemma spec_item_snoc_none k doc it n : item_key k it = None -> spec_item k (doc ++ [it]) n = spec_item k doc n.
Proof.
  intros H. destruct (single_no_key k n it) as [H1 H2]; [congruence|].
  unfold spec_item. now rewrite defs_of_app, exts_of_app, H1, H2, !app_nil_r.
Qed.

Lemma spec_item_snoc_other k doc it n m : item_key k it = Some m -> m <> n -> spec_item k (doc ++ [it]) n = spec_item k doc n.
Proof.
  intros H Hm. destruct (single_no_key k n it) as [H1 H2]; [congruence|].
  unfold spec_item. now rewrite defs_of_app, exts_of_app, H1, H2, !app_nil_r.
Qed.

Lemma spec_item_snoc_def d doc :
  spec_item (d_kind d) (doc ++ [IDef d]) (d_name d) =
  mkeitem (hd_error (defs_of (d_kind d) (d_name d) doc ++ [d])) (exts_of (d_kind d) (d_name d) doc).
Proof.
  unfold spec_item. rewrite defs_of_app, exts_of_app, defs_of_single, exts_of_single.
  unfold same_key. now rewrite kind_eqb_refl, key_eqb_refl, app_nil_r.
Qed.

Lemma spec_item_snoc_ext e doc :
  spec_item (e_kind e) (doc ++ [IExt e]) (e_name e) =
  mkeitem (hd_error (defs_of (e_kind e) (e_name e) doc)) (exts_of (e_kind e) (e_name e) doc ++ [e]).
Proof.
  unfold spec_item. rewrite defs_of_app, exts_of_app, defs_of_single, exts_of_single.
  unfold same_key. now rewrite kind_eqb_refl, key_eqb_refl, app_nil_r.
Qed.

(** no (kind k, name) is defined twice *)
Definition nodup_k (k : kind) (doc : list item) : Prop := forall n, length (defs_of k n doc) <= 1.

Lemma nodup_k_prefix k a b : nodup_k k (a ++ b) -> nodup_k k a.
Proof. intros H n. specialize (H n). rewrite defs_of_app, app_length in H. lia. Qed.

Lemma el_spec_snoc_none k doc it : item_key k it = None -> el_spec k (doc ++ [it]) = el_spec k doc.
Proof.
  intros H. unfold el_spec. rewrite keys_snoc, H. cbn [add_key].
  apply el_of_ext. intros n _. now apply spec_item_snoc_none.
Qed.

(** appending a definition of a so far undefined (kind, name) *)
Lemma el_spec_snoc_def d doc :
  defs_of (d_kind d) (d_name d) doc = [] ->
  el_upsert (d_name d) (fun it => mkeitem (Some d) (ei_exts it)) (el_spec (d_kind d) doc)
  = el_spec (d_kind d) (doc ++ [IDef d]).
Proof.
  intros Hno. unfold el_spec. rewrite upsert_of by apply keys_nodup.
  rewrite keys_snoc. cbn [item_key]. rewrite kind_eqb_refl. cbn [add_key].
  destruct (mem_key (d_name d) (keys (d_kind d) doc)) eqn:E.
  - apply el_of_ext. intros m Hm. destruct (key_eqb_spec (d_name d) m) as [<-|Hne].
    + rewrite spec_item_snoc_def, Hno. reflexivity.
    + symmetry. eapply spec_item_snoc_other; [|exact Hne]. cbn. now rewrite kind_eqb_refl.
  - rewrite el_of_app. f_equal.
    + apply el_of_ext. intros m Hm. symmetry. eapply spec_item_snoc_other.
      * cbn. rewrite kind_eqb_refl. reflexivity.
      * intros <-. apply mem_key_In in Hm. congruence.
    + cbn. rewrite spec_item_snoc_def, Hno.
      destruct (not_in_keys (d_kind d) doc (d_name d)) as [_ H2].
      { intros Hin. apply mem_key_In in Hin. congruence. }
      rewrite H2. reflexivity.
Qed.

Lemma el_spec_snoc_ext e doc :
  add_extension (el_spec (e_kind e) doc) e = el_spec (e_kind e) (doc ++ [IExt e]).
Proof.
  unfold add_extension, el_spec. rewrite upsert_of by apply keys_nodup.
  rewrite keys_snoc. cbn [item_key]. rewrite kind_eqb_refl. cbn [add_key].
  destruct (mem_key (e_name e) (keys (e_kind e) doc)) eqn:E.
  - apply el_of_ext. intros m Hm. destruct (key_eqb_spec (e_name e) m) as [<-|Hne].
    + rewrite spec_item_snoc_ext. reflexivity.
    + symmetry. eapply spec_item_snoc_other; [|exact Hne]. cbn. now rewrite kind_eqb_refl.
  - rewrite el_of_app. f_equal.
    + apply el_of_ext. intros m Hm. symmetry. eapply spec_item_snoc_other.
      * cbn. rewrite kind_eqb_refl. reflexivity.
      * intros <-. apply mem_key_In in Hm. congruence.
    + cbn. rewrite spec_item_snoc_ext.
      destruct (not_in_keys (e_kind e) doc (e_name e)) as [H1 H2].
      { intros Hin. apply mem_key_In in Hin. congruence. }
      rewrite H1, H2. reflexivity.
Qed.

(** [set_original] on the closed form: fails iff the (kind, name) is already defined *)
Lemma set_original_spec d doc :
  set_original (name_of_elem (d_kind d)) (el_spec (d_kind d) doc) d =
  match defs_of (d_kind d) (d_name d) doc with
  | first :: _ => inl (DupOriginal (name_of_elem (d_kind d)) (unwrap_or_default (d_name d)) (d_pos first) (d_pos d))
  | [] => inr (el_spec (d_kind d) (doc ++ [IDef d]))
  end.
Proof.
  unfold set_original. unfold el_spec at 1. rewrite el_find_of.
  destruct (mem_key (d_name d) (keys (d_kind d) doc)) eqn:E.
  - unfold spec_item at 1. destruct (defs_of (d_kind d) (d_name d) doc) as [|first rest] eqn:Ed; cbn [hd_error].
    + f_equal. now apply el_spec_snoc_def.
    + reflexivity.
  - destruct (not_in_keys (d_kind d) doc (d_name d)) as [H1 _].
    { intros Hin. apply mem_key_In in Hin. congruence. }
    rewrite H1. f_equal. now apply el_spec_snoc_def.
Qed.

(** the loop for one kind, started on the empty registry *)
Lemma scan1_spec k doc : nodup_k k doc -> scan1 k doc [] = inr (el_spec k doc).
Proof.
  induction doc as [|it doc IH] using rev_ind; intros Hnd; [reflexivity|].
  rewrite scan1_app, IH by (eapply nodup_k_prefix; eassumption).
  cbn [scan1]. destruct it as [d|e|a].
  - destruct (kind_eqb_spec (d_kind d) k) as [<-|Hn].
    + rewrite set_original_spec.
      specialize (Hnd (d_name d)). rewrite defs_of_app, defs_of_single in Hnd.
      unfold same_key in Hnd. rewrite kind_eqb_refl, key_eqb_refl in Hnd. cbn in Hnd.
      rewrite app_length in Hnd. cbn in Hnd.
      destruct (defs_of (d_kind d) (d_name d) doc); [reflexivity|cbn in Hnd; lia].
    + rewrite el_spec_snoc_none; [reflexivity|]. cbn.
      destruct (kind_eqb_spec (d_kind d) k); [contradiction|reflexivity].
  - destruct (kind_eqb_spec (e_kind e) k) as [<-|Hn].
    + now rewrite el_spec_snoc_ext.
    + rewrite el_spec_snoc_none; [reflexivity|]. cbn.
      destruct (kind_eqb_spec (e_kind e) k); [contradiction|reflexivity].
  - now rewrite el_spec_snoc_none.
Qed.

(** the loop for one kind fails exactly at the first re-definition *)
Lemma scan1_dup k doc d :
  nodup_k k doc -> d_kind d = k -> defs_of k (d_name d) doc <> [] ->
  forall post, exists first rest,
    defs_of k (d_name d) doc = first :: rest /\
    scan1 k (doc ++ IDef d :: post) [] =
    inl (DupOriginal (name_of_elem k) (unwrap_or_default (d_name d)) (d_pos first) (d_pos d)).
Proof.
  intros Hnd <- Hne post.
  destruct (defs_of (d_kind d) (d_name d) doc) as [|first rest] eqn:E; [congruence|].
  exists first, rest. split; [reflexivity|].
  rewrite scan1_app, scan1_spec by assumption. cbn [scan1]. rewrite kind_eqb_refl.
  rewrite set_original_spec, E. reflexivity.
Qed.
