(** C11 — specification side, second part: statements at full strength, without the [wf_doc] guard.

    The Coq records [def]/[ext] carry all three component lists for every kind, the Rust types do
    not (a ScalarTypeExtension has no [implements]).  Which kind has which component is a fact of
    the GraphQL grammar (TypeSystemDefinition / TypeSystemExtension productions), written down here
    independently of the code: *)
From V Require Import Base.Util C11.Model C11.Spec.
From Coq Require Import Permutation.

Definition kind_has_implements (k : kind) : bool :=
  match k with KObject | KInterface => true | _ => false end.
Definition kind_has_members (k : kind) : bool :=      (* fields / values / members / root operations *)
  match k with KScalar => false | _ => true end.
(* every kind has directives *)

(** reference merge, kind-aware: the definition first, then each extension in document order,
    for every component the kind has; nothing else changes *)
Definition merge_ref_k (d : def) (es : list ext) : def :=
  mkdef (d_kind d) (d_name d) (d_pos d) (d_keep d)
        (d_dirs d ++ flat_map e_dirs es)
        (if kind_has_implements (d_kind d) then d_impls d ++ flat_map e_impls es else d_impls d)
        (if kind_has_members (d_kind d) then d_members d ++ flat_map e_members es else d_members d).

Definition merged_defs_k (doc : list item) : list def :=
  map (fun d => merge_ref_k d (exts_for d doc)) (all_defs doc).
Definition reference_k (doc : list item) : list item :=
  map IDir (dirdefs doc) ++ map IDef (merged_defs_k doc).

(** the property as a predicate on (document, outcome), no guard *)
Definition spec_ok_full (doc : list item) (o : outcome) : Prop :=
  match o with
  | OOk out => ~ dup_original doc /\ ~ orphan_extension doc /\
               (forall e, ~ In (IExt e) out) /\ Permutation out (reference_k doc)
  | OErr (DupOriginal elem name p1 p2) => dup_located doc elem name p1 p2
  | OErr (NoOriginal elem p) => orphan_located doc elem p
  end.

(** ---- "without loss or invention": what goes in comes out, nothing else ---- *)

Inductive comp := CDirective | CImplements | CMember.
Definition part : Type := (kind * key * comp * atom)%type.
Definition tag_all (k : kind) (n : key) (c : comp) (l : list atom) : list part :=
  map (fun a => (k, n, c, a)) l.

(** every (kind, name, component, element) a definition / an extension contributes *)
Definition def_parts (d : def) : list part :=
  tag_all (d_kind d) (d_name d) CDirective (d_dirs d)
  ++ tag_all (d_kind d) (d_name d) CImplements (d_impls d)
  ++ tag_all (d_kind d) (d_name d) CMember (d_members d).
Definition ext_parts (e : ext) : list part :=
  tag_all (e_kind e) (e_name e) CDirective (e_dirs e)
  ++ tag_all (e_kind e) (e_name e) CImplements (if kind_has_implements (e_kind e) then e_impls e else [])
  ++ tag_all (e_kind e) (e_name e) CMember (if kind_has_members (e_kind e) then e_members e else []).

Definition parts_in (doc : list item) : list part :=
  flat_map def_parts (all_defs doc) ++ flat_map ext_parts (all_exts doc).
Definition parts_out (out : list item) : list part := flat_map def_parts (all_defs out).

(** what identifies a definition apart from its components *)
Definition def_head (d : def) : kind * key * pos * atom := (d_kind d, d_name d, d_pos d, d_keep d).

(** ---- offending items ---- *)
Definition offending (doc : list item) (it : item) : Prop :=
  match it with
  | IDef d => 2 <= length (defs_of (d_kind d) (d_name d) doc)      (* one of several definitions of a (kind, name) *)
  | IExt x => defs_of (e_kind x) (e_name x) doc = []               (* extends what nobody of that kind defines *)
  | IDir _ => False
  end.
Definition item_pos (it : item) : option pos :=
  match it with IDef d => Some (d_pos d) | IExt x => Some (e_pos x) | IDir _ => None end.
