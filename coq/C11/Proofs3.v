(** C11 — proofs, part 3: into_original_and_extensions on the closed form, the output of
    [resolve], and its multiset characterisation. *)
From V Require Import Base.Util C11.Model C11.Spec C11.Proofs1 C11.Proofs2.
From Coq Require Import Permutation.

(** ---- generic list facts ---- *)

Lemma flat_map_map_comm {A B C} (g : B -> C) (h : A -> list B) l :
  flat_map (fun x => map g (h x)) l = map g (flat_map h l).
Proof. induction l as [|x l IH]; [reflexivity|]. cbn. now rewrite map_app, IH. Qed.

Lemma flat_map_ext_in {A B} (f g : A -> list B) l :
  (forall x, In x l -> f x = g x) -> flat_map f l = flat_map g l.
Proof.
  induction l as [|x l IH]; intros H; [reflexivity|]. cbn.
  rewrite H by now left. rewrite IH; [reflexivity|]. intros y Hy. apply H. now right.
Qed.

Lemma filter_filter_imp {A} (f g : A -> bool) l :
  (forall x, f x = true -> g x = true) -> filter f (filter g l) = filter f l.
Proof.
  intros H. induction l as [|x l IH]; [reflexivity|]. cbn.
  destruct (g x) eqn:Eg; cbn.
  - now rewrite IH.
  - destruct (f x) eqn:Ef; [|exact IH]. apply H in Ef. congruence.
Qed.

Lemma filter_split {A} (f : A -> bool) l :
  Permutation l (filter f l ++ filter (fun x => negb (f x)) l).
Proof.
  induction l as [|x l IH]; [constructor|]. cbn. destruct (f x); cbn.
  - now constructor.
  - apply Permutation_cons_app. exact IH.
Qed.

Section Group.
  Context {A K : Type} (key : A -> K) (eqb : K -> K -> bool)
          (eqb_spec : forall a b, reflect (a = b) (eqb a b)).

  (** grouping a list by a key, over a duplicate-free list of all keys, permutes it *)
  Lemma group_perm ks : forall l, NoDup ks -> (forall x, In x l -> In (key x) ks) ->
    Permutation (flat_map (fun k => filter (fun x => eqb k (key x)) l) ks) l.
  Proof.
    induction ks as [|k ks IH]; intros l Hnd Hin.
    - destruct l as [|x l]; [constructor|]. destruct (Hin x). now left.
    - inversion Hnd as [|? ? Hk Hks]; subst. cbn [flat_map].
      set (l2 := filter (fun x => negb (eqb k (key x))) l).
      assert (E : flat_map (fun k' => filter (fun x => eqb k' (key x)) l) ks
                  = flat_map (fun k' => filter (fun x => eqb k' (key x)) l2) ks).
      { apply flat_map_ext_in. intros k' Hk'. unfold l2. symmetry. apply filter_filter_imp.
        intros x Hx. destruct (eqb_spec k' (key x)) as [<-|]; [|discriminate].
        destruct (eqb_spec k k') as [->|]; [contradiction|reflexivity]. }
      rewrite E. eapply Permutation_trans; [|symmetry; apply (filter_split (fun x => eqb k (key x)))].
      apply Permutation_app_head. apply IH; [assumption|].
      intros x Hx. unfold l2 in Hx. apply filter_In in Hx. destruct Hx as [Hx Hb].
      destruct (Hin x Hx) as [Ek|H]; [|assumption]. rewrite Ek in Hb.
      destruct (eqb_spec (key x) (key x)); [discriminate|congruence].
  Qed.
End Group.

(** ---- collect_items on the closed form ---- *)

Definition entry_of (k : kind) (doc : list item) (n : key) : list (def * list ext) :=
  match defs_of k n doc with d :: _ => [(d, exts_of k n doc)] | [] => [] end.
Definition entries (k : kind) (doc : list item) : list (def * list ext) :=
  flat_map (entry_of k doc) (keys k doc).

Lemma collect_ok elem k doc ks :
  (forall n, In n ks -> defs_of k n doc <> []) ->
  collect_items elem (el_of (spec_item k doc) ks) = inr (flat_map (entry_of k doc) ks).
Proof.
  induction ks as [|n ks IH]; intros H; [reflexivity|].
  cbn [el_of map collect_items flat_map]. fold (el_of (spec_item k doc) ks).
  unfold spec_item at 1, entry_of at 1.
  destruct (defs_of k n doc) as [|d r] eqn:E; [destruct (H n); [now left|assumption]|].
  cbn [ei_orig hd_error ei_exts]. rewrite IH; [reflexivity|]. intros m Hm. apply H. now right.
Qed.

Lemma collect_err elem k doc ks :
  (forall n, In n ks -> defs_of k n doc <> [] \/ exts_of k n doc <> []) ->
  (exists n, In n ks /\ defs_of k n doc = []) ->
  exists pre n post e rest,
    ks = pre ++ n :: post /\ (forall m, In m pre -> defs_of k m doc <> []) /\
    defs_of k n doc = [] /\ exts_of k n doc = e :: rest /\
    collect_items elem (el_of (spec_item k doc) ks) = inl (NoOriginal elem (e_pos e)).
Proof.
  induction ks as [|n ks IH]; intros Hk [m [Hm Hd]]; [destruct Hm|].
  cbn [el_of map collect_items]. fold (el_of (spec_item k doc) ks).
  change (spec_item k doc n) with (mkeitem (hd_error (defs_of k n doc)) (exts_of k n doc)).
  destruct (defs_of k n doc) as [|d r] eqn:E; cbn [ei_orig hd_error ei_exts].
  - destruct (exts_of k n doc) as [|e rest] eqn:Ee.
    + destruct (Hk n) as [H|H]; [now left|congruence|congruence].
    + exists [], n, ks, e, rest. repeat split; try assumption. intros ? [].
  - destruct IH as (pre & n' & post & e & rest & -> & Hpre & Hn' & He & Hc).
    + intros x Hx. apply Hk. now right.
    + destruct Hm as [<-|Hm]; [congruence|]. eauto.
    + exists (n :: pre), n', post, e, rest. repeat split; try assumption.
      * intros x [<-|Hx]; [congruence|now apply Hpre].
      * now rewrite Hc.
Qed.

Lemma keys_orphan_dec k doc :
  (exists n, In n (keys k doc) /\ defs_of k n doc = []) \/
  (forall n, In n (keys k doc) -> defs_of k n doc <> []).
Proof.
  induction (keys k doc) as [|n ks IH].
  - right. intros ? [].
  - destruct (defs_of k n doc) eqn:E.
    + left. exists n. split; [now left|assumption].
    + destruct IH as [[m [Hm Hd]]|H].
      * left. exists m. split; [now right|assumption].
      * right. intros m [<-|Hm]; [congruence|now apply H].
Qed.

(** ---- the stable sort only permutes ---- *)

Lemma insert_perm x l : Permutation (insert_by_pos x l) (x :: l).
Proof.
  induction l as [|y l IH]; [constructor; constructor|]. cbn.
  destruct (pos_leb _ _); [apply Permutation_refl|].
  eapply Permutation_trans; [apply perm_skip, IH|apply perm_swap].
Qed.

Lemma sort_perm l : Permutation (sort_by_pos l) l.
Proof.
  induction l as [|x l IH]; [constructor|]. cbn.
  eapply Permutation_trans; [apply insert_perm|]. now constructor.
Qed.

(** ---- one kind ---- *)

Definition kind_out (k : kind) (doc : list item) : list item :=
  map (fun x => IDef (merge_of k x)) (sort_by_pos (entries k doc)).

Lemma finish_kind_ok k doc st :
  get k st = el_spec k doc -> ~ orphan_k k doc -> finish_kind k st = inr (kind_out k doc).
Proof.
  intros Hg Hno. unfold finish_kind, into_original_and_extensions. rewrite Hg. unfold el_spec.
  rewrite collect_ok; [reflexivity|].
  intros n Hn E. apply Hno. exists n. tauto.
Qed.

Lemma finish_kind_err k doc st :
  get k st = el_spec k doc -> orphan_k k doc ->
  exists e, first_orphan k doc e /\ finish_kind k st = inl (NoOriginal (name_of_elem k) (e_pos e)).
Proof.
  intros Hg Ho. unfold finish_kind, into_original_and_extensions. rewrite Hg. unfold el_spec.
  destruct (collect_err (name_of_elem k) k doc (keys k doc)) as (pre & n & post & e & rest & Hk & Hp & Hd & He & Hc).
  - intros n Hn. now apply in_keys.
  - exact Ho.
  - exists e. split; [exists pre, n, post, rest; tauto|]. now rewrite Hc.
Qed.

(** ---- all kinds ---- *)

Lemma finish_kinds_ok ks doc st :
  (forall k, In k ks -> get k st = el_spec k doc /\ ~ orphan_k k doc) ->
  finish_kinds ks st = inr (flat_map (fun k => kind_out k doc) ks).
Proof.
  induction ks as [|k ks IH]; intros H; [reflexivity|]. cbn [finish_kinds flat_map].
  destruct (H k) as [Hg Hn]; [now left|]. rewrite (finish_kind_ok k doc st Hg Hn).
  rewrite IH; [reflexivity|]. intros k' Hk'. apply H. now right.
Qed.

Lemma finish_kinds_err ks doc st :
  (forall k, In k ks -> get k st = el_spec k doc) ->
  (exists k, In k ks /\ orphan_k k doc) ->
  exists pre k post e,
    ks = pre ++ k :: post /\ (forall k', In k' pre -> ~ orphan_k k' doc) /\
    first_orphan k doc e /\
    finish_kinds ks st = inl (NoOriginal (name_of_elem k) (e_pos e)).
Proof.
  induction ks as [|k ks IH]; intros Hg [k0 [Hk0 Ho]]; [destruct Hk0|]. cbn [finish_kinds].
  destruct (keys_orphan_dec k doc) as [Hor|Hno].
  - destruct (finish_kind_err k doc st) as [e [Hf Hr]]; [apply Hg; now left|exact Hor|].
    exists [], k, ks, e. repeat split; try assumption; [intros ? []|now rewrite Hr].
  - assert (Hn : ~ orphan_k k doc) by (intros [n [Hn Hd]]; now apply (Hno n)).
    rewrite (finish_kind_ok k doc st); [|apply Hg; now left|exact Hn].
    destruct IH as (pre & k' & post & e & -> & Hpre & Hf & Hr).
    + intros k' Hk'. apply Hg. now right.
    + destruct Hk0 as [<-|Hk0]; [contradiction|]. eauto.
    + exists (k :: pre), k', post, e. repeat split; try assumption.
      * intros x [<-|Hx]; [assumption|now apply Hpre].
      * now rewrite Hr.
Qed.

(** ---- the scanning loop from the empty state ---- *)

Lemma scan1_ok_inv k doc : forall l, scan1 k doc [] = inr l -> nodup_k k doc /\ l = el_spec k doc.
Proof.
  induction doc as [|it doc IH] using rev_ind; intros l H.
  - cbn in H. inversion H; subst. split; [|reflexivity]. intros n. cbn. lia.
  - rewrite scan1_app in H. destruct (scan1 k doc []) as [er|l1] eqn:E; [discriminate|].
    destruct (IH l1 eq_refl) as [Hnd ->]. cbn [scan1] in H.
    assert (Hnone : item_key k it = None -> nodup_k k (doc ++ [it])).
    { intros Hk n. destruct (single_no_key k n it) as [H1 _]; [congruence|].
      rewrite defs_of_app, H1, app_nil_r. apply Hnd. }
    destruct it as [d|e|a].
    + destruct (kind_eqb_spec (d_kind d) k) as [<-|Hn].
      * rewrite set_original_spec in H.
        destruct (defs_of (d_kind d) (d_name d) doc) as [|f r] eqn:Ed; [|discriminate].
        inversion H; subst. split; [|reflexivity].
        intros n. rewrite defs_of_app, app_length, defs_of_single. unfold same_key. rewrite kind_eqb_refl. cbn [andb].
        destruct (key_eqb_spec n (d_name d)) as [->|Hne].
        -- rewrite Ed. cbn. lia.
        -- specialize (Hnd n). cbn. lia.
      * inversion H; subst. split.
        -- apply Hnone. cbn. destruct (kind_eqb_spec (d_kind d) k); [contradiction|reflexivity].
        -- rewrite el_spec_snoc_none; [reflexivity|]. cbn.
           destruct (kind_eqb_spec (d_kind d) k); [contradiction|reflexivity].
    + destruct (kind_eqb_spec (e_kind e) k) as [<-|Hn].
      * inversion H; subst. split; [|apply el_spec_snoc_ext].
        intros n. rewrite defs_of_app, defs_of_single, app_nil_r. apply Hnd.
      * inversion H; subst. split.
        -- apply Hnone. cbn. destruct (kind_eqb_spec (e_kind e) k); [contradiction|reflexivity].
        -- rewrite el_spec_snoc_none; [reflexivity|]. cbn.
           destruct (kind_eqb_spec (e_kind e) k); [contradiction|reflexivity].
    + inversion H; subst. split; [now apply Hnone|now rewrite el_spec_snoc_none].
Qed.

Lemma get_state0 k : get k state0 = [].
Proof. destruct k; reflexivity. Qed.

Lemma scan_ok_inv doc st :
  scan doc state0 = inr st ->
  (forall k, nodup_k k doc /\ get k st = el_spec k doc) /\ s_directives st = dirdefs doc.
Proof.
  intros H. destruct (scan_ok_proj _ _ _ H) as [H1 H2]. split; [|exact H2].
  intros k. specialize (H1 k). rewrite get_state0 in H1. apply scan1_ok_inv in H1. tauto.
Qed.

Lemma scan_ok_total doc : (forall k, nodup_k k doc) -> exists st, scan doc state0 = inr st.
Proof.
  intros H. apply scan_total. intros k. rewrite get_state0. exists (el_spec k doc). now apply scan1_spec.
Qed.

(** ---- closed form of a successful [resolve] ---- *)

Definition all_kinds_ok (doc : list item) : Prop :=
  (forall k, nodup_k k doc) /\ (forall k, ~ orphan_k k doc).

Definition resolve_out (doc : list item) : list item :=
  map IDir (dirdefs doc) ++ flat_map (fun k => kind_out k doc) kinds_in_output_order.

Lemma all_kinds_listed k : In k kinds_in_output_order.
Proof. destruct k; cbn; tauto. Qed.

Lemma resolve_ok_form doc out : resolve doc = inr out -> all_kinds_ok doc /\ out = resolve_out doc.
Proof.
  unfold resolve. intros H. destruct (scan doc state0) as [er|st] eqn:Es; [discriminate|].
  apply scan_ok_inv in Es. destruct Es as [Hk Hd].
  destruct (finish_kinds kinds_in_output_order st) as [er|defs] eqn:Ef; [discriminate|].
  inversion H; subst out. clear H.
  assert (Hno : forall k, ~ orphan_k k doc).
  { intros k Ho.
    destruct (finish_kinds_err kinds_in_output_order doc st) as (pre & k' & post & e & _ & _ & _ & Hr).
    - intros k' _. apply Hk.
    - exists k. split; [apply all_kinds_listed|exact Ho].
    - congruence. }
  split; [split; [intros k; apply Hk|exact Hno]|].
  rewrite (finish_kinds_ok kinds_in_output_order doc st) in Ef.
  - inversion Ef; subst. unfold resolve_out. now rewrite Hd.
  - intros k _. split; [apply Hk|apply Hno].
Qed.

Lemma resolve_ok_conv doc : all_kinds_ok doc -> resolve doc = inr (resolve_out doc).
Proof.
  intros [Hnd Hno]. unfold resolve. destruct (scan_ok_total doc Hnd) as [st Hs]. rewrite Hs.
  apply scan_ok_inv in Hs. destruct Hs as [Hk Hd].
  rewrite (finish_kinds_ok kinds_in_output_order doc st).
  - unfold resolve_out. now rewrite Hd.
  - intros k _. split; [apply Hk|apply Hno].
Qed.

(** ---- the output as a multiset ---- *)

Definition defs_kind (k : kind) (doc : list item) : list def :=
  filter (fun d => kind_eqb k (d_kind d)) (all_defs doc).

Lemma defs_of_as_filter k n doc :
  defs_of k n doc = filter (fun d => key_eqb n (d_name d)) (defs_kind k doc).
Proof.
  unfold defs_of, defs_kind, def_has_key, same_key.
  induction (all_defs doc) as [|d l IH]; [reflexivity|]. cbn.
  destruct (kind_eqb k (d_kind d)); cbn; [|exact IH].
  destruct (key_eqb n (d_name d)); now rewrite IH.
Qed.

Definition model_merge (doc : list item) (d : def) : def := merge_of (d_kind d) (d, exts_for d doc).
Definition model_merged (doc : list item) : list def := map (model_merge doc) (all_defs doc).

Lemma entries_form k doc :
  nodup_k k doc ->
  entries k doc = map (fun d => (d, exts_for d doc)) (flat_map (fun n => defs_of k n doc) (keys k doc)).
Proof.
  intros Hnd. unfold entries. rewrite <- flat_map_map_comm. apply flat_map_ext_in.
  intros n _. unfold entry_of. specialize (Hnd n).
  destruct (defs_of k n doc) as [|d [|d' r]] eqn:E; [reflexivity| |cbn in Hnd; lia].
  cbn. assert (Hin : In d (defs_of k n doc)) by (rewrite E; now left).
  apply in_defs_of in Hin. destruct Hin as (_ & <- & <-). reflexivity.
Qed.

Lemma keys_group_perm k doc :
  Permutation (flat_map (fun n => defs_of k n doc) (keys k doc)) (defs_kind k doc).
Proof.
  erewrite flat_map_ext_in; [|intros n _; apply defs_of_as_filter].
  apply (group_perm d_name key_eqb key_eqb_spec); [apply keys_nodup|].
  intros d Hd. destruct (in_dec (fun a b => reflect_dec _ _ (key_eqb_spec a b)) (d_name d) (keys k doc)) as [H|H]; [exact H|].
  apply not_in_keys in H. destruct H as [H _].
  unfold defs_kind in Hd. apply filter_In in Hd. destruct Hd as [Hd Hk].
  destruct (kind_eqb_spec k (d_kind d)) as [->|]; [|discriminate].
  assert (Hin : In d (defs_of (d_kind d) (d_name d) doc)).
  { unfold defs_of. apply filter_In. split; [assumption|]. unfold def_has_key, same_key.
    now rewrite kind_eqb_refl, key_eqb_refl. }
  rewrite H in Hin. destruct Hin.
Qed.

Lemma kinds_nodup : NoDup kinds_in_output_order.
Proof. repeat constructor; cbn; intuition discriminate. Qed.

Lemma kinds_group_perm doc :
  Permutation (flat_map (fun k => defs_kind k doc) kinds_in_output_order) (all_defs doc).
Proof.
  apply (group_perm d_kind kind_eqb kind_eqb_spec); [apply kinds_nodup|].
  intros d _. apply all_kinds_listed.
Qed.

Lemma kind_out_perm k doc :
  nodup_k k doc ->
  Permutation (kind_out k doc) (map IDef (map (model_merge doc) (defs_kind k doc))).
Proof.
  intros Hnd. unfold kind_out. rewrite <- (map_map (merge_of k) IDef).
  apply Permutation_map.
  eapply Permutation_trans; [apply Permutation_map, sort_perm|].
  rewrite (entries_form k doc Hnd), map_map.
  eapply Permutation_trans; [apply Permutation_map, keys_group_perm|].
  erewrite map_ext_in; [apply Permutation_refl|].
  intros d Hd. unfold defs_kind in Hd. apply filter_In in Hd. destruct Hd as [_ Hk].
  destruct (kind_eqb_spec k (d_kind d)) as [->|]; [reflexivity|discriminate].
Qed.

Lemma flat_map_perm {A B} (f g : A -> list B) l :
  (forall x, In x l -> Permutation (f x) (g x)) -> Permutation (flat_map f l) (flat_map g l).
Proof.
  induction l as [|x l IH]; intros H; [constructor|]. cbn.
  apply Permutation_app; [apply H; now left|]. apply IH. intros y Hy. apply H. now right.
Qed.

Lemma resolve_out_perm doc :
  (forall k, nodup_k k doc) ->
  Permutation (resolve_out doc) (map IDir (dirdefs doc) ++ map IDef (model_merged doc)).
Proof.
  intros Hnd. unfold resolve_out. apply Permutation_app_head.
  eapply Permutation_trans.
  - apply flat_map_perm. intros k _. apply kind_out_perm, Hnd.
  - rewrite (flat_map_map_comm IDef (fun k => map (model_merge doc) (defs_kind k doc))).
    rewrite (flat_map_map_comm (model_merge doc)).
    unfold model_merged. apply Permutation_map, Permutation_map, kinds_group_perm.
Qed.

(** ---- the model's merge functions and the reference merge ---- *)

Lemma flat_map_nil {A B} (f : A -> list B) l : (forall x, In x l -> f x = []) -> flat_map f l = [].
Proof.
  induction l as [|x l IH]; intros H; [reflexivity|]. cbn. rewrite H by now left.
  apply IH. intros y Hy. apply H. now right.
Qed.

Lemma merge_of_ref k d es :
  (forall e, In e es -> (has_impls k = false -> e_impls e = []) /\ (has_members k = false -> e_members e = [])) ->
  merge_of k (d, es) = merge_ref d es.
Proof.
  intros H. unfold merge_ref.
  assert (Hi : has_impls k = false -> flat_map e_impls es = []).
  { intros Hk. apply flat_map_nil. intros e He. now apply H. }
  assert (Hm : has_members k = false -> flat_map e_members es = []).
  { intros Hk. apply flat_map_nil. intros e He. now apply H. }
  destruct k; cbn in *; unfold chain;
    rewrite ?Hi, ?Hm, ?app_nil_r by reflexivity; reflexivity.
Qed.

Lemma wf_ext_components doc e :
  wf_doc doc = true -> In (IExt e) doc ->
  (has_impls (e_kind e) = false -> e_impls e = []) /\ (has_members (e_kind e) = false -> e_members e = []).
Proof.
  intros Hwf Hin. unfold wf_doc in Hwf. rewrite forallb_forall in Hwf. specialize (Hwf _ Hin).
  cbn in Hwf. apply andb_prop in Hwf. destruct Hwf as [Hwf _]. apply andb_prop in Hwf. destruct Hwf as [H1 H2].
  split; intros Hk; rewrite Hk in *; cbn in *.
  - destruct (e_impls e); [reflexivity|discriminate].
  - destruct (e_members e); [reflexivity|discriminate].
Qed.

Lemma model_merged_ref doc : wf_doc doc = true -> model_merged doc = merged_defs doc.
Proof.
  intros Hwf. unfold model_merged, merged_defs. apply map_ext. intros d. unfold model_merge.
  apply merge_of_ref. intros e He. unfold exts_for in He. apply in_exts_of in He.
  destruct He as (Hin & <- & _). now apply wf_ext_components with (doc := doc).
Qed.
