(** C11 — proofs, part 8: the diagnostic sits at an offending item; the orphan error in document
    terms; completeness of the boolean specification; examples for the guard-free statements. *)
From V Require Import Base.Util C11.Model C11.Spec C11.SpecFull C11.Corr
  C11.Proofs1 C11.Proofs2 C11.Proofs3 C11.Proofs4 C11.Proofs5 C11.Proofs6 C11.Proofs7.
From Coq Require Import Permutation.

(** ---- offending items ---- *)

Lemma two_defs_offending pre d1 mid d2 post :
  d_kind d2 = d_kind d1 -> d_name d2 = d_name d1 ->
  let doc := pre ++ IDef d1 :: mid ++ IDef d2 :: post in
  2 <= length (defs_of (d_kind d1) (d_name d1) doc).
Proof.
  intros Hk Hn doc. unfold doc.
  replace (pre ++ IDef d1 :: mid ++ IDef d2 :: post) with (pre ++ [IDef d1] ++ mid ++ [IDef d2] ++ post) by reflexivity.
  rewrite !defs_of_app, !app_length, !defs_of_single. unfold same_key.
  rewrite Hk, Hn, kind_eqb_refl, key_eqb_refl. cbn. lia.
Qed.

Lemma diagnostic_at_offending_item doc e :
  resolve doc = inl e ->
  (exists it, In it doc /\ offending doc it /\ item_pos it = Some (diag_pos e)) /\
  (forall p t, In (p, t) (additional_info e) ->
     exists it, In it doc /\ offending doc it /\ item_pos it = Some p).
Proof.
  intros H. destruct e as [elem nm p1 p2|elem p].
  - apply dup_error_located in H.
    destruct H as (pre & d1 & mid & d2 & post & -> & Hk & Hn & _ & _ & -> & -> & _).
    pose proof (two_defs_offending pre d1 mid d2 post Hk Hn) as H2. cbn zeta in H2.
    split.
    + exists (IDef d1). split; [apply in_or_app; right; now left|]. split; [exact H2|reflexivity].
    + intros p t [Hin|[]]. inversion Hin; subst. exists (IDef d2). split.
      * apply in_or_app. right. right. apply in_or_app. right. now left.
      * split; [|reflexivity]. cbn. now rewrite Hk, Hn.
  - apply orphan_error_located in H. destruct H as (_ & pre & k & post & x & _ & _ & Hfo & _ & ->).
    destruct (first_orphan_in_doc k doc x Hfo) as (Hin & <- & Hd).
    split; [|intros ? ? []]. exists (IExt x). repeat split; assumption.
Qed.

Lemma fails_iff_offending doc :
  (exists e, resolve doc = inl e) <-> (exists it, In it doc /\ offending doc it).
Proof.
  split.
  - intros [e H]. destruct (diagnostic_at_offending_item doc e H) as [(it & Hi & Ho & _) _]. eauto.
  - intros (it & Hi & Ho). apply resolve_error_iff. destruct it as [d|x|a]; cbn in Ho; [| |destruct Ho].
    + left. exists (d_kind d), (d_name d). exact Ho.
    + right. exists (e_kind x), (e_name x). split; [|exact Ho].
      intros E. assert (Hx : In x (exts_of (e_kind x) (e_name x) doc)) by (apply in_exts_of; tauto).
      rewrite E in Hx. destruct Hx.
Qed.

(** ---- the orphan error, in terms of document order only ---- *)

Lemma keys_acc_extends k doc : forall acc, exists t, keys_acc k doc acc = acc ++ t.
Proof.
  induction doc as [|it doc IH]; intros acc; [exists []; now rewrite app_nil_r|]. cbn.
  destruct (IH (add_key (item_key k it) acc)) as [t Ht]. rewrite Ht.
  destruct (item_key k it) as [n|]; cbn; [|eauto].
  destruct (mem_key n acc); [eauto|]. exists ([n] ++ t). now rewrite app_assoc.
Qed.

Lemma keys_prefix k a b : exists t, keys k (a ++ b) = keys k a ++ t.
Proof. unfold keys. rewrite keys_acc_app. apply keys_acc_extends. Qed.

Lemma prefix_before {A} (l1 t a b : list A) n :
  l1 ++ t = a ++ n :: b -> ~ In n l1 -> forall m, In m l1 -> In m a.
Proof.
  revert a. induction l1 as [|x l1 IH]; intros a E Hn m Hm; [destruct Hm|].
  destruct a as [|y a]; cbn in E; inversion E; subst.
  - exfalso. apply Hn. now left.
  - destruct Hm as [<-|Hm]; [now left|]. right. eapply IH; eauto. intros Hi. apply Hn. now right.
Qed.

Lemma filter_head_split {A} (f : A -> bool) l x rest :
  filter f l = x :: rest -> exists pre post, l = pre ++ x :: post /\ filter f pre = [].
Proof.
  induction l as [|y l IH]; cbn; [discriminate|]. destruct (f y) eqn:E.
  - intros H. inversion H; subst. exists [], l. split; reflexivity.
  - intros H. destruct (IH H) as (pre & post & -> & Hp). exists (y :: pre), post. split; [reflexivity|].
    cbn. now rewrite E.
Qed.

Lemma all_exts_split doc x pre post :
  all_exts doc = pre ++ x :: post ->
  exists dpre dpost, doc = dpre ++ IExt x :: dpost /\ all_exts dpre = pre.
Proof.
  revert pre. induction doc as [|it doc IH]; intros pre H; [destruct pre; discriminate|].
  destruct it as [d|e|a].
  - destruct (IH pre H) as (dp & dq & -> & Hp). exists (IDef d :: dp), dq. split; [reflexivity|exact Hp].
  - change (all_exts (IExt e :: doc)) with (e :: all_exts doc) in H.
    destruct pre as [|y pre]; cbn in H; inversion H; subst.
    + exists [], doc. split; reflexivity.
    + destruct (IH pre H2) as (dp & dq & -> & Hp). exists (IExt y :: dp), dq. split; [reflexivity|].
      change (all_exts (IExt y :: dp)) with (y :: all_exts dp). now rewrite Hp.
  - destruct (IH pre H) as (dp & dq & -> & Hp). exists (IDir a :: dp), dq. split; [reflexivity|exact Hp].
Qed.

(** [x] is the first extension, in document order, among the orphan extensions of its kind *)
Definition first_orphan_in_document (doc : list item) (x : ext) : Prop :=
  exists pre post,
    doc = pre ++ IExt x :: post /\ defs_of (e_kind x) (e_name x) doc = [] /\
    forall y, In (IExt y) pre -> e_kind y = e_kind x -> defs_of (e_kind y) (e_name y) doc <> [].

Lemma first_orphan_doc_order k doc x : first_orphan k doc x -> e_kind x = k /\ first_orphan_in_document doc x.
Proof.
  intros (a & n & b & rest & Hks & Ha & Hd & He).
  assert (Hx : In x (exts_of k n doc)) by (rewrite He; now left).
  apply in_exts_of in Hx. destruct Hx as (_ & Hk & Hn). subst k n. split; [reflexivity|].
  unfold exts_of in He. apply filter_head_split in He. destruct He as (epre & epost & Hs & Hp).
  apply all_exts_split in Hs. destruct Hs as (pre & post & -> & Hpre). subst epre.
  exists pre, post. repeat split; [assumption|].
  intros y Hy Hky.
  (* the name of y is a key of the prefix, the name of x is not, so y's name comes before x's *)
  destruct (keys_prefix (e_kind x) pre (IExt x :: post)) as [t Ht]. rewrite Hks in Ht.
  assert (Hnx : ~ In (e_name x) (keys (e_kind x) pre)).
  { intros Hin. apply in_keys in Hin. destruct Hin as [Hin|Hin]; apply Hin.
    - rewrite defs_of_app in Hd. apply app_eq_nil in Hd. tauto.
    - exact Hp. }
  assert (Hyk : In (e_name y) (keys (e_kind x) pre)).
  { destruct (key_in_dec (e_name y) (keys (e_kind x) pre)) as [H|H]; [exact H|].
    apply not_in_keys in H. destruct H as [_ H].
    assert (Hin : In y (exts_of (e_kind x) (e_name y) pre)) by (apply in_exts_of; tauto).
    rewrite H in Hin. destruct Hin. }
  rewrite Hky. apply Ha. eapply prefix_before; [symmetry; exact Ht|exact Hnx|exact Hyk].
Qed.

Lemma orphan_error_in_document doc elem p :
  resolve doc = inl (NoOriginal elem p) ->
  ~ dup_original doc /\
  exists x, first_orphan_in_document doc x /\ elem = name_of_elem (e_kind x) /\ p = e_pos x /\
    exists pre post, kinds_in_output_order = pre ++ e_kind x :: post /\
      forall k', In k' pre -> forall y, In (IExt y) doc -> e_kind y = k' -> defs_of k' (e_name y) doc <> [].
Proof.
  intros H. apply orphan_error_located in H.
  destruct H as (Hnd & pre & k & post & x & Hks & Hpre & Hfo & -> & ->).
  split; [assumption|]. destruct (first_orphan_doc_order k doc x Hfo) as [<- Hf].
  exists x. repeat split; try assumption. exists pre, post. split; [assumption|].
  intros k' Hk' y Hy Hky Hd. apply (Hpre k' Hk'). exists (e_name y). split; [|assumption].
  destruct (key_in_dec (e_name y) (keys k' doc)) as [Hi|Hi]; [exact Hi|].
  apply not_in_keys in Hi. destruct Hi as [_ Hi].
  assert (Hin : In y (exts_of k' (e_name y) doc)) by (apply in_exts_of; tauto).
  rewrite Hi in Hin. destruct Hin.
Qed.

(** ---- completeness of the boolean specification ---- *)

Lemma dup_original_b_sound doc : dup_original_b doc = true -> dup_original doc.
Proof.
  unfold dup_original_b. intros H. apply existsb_exists in H. destruct H as (d & _ & H).
  exists (d_kind d), (d_name d). now apply Nat.leb_le.
Qed.

Lemma orphan_extension_b_sound doc : orphan_extension_b doc = true -> orphan_extension doc.
Proof.
  unfold orphan_extension_b. intros H. apply existsb_exists in H. destruct H as (e & Hin & H).
  exists (e_kind e), (e_name e). split.
  - intros E. assert (Hx : In e (exts_of (e_kind e) (e_name e) doc)).
    { unfold exts_of. apply filter_In. split; [assumption|]. unfold ext_has_key. apply same_key_true. tauto. }
    rewrite E in Hx. destruct Hx.
  - destruct (defs_of (e_kind e) (e_name e) doc); [reflexivity|discriminate].
Qed.

Lemma count_item_perm x a b : Permutation a b -> count_item x a = count_item x b.
Proof. induction 1; cbn; lia. Qed.

Lemma same_multiset_complete a b : Permutation a b -> same_multiset a b = true.
Proof.
  intros P. unfold same_multiset. rewrite (Permutation_length P), Nat.eqb_refl. cbn.
  apply forallb_forall. intros x _. rewrite (count_item_perm x a b P). apply Nat.eqb_refl.
Qed.

Lemma dup_located_b_complete doc elem nm p1 p2 :
  dup_located doc elem nm p1 p2 -> dup_located_b doc elem nm p1 p2 = true.
Proof.
  intros (pre & d1 & mid & d2 & post & -> & Hk & Hn & -> & -> & -> & ->).
  induction pre as [|it pre IH].
  - cbn [app dup_located_b]. apply orb_true_iff. left.
    rewrite !str_eqb_refl, pos_eqb_refl. cbn [andb]. apply existsb_exists. exists d2. split; [|apply pos_eqb_refl].
    apply in_defs_of. split; [|split; assumption]. apply in_or_app. right. now left.
  - cbn [app dup_located_b]. destruct it; [apply orb_true_iff; right|..]; exact IH.
Qed.

Lemma orphan_located_b_complete doc elem p :
  orphan_located doc elem p -> orphan_located_b doc elem p = true.
Proof.
  intros (pre & e & post & -> & -> & -> & Hd). unfold orphan_located_b. apply existsb_exists.
  exists e. split.
  - unfold all_exts. apply in_flat_map. exists (IExt e). split; [apply in_or_app; right; now left|now left].
  - now rewrite str_eqb_refl, pos_eqb_refl, Hd.
Qed.

Lemma no_ext_complete out : (forall e, ~ In (IExt e) out) -> no_ext out = true.
Proof.
  intros H. unfold no_ext. apply forallb_forall. intros it Hin. destruct it; try reflexivity.
  exfalso. eapply H. eassumption.
Qed.

Lemma spec_ok_b_complete doc o : spec_ok doc o -> spec_ok_b doc o = true.
Proof.
  destruct o as [out|[elem nm p1 p2|elem p]]; cbn [spec_ok_b spec_ok].
  - intros (H1 & H2 & H3 & H4).
    destruct (dup_original_b doc) eqn:E1; [apply dup_original_b_sound in E1; contradiction|].
    destruct (orphan_extension_b doc) eqn:E2; [apply orphan_extension_b_sound in E2; contradiction|].
    now rewrite no_ext_complete, same_multiset_complete.
  - apply dup_located_b_complete.
  - apply orphan_located_b_complete.
Qed.

Lemma holds_complete c : case_ok c -> holds c = true.
Proof.
  destruct c as [files builtins [out|e dg info msg|]]; cbn [holds case_ok]; [apply spec_ok_b_complete| |tauto].
  intros [H (p & -> & Hp)]. rewrite (spec_ok_b_complete _ _ H). cbn.
  destruct e as [? ? p1 p2|? p1].
  - destruct Hp as [->| ->]; rewrite pos_eqb_refl; [reflexivity|apply orb_true_r].
  - subst. apply pos_eqb_refl.
Qed.

(** the check accepts what the model computes, for every representable document: a [holds]
    failure on an implementation output is therefore never an artefact of the checker as long
    as the implementation agrees with the model *)
Definition result_of (r : xerr + list item) : result :=
  match r with
  | inr out => ROk out
  | inl e => RErr e (Some (diag_pos e)) (additional_info e) (error_message e)
  end.

Lemma check_accepts_model files builtins :
  wf_doc (merge_documents files ++ builtins) = true ->
  holds (Case files builtins (result_of (resolve_files files builtins))) = true /\
  agree (Case files builtins (result_of (resolve_files files builtins))) = true.
Proof.
  intros Hwf. split.
  - apply holds_complete. unfold resolve_files.
    pose proof (model_spec_ok _ Hwf) as H.
    destruct (resolve (merge_documents files ++ builtins)) as [e|out]; cbn in *; [|assumption].
    split; [assumption|]. exists (diag_pos e). split; [reflexivity|]. destruct e; cbn; tauto.
  - cbn [agree]. destruct (resolve_files files builtins) as [e|out]; cbn.
    + assert (X : xerr_eqb e e = true) by (destruct e; cbn; now rewrite ?str_eqb_refl, ?pos_eqb_refl).
      rewrite X, pos_eqb_refl, str_eqb_refl. cbn.
      destruct e; cbn; [now rewrite pos_eqb_refl, str_eqb_refl|reflexivity].
    + induction out as [|x out IH]; [reflexivity|]. cbn. now rewrite item_eqb_refl, IH.
Qed.

(** ---- examples for the guard-free statements ---- *)

(** a document the Rust AST cannot represent (a scalar extension carrying [implements] and
    members): the guard-free statements still apply, the junk is not merged and not counted *)
Definition ex_junk : list item :=
  [ IDef (mkdef KScalar (Some (s "S")) (p 0 0 0) 1 [2] [] []);
    IExt (mkext KScalar (Some (s "S")) (p 1 0 0) [3] [77] [78]) ]%N.

Example ex_junk_not_wf : wf_doc ex_junk = false.
Proof. reflexivity. Qed.

Example ex_junk_resolve :
  resolve ex_junk = inr [IDef (mkdef KScalar (Some (s "S")) (p 0 0 0) 1 [2; 3] [] [])]%N
  /\ reference_k ex_junk = [IDef (mkdef KScalar (Some (s "S")) (p 0 0 0) 1 [2; 3] [] [])]%N.
Proof. split; vm_compute; reflexivity. Qed.

(** conservation on the two-file example of Proofs6 *)
Example ex_conservation :
  parts_in ex_doc =
  [ (KObject, Some (s "A"), CDirective, 41); (KObject, Some (s "A"), CImplements, 42); (KObject, Some (s "A"), CMember, 43);
    (KObject, Some (s "A"), CDirective, 10); (KObject, Some (s "A"), CMember, 11);
    (KScalar, Some (s "S"), CDirective, 50);
    (KObject, Some (s "A"), CMember, 60) ]%N
  /\ exists out, resolve ex_doc = inr out /\ Permutation (parts_out out) (parts_in ex_doc).
Proof.
  split; [vm_compute; reflexivity|].
  destruct (resolve ex_doc) as [e|out] eqn:E; [vm_compute in E; discriminate|].
  exists out. split; [reflexivity|]. now apply conservation.
Qed.

(** extensions of one definition in three files and among the builtins: merged in file order *)
Example ex_files_order :
  resolve_files
    [ [IExt (mkext KEnum (Some (s "E")) (p 5 0 0) [] [] [1])];
      [IDef (mkdef KEnum (Some (s "E")) (p 0 0 1) 9 [] [] [2]); IExt (mkext KEnum (Some (s "E")) (p 1 0 1) [] [] [3])];
      [IExt (mkext KEnum (Some (s "E")) (p 0 0 2) [] [] [4])] ]%N
    [IExt (mkext KEnum (Some (s "E")) (mkpos 0 0 0 true) [] [] [5])]%N
  = inr [IDef (mkdef KEnum (Some (s "E")) (p 0 0 1) 9 [] [] [2; 1; 3; 4; 5])]%N.
Proof. vm_compute. reflexivity. Qed.

(** two directive definitions with the same content survive as two *)
Example ex_same_directive_twice :
  resolve [IDir 7; IDef (mkdef KScalar (Some (s "S")) (p 0 0 0) 1 [] [] []); IDir 7]%N
  = inr [IDir 7; IDir 7; IDef (mkdef KScalar (Some (s "S")) (p 0 0 0) 1 [] [] [])]%N.
Proof. vm_compute. reflexivity. Qed.

(** two schema definitions are a duplicate, with the empty name *)
Example ex_two_schemas :
  resolve [IDef (mkdef KSchema None (p 0 0 0) 1 [] [] [2]); IDef (mkdef KSchema None (p 3 0 0) 3 [] [] [4])]%N
  = inl (DupOriginal (s "schema") [] (p 0 0 0) (p 3 0 0)).
Proof. vm_compute. reflexivity. Qed.

Example ex_offending :
  exists it, In it ex_bad /\ offending ex_bad it /\ item_pos it = Some (p 1 0 0).
Proof.
  exists (IDef (mkdef KUnion (Some (s "U")) (p 1 0 0) 3 [] [] [4]))%N.
  split; [right; now left|]. split; [vm_compute; lia|reflexivity].
Qed.
