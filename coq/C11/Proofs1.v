(** C11 — proofs, part 1: equalities, the state record, projection of the scanning loop onto one
    kind, and the closed form of one registry after the loop ([el_spec]). *)
From V Require Import Base.Util C11.Model C11.Spec.
From Coq Require Import Permutation.

(** ---- equalities ---- *)

Lemma kind_eqb_spec a b : reflect (a = b) (kind_eqb a b).
Proof. destruct a, b; cbn; constructor; congruence. Qed.

Lemma kind_eqb_refl a : kind_eqb a a = true.
Proof. destruct a; reflexivity. Qed.

Lemma key_eqb_spec (a b : key) : reflect (a = b) (key_eqb a b).
Proof.
  destruct a as [x|], b as [y|]; cbn; try (constructor; congruence).
  destruct (str_eqb_spec x y); constructor; congruence.
Qed.

Lemma key_eqb_refl a : key_eqb a a = true.
Proof. destruct (key_eqb_spec a a); congruence. Qed.

Lemma key_eqb_sym a b : key_eqb a b = key_eqb b a.
Proof. destruct (key_eqb_spec a b), (key_eqb_spec b a); congruence. Qed.

Lemma kind_eqb_sym a b : kind_eqb a b = kind_eqb b a.
Proof. destruct a, b; reflexivity. Qed.

(** ---- state record ---- *)

Lemma get_set_same k l st : get k (set k l st) = l.
Proof. destruct st, k; reflexivity. Qed.

Lemma get_set_other k k' l st : k <> k' -> get k' (set k l st) = get k' st.
Proof. destruct st, k, k'; intros H; try reflexivity; congruence. Qed.

Lemma get_push k a st : get k (push_directive a st) = get k st.
Proof. destruct st, k; reflexivity. Qed.

Lemma dirs_set k l st : s_directives (set k l st) = s_directives st.
Proof. destruct st, k; reflexivity. Qed.

Lemma dirs_push a st : s_directives (push_directive a st) = s_directives st ++ [a].
Proof. destruct st; reflexivity. Qed.

(** ---- the loop, seen from one kind ---- *)

Fixpoint scan1 (k : kind) (doc : list item) (l : elist) : xerr + elist :=
  match doc with
  | [] => inr l
  | IDef d :: r =>
      if kind_eqb (d_kind d) k
      then match set_original (name_of_elem k) l d with inl e => inl e | inr l' => scan1 k r l' end
      else scan1 k r l
  | IExt e :: r => if kind_eqb (e_kind e) k then scan1 k r (add_extension l e) else scan1 k r l
  | IDir _ :: r => scan1 k r l
  end.

Lemma scan_ok_proj doc : forall st st',
  scan doc st = inr st' ->
  (forall k, scan1 k doc (get k st) = inr (get k st')) /\
  s_directives st' = s_directives st ++ dirdefs doc.
Proof.
  induction doc as [|it r IH]; intros st st' H; cbn [scan] in H.
  - inversion H; subst. split; [reflexivity|]. cbn. now rewrite app_nil_r.
  - destruct it as [d|e|a].
    + destruct (set_original _ _ d) as [er|l] eqn:E; [discriminate|].
      apply IH in H. destruct H as [H1 H2]. split.
      * intros k. cbn [scan1]. destruct (kind_eqb_spec (d_kind d) k) as [<-|Hn].
        -- rewrite E. specialize (H1 (d_kind d)). now rewrite get_set_same in H1.
        -- specialize (H1 k). now rewrite get_set_other in H1.
      * rewrite H2, dirs_set. reflexivity.
    + apply IH in H. destruct H as [H1 H2]. split.
      * intros k. cbn [scan1]. destruct (kind_eqb_spec (e_kind e) k) as [<-|Hn].
        -- specialize (H1 (e_kind e)). now rewrite get_set_same in H1.
        -- specialize (H1 k). now rewrite get_set_other in H1.
      * rewrite H2, dirs_set. reflexivity.
    + apply IH in H. destruct H as [H1 H2]. split.
      * intros k. cbn [scan1]. specialize (H1 k). now rewrite get_push in H1.
      * rewrite H2, dirs_push. cbn. now rewrite <- app_assoc.
Qed.

(** an error of the loop is the error of the first [set_original] that fails *)
Lemma scan_err_split doc : forall st e,
  scan doc st = inl e ->
  exists pre d post st1,
    doc = pre ++ IDef d :: post /\ scan pre st = inr st1 /\
    set_original (name_of_elem (d_kind d)) (get (d_kind d) st1) d = inl e.
Proof.
  induction doc as [|it r IH]; intros st e H; cbn [scan] in H; [discriminate|].
  destruct it as [d|x|a].
  - destruct (set_original _ _ d) as [er|l] eqn:E.
    + inversion H; subst. exists [], d, r, st. repeat split; assumption.
    + apply IH in H. destruct H as (pre & d' & post & st1 & -> & H1 & H2).
      exists (IDef d :: pre), d', post, st1. repeat split; [|assumption].
      cbn [scan]. now rewrite E.
  - apply IH in H. destruct H as (pre & d' & post & st1 & -> & H1 & H2).
    exists (IExt x :: pre), d', post, st1. repeat split; assumption.
  - apply IH in H. destruct H as (pre & d' & post & st1 & -> & H1 & H2).
    exists (IDir a :: pre), d', post, st1. repeat split; assumption.
Qed.

Lemma scan_app a : forall b st,
  scan (a ++ b) st = match scan a st with inl e => inl e | inr st1 => scan b st1 end.
Proof.
  induction a as [|it r IH]; intros b st; [reflexivity|].
  cbn [app scan]. destruct it as [d|x|y]; [|apply IH|apply IH].
  destruct (set_original _ _ d); [reflexivity|apply IH].
Qed.

(** if no [set_original] fails for any kind, the loop succeeds *)
Lemma scan_total doc : forall st,
  (forall k, exists l, scan1 k doc (get k st) = inr l) -> exists st', scan doc st = inr st'.
Proof.
  induction doc as [|it r IH]; intros st H; cbn [scan]; [eauto|].
  destruct it as [d|e|a].
  - destruct (H (d_kind d)) as [l Hl]. cbn [scan1] in Hl. rewrite kind_eqb_refl in Hl.
    destruct (set_original _ _ d) as [er|l1] eqn:E; [discriminate|].
    apply IH. intros k. destruct (H k) as [l2 Hk]. cbn [scan1] in Hk.
    destruct (kind_eqb_spec (d_kind d) k) as [<-|Hn].
    + rewrite E in Hk. rewrite get_set_same. eauto.
    + rewrite get_set_other by assumption. eauto.
  - apply IH. intros k. destruct (H k) as [l2 Hk]. cbn [scan1] in Hk.
    destruct (kind_eqb_spec (e_kind e) k) as [<-|Hn].
    + rewrite get_set_same. eauto.
    + rewrite get_set_other by assumption. eauto.
  - apply IH. intros k. destruct (H k) as [l2 Hk]. cbn [scan1] in Hk.
    rewrite get_push. eauto.
Qed.

Lemma scan1_app k a : forall b l,
  scan1 k (a ++ b) l = match scan1 k a l with inl e => inl e | inr l1 => scan1 k b l1 end.
Proof.
  induction a as [|it r IH]; intros b l; [reflexivity|].
  cbn [app scan1]. destruct it as [d|x|y]; [| |apply IH].
  - destruct (kind_eqb (d_kind d) k); [|apply IH].
    destruct (set_original _ _ d); [reflexivity|apply IH].
  - destruct (kind_eqb (e_kind x) k); apply IH.
Qed.

(** ---- documents: elementary facts about all_defs / defs_of / exts_of ---- *)

Lemma all_defs_app a b : all_defs (a ++ b) = all_defs a ++ all_defs b.
Proof. apply flat_map_app. Qed.
Lemma all_exts_app a b : all_exts (a ++ b) = all_exts a ++ all_exts b.
Proof. apply flat_map_app. Qed.
Lemma dirdefs_app a b : dirdefs (a ++ b) = dirdefs a ++ dirdefs b.
Proof. apply flat_map_app. Qed.

Lemma defs_of_app k n a b : defs_of k n (a ++ b) = defs_of k n a ++ defs_of k n b.
Proof. unfold defs_of. now rewrite all_defs_app, filter_app. Qed.
Lemma exts_of_app k n a b : exts_of k n (a ++ b) = exts_of k n a ++ exts_of k n b.
Proof. unfold exts_of. now rewrite all_exts_app, filter_app. Qed.

Lemma same_key_true k n k' n' : same_key k n k' n' = true <-> k = k' /\ n = n'.
Proof.
  unfold same_key. destruct (kind_eqb_spec k k'), (key_eqb_spec n n'); cbn; split; intros H;
    try discriminate; try tauto; destruct H; congruence.
Qed.

Lemma in_defs_of k n doc d :
  In d (defs_of k n doc) <-> In (IDef d) doc /\ d_kind d = k /\ d_name d = n.
Proof.
  unfold defs_of. rewrite filter_In. unfold def_has_key. rewrite same_key_true.
  unfold all_defs. rewrite in_flat_map. split.
  - intros [[it [Hi Hd]] [-> ->]]. destruct it; cbn in Hd; try tauto.
    destruct Hd as [->|[]]. tauto.
  - intros [Hi [<- <-]]. split; [|tauto]. exists (IDef d). split; [assumption|now left].
Qed.

Lemma in_exts_of k n doc e :
  In e (exts_of k n doc) <-> In (IExt e) doc /\ e_kind e = k /\ e_name e = n.
Proof.
  unfold exts_of. rewrite filter_In. unfold ext_has_key. rewrite same_key_true.
  unfold all_exts. rewrite in_flat_map. split.
  - intros [[it [Hi Hd]] [-> ->]]. destruct it; cbn in Hd; try tauto.
    destruct Hd as [->|[]]. tauto.
  - intros [Hi [<- <-]]. split; [|tauto]. exists (IExt e). split; [assumption|now left].
Qed.

(** ---- keys of one registry, in first-occurrence order ---- *)

Lemma keys_acc_app k a : forall b acc, keys_acc k (a ++ b) acc = keys_acc k b (keys_acc k a acc).
Proof. induction a as [|it r IH]; intros b acc; [reflexivity|]. cbn. apply IH. Qed.

Lemma keys_snoc k doc it : keys k (doc ++ [it]) = add_key (item_key k it) (keys k doc).
Proof. unfold keys. now rewrite keys_acc_app. Qed.

Lemma mem_key_In n ks : mem_key n ks = true <-> In n ks.
Proof.
  unfold mem_key. rewrite existsb_exists. split.
  - intros [m [Hm He]]. destruct (key_eqb_spec n m); [now subst|discriminate].
  - intros H. exists n. split; [assumption|apply key_eqb_refl].
Qed.

Lemma NoDup_snoc {A} (l : list A) x : NoDup l -> ~ In x l -> NoDup (l ++ [x]).
Proof.
  induction l as [|y l IH]; intros H Hn; cbn.
  - constructor; [intros []|constructor].
  - inversion H as [|? ? Hy Hl]; subst. constructor.
    + rewrite in_app_iff. cbn. intros [H1|[->|[]]]; [tauto|]. apply Hn. now left.
    + apply IH; [assumption|]. intros Hi. apply Hn. now right.
Qed.

Lemma add_key_nodup o ks : NoDup ks -> NoDup (add_key o ks).
Proof.
  intros H. destruct o as [n|]; cbn; [|assumption].
  destruct (mem_key n ks) eqn:E; [assumption|].
  apply NoDup_snoc; [assumption|].
  intros Hin. apply mem_key_In in Hin. congruence.
Qed.
