(** C11 — proofs, part 5: independence of order, position and file; soundness of the boolean
    form of the specification that Corr.holds evaluates on the implementation's outputs. *)
From V Require Import Base.Util C11.Model C11.Spec C11.Corr C11.Proofs1 C11.Proofs2 C11.Proofs3 C11.Proofs4.
From Coq Require Import Permutation.

(** ---- permutations of the document ---- *)

Lemma filter_perm {A} (f : A -> bool) l l' : Permutation l l' -> Permutation (filter f l) (filter f l').
Proof.
  induction 1 as [|x l l' P IH|x y l|l l' l'' P1 IH1 P2 IH2]; cbn.
  - constructor.
  - destruct (f x); [now constructor|assumption].
  - destruct (f x), (f y); try apply Permutation_refl. apply perm_swap.
  - eapply Permutation_trans; eassumption.
Qed.

Lemma all_defs_perm doc doc' : Permutation doc doc' -> Permutation (all_defs doc) (all_defs doc').
Proof. apply Permutation_flat_map. Qed.
Lemma all_exts_perm doc doc' : Permutation doc doc' -> Permutation (all_exts doc) (all_exts doc').
Proof. apply Permutation_flat_map. Qed.
Lemma dirdefs_perm doc doc' : Permutation doc doc' -> Permutation (dirdefs doc) (dirdefs doc').
Proof. apply Permutation_flat_map. Qed.

Lemma defs_of_perm k n doc doc' : Permutation doc doc' -> Permutation (defs_of k n doc) (defs_of k n doc').
Proof. intros P. apply filter_perm, all_defs_perm, P. Qed.
Lemma exts_of_perm k n doc doc' : Permutation doc doc' -> Permutation (exts_of k n doc) (exts_of k n doc').
Proof. intros P. apply filter_perm, all_exts_perm, P. Qed.

Lemma dup_original_perm doc doc' : Permutation doc doc' -> dup_original doc -> dup_original doc'.
Proof.
  intros P (k & n & H). exists k, n. now rewrite <- (Permutation_length (defs_of_perm k n doc doc' P)).
Qed.

Lemma orphan_extension_perm doc doc' : Permutation doc doc' -> orphan_extension doc -> orphan_extension doc'.
Proof.
  intros P (k & n & He & Hd). exists k, n. split.
  - intros E. apply He. apply Permutation_nil. rewrite <- E. symmetry. now apply exts_of_perm.
  - apply Permutation_nil. rewrite <- Hd. now apply defs_of_perm.
Qed.

Lemma verdict_perm doc doc' :
  Permutation doc doc' -> ((exists e, resolve doc = inl e) <-> (exists e, resolve doc' = inl e)).
Proof.
  intros P. rewrite !resolve_error_iff. split; intros [H|H].
  - left. eapply dup_original_perm; eassumption.
  - right. eapply orphan_extension_perm; eassumption.
  - left. eapply dup_original_perm; [symmetry|]; eassumption.
  - right. eapply orphan_extension_perm; [symmetry|]; eassumption.
Qed.

Lemma model_merged_perm doc doc' :
  Permutation doc doc' -> (forall k n, exts_of k n doc = exts_of k n doc') ->
  Permutation (model_merged doc) (model_merged doc').
Proof.
  intros P He. unfold model_merged.
  erewrite map_ext; [apply Permutation_map, all_defs_perm, P|].
  intros d. unfold model_merge, exts_for. now rewrite He.
Qed.

Lemma permutation_invariant doc doc' :
  Permutation doc doc' -> (forall k n, exts_of k n doc = exts_of k n doc') ->
  ((exists e, resolve doc = inl e) <-> (exists e, resolve doc' = inl e)) /\
  forall out out', resolve doc = inr out -> resolve doc' = inr out' -> Permutation out out'.
Proof.
  intros P He. split; [now apply verdict_perm|]. intros out out' H H'.
  destruct (resolve_exact_model doc out H) as [defs [-> Pd]].
  destruct (resolve_exact_model doc' out' H') as [defs' [-> Pd']].
  apply Permutation_app.
  - apply Permutation_map, dirdefs_perm, P.
  - apply Permutation_map. eapply Permutation_trans; [exact Pd|].
    eapply Permutation_trans; [|symmetry; exact Pd']. now apply model_merged_perm.
Qed.

(** ---- forgetting positions (line, column, file) ---- *)

Lemma filter_map_comm {A} (f : A -> bool) (g : A -> A) l :
  (forall x, f (g x) = f x) -> filter f (map g l) = map g (filter f l).
Proof.
  intros H. induction l as [|x l IH]; [reflexivity|]. cbn. rewrite H.
  destruct (f x); cbn; now rewrite IH.
Qed.

Lemma all_defs_erase doc : all_defs (map erase_item doc) = map erase_def (all_defs doc).
Proof. unfold all_defs. induction doc as [|[d|e|a] doc IH]; cbn; congruence. Qed.
Lemma all_exts_erase doc : all_exts (map erase_item doc) = map erase_ext (all_exts doc).
Proof. unfold all_exts. induction doc as [|[d|e|a] doc IH]; cbn; congruence. Qed.
Lemma dirdefs_erase doc : dirdefs (map erase_item doc) = dirdefs doc.
Proof. unfold dirdefs. induction doc as [|[d|e|a] doc IH]; cbn; congruence. Qed.

Lemma defs_of_erase k n doc : defs_of k n (map erase_item doc) = map erase_def (defs_of k n doc).
Proof. unfold defs_of. rewrite all_defs_erase. now apply filter_map_comm. Qed.
Lemma exts_of_erase k n doc : exts_of k n (map erase_item doc) = map erase_ext (exts_of k n doc).
Proof. unfold exts_of. rewrite all_exts_erase. now apply filter_map_comm. Qed.

Lemma dup_original_erase doc : dup_original (map erase_item doc) <-> dup_original doc.
Proof. unfold dup_original. split; intros (k & n & H); exists k, n; now rewrite defs_of_erase, map_length in *. Qed.

Lemma map_nil_iff {A B} (f : A -> B) l : map f l = [] <-> l = [].
Proof. destruct l; cbn; split; congruence. Qed.

Lemma orphan_extension_erase doc : orphan_extension (map erase_item doc) <-> orphan_extension doc.
Proof.
  unfold orphan_extension. split; intros (k & n & H1 & H2); exists k, n;
    rewrite defs_of_erase, exts_of_erase, !map_nil_iff in *; tauto.
Qed.

Lemma flat_map_erase (f : ext -> list atom) es :
  (forall e, f (erase_ext e) = f e) -> flat_map f (map erase_ext es) = flat_map f es.
Proof. intros H. induction es as [|e es IH]; [reflexivity|]. cbn. now rewrite H, IH. Qed.

Lemma merge_of_erase k d es :
  erase_def (merge_of k (d, es)) = merge_of k (erase_def d, map erase_ext es).
Proof.
  destruct k; cbn; unfold chain, erase_def; cbn;
    rewrite ?(flat_map_erase e_dirs), ?(flat_map_erase e_impls), ?(flat_map_erase e_members) by reflexivity;
    reflexivity.
Qed.

Lemma model_merged_erase doc : map erase_def (model_merged doc) = model_merged (map erase_item doc).
Proof.
  unfold model_merged. rewrite all_defs_erase, !map_map. apply map_ext. intros d.
  unfold model_merge, exts_for. rewrite merge_of_erase. cbn [erase_def d_kind d_name].
  now rewrite exts_of_erase.
Qed.

Lemma position_independent doc doc' :
  Permutation (map erase_item doc) (map erase_item doc') ->
  (forall k n, map erase_ext (exts_of k n doc) = map erase_ext (exts_of k n doc')) ->
  ((exists e, resolve doc = inl e) <-> (exists e, resolve doc' = inl e)) /\
  forall out out', resolve doc = inr out -> resolve doc' = inr out' ->
                   Permutation (map erase_item out) (map erase_item out').
Proof.
  intros P He. split.
  - rewrite !resolve_error_iff.
    rewrite <- (dup_original_erase doc), <- (dup_original_erase doc'),
            <- (orphan_extension_erase doc), <- (orphan_extension_erase doc').
    split; intros [H|H].
    + left. eapply dup_original_perm; eassumption.
    + right. eapply orphan_extension_perm; eassumption.
    + left. eapply dup_original_perm; [symmetry|]; eassumption.
    + right. eapply orphan_extension_perm; [symmetry|]; eassumption.
  - intros out out' H H'.
    destruct (resolve_exact_model doc out H) as [defs [-> Pd]].
    destruct (resolve_exact_model doc' out' H') as [defs' [-> Pd']].
    rewrite !map_app, !map_map. cbn [erase_item].
    apply Permutation_app.
    + rewrite <- (dirdefs_erase doc), <- (dirdefs_erase doc'). apply Permutation_map, dirdefs_perm, P.
    + rewrite <- !(map_map erase_def IDef). apply Permutation_map.
      eapply Permutation_trans; [apply Permutation_map, Pd|].
      eapply Permutation_trans; [|symmetry; apply Permutation_map, Pd'].
      rewrite !model_merged_erase. apply model_merged_perm; [exact P|].
      intros k n. now rewrite !exts_of_erase.
Qed.

(** files: merging is concatenation, so resolving several files is resolving one document *)
Lemma files_concatenate files builtins :
  resolve_files files builtins = resolve (concat files ++ builtins).
Proof. reflexivity. Qed.

(** ---- soundness of the boolean specification ---- *)

Lemma pos_eqb_true a b : pos_eqb a b = true -> a = b.
Proof.
  destruct a, b. unfold pos_eqb. cbn. intros H.
  repeat (apply andb_prop in H; destruct H as [H ?]).
  apply N.eqb_eq in H. apply N.eqb_eq in H2. apply N.eqb_eq in H1. apply Bool.eqb_prop in H0. congruence.
Qed.
Lemma pos_eqb_refl a : pos_eqb a a = true.
Proof. destruct a. unfold pos_eqb. cbn. now rewrite !N.eqb_refl, Bool.eqb_reflx. Qed.

Lemma atoms_eqb_true a : forall b, atoms_eqb a b = true -> a = b.
Proof.
  unfold atoms_eqb. induction a as [|x a IH]; intros [|y b] H; cbn in H; try discriminate; [reflexivity|].
  apply andb_prop in H. destruct H as [H1 H2]. apply N.eqb_eq in H1. apply IH in H2. congruence.
Qed.
Lemma atoms_eqb_refl a : atoms_eqb a a = true.
Proof. unfold atoms_eqb. induction a as [|x a IH]; [reflexivity|]. cbn. now rewrite N.eqb_refl, IH. Qed.

Lemma def_eqb_true a b : def_eqb a b = true -> a = b.
Proof.
  destruct a, b. unfold def_eqb. cbn. intros H.
  repeat (apply andb_prop in H; destruct H as [H ?]).
  destruct (kind_eqb_spec d_kind d_kind0); [|discriminate].
  destruct (key_eqb_spec d_name d_name0); [|discriminate].
  apply pos_eqb_true in H4. apply N.eqb_eq in H3.
  apply atoms_eqb_true in H2. apply atoms_eqb_true in H1. apply atoms_eqb_true in H0. congruence.
Qed.
Lemma def_eqb_refl a : def_eqb a a = true.
Proof.
  unfold def_eqb. now rewrite kind_eqb_refl, key_eqb_refl, pos_eqb_refl, N.eqb_refl, !atoms_eqb_refl.
Qed.

Lemma ext_eqb_true a b : ext_eqb a b = true -> a = b.
Proof.
  destruct a, b. unfold ext_eqb. cbn. intros H.
  repeat (apply andb_prop in H; destruct H as [H ?]).
  destruct (kind_eqb_spec e_kind e_kind0); [|discriminate].
  destruct (key_eqb_spec e_name e_name0); [|discriminate].
  apply pos_eqb_true in H3.
  apply atoms_eqb_true in H2. apply atoms_eqb_true in H1. apply atoms_eqb_true in H0. congruence.
Qed.
Lemma ext_eqb_refl a : ext_eqb a a = true.
Proof. unfold ext_eqb. now rewrite kind_eqb_refl, key_eqb_refl, pos_eqb_refl, !atoms_eqb_refl. Qed.

Lemma item_eqb_true a b : item_eqb a b = true -> a = b.
Proof.
  destruct a, b; cbn; try discriminate; intros H.
  - f_equal. now apply def_eqb_true.
  - f_equal. now apply ext_eqb_true.
  - f_equal. now apply N.eqb_eq.
Qed.
Lemma item_eqb_refl a : item_eqb a a = true.
Proof. destruct a; cbn; [apply def_eqb_refl|apply ext_eqb_refl|apply N.eqb_refl]. Qed.

Lemma count_item_app x a b : count_item x (a ++ b) = count_item x a + count_item x b.
Proof. induction a as [|y a IH]; [reflexivity|]. cbn. rewrite IH. lia. Qed.

Lemma count_item_pos x l : 1 <= count_item x l -> In x l.
Proof.
  induction l as [|y l IH]; cbn; [lia|]. destruct (item_eqb x y) eqn:E.
  - intros _. left. symmetry. now apply item_eqb_true.
  - intros H. right. apply IH. lia.
Qed.

Lemma same_multiset_perm a : forall b,
  length a = length b -> (forall x, In x a -> count_item x a = count_item x b) -> Permutation a b.
Proof.
  induction a as [|x a IH]; intros b Hl Hc.
  - destruct b; [constructor|discriminate].
  - assert (Hx : In x b).
    { apply count_item_pos. rewrite <- Hc by now left. cbn. rewrite item_eqb_refl. lia. }
    apply in_split in Hx. destruct Hx as (b1 & b2 & ->).
    apply Permutation_cons_app. apply IH.
    + rewrite app_length in *. cbn in Hl. lia.
    + intros y Hy. specialize (Hc y (or_intror Hy)).
      rewrite count_item_app in *. cbn in Hc. lia.
Qed.

Lemma same_multiset_sound a b : same_multiset a b = true -> Permutation a b.
Proof.
  unfold same_multiset. intros H. apply andb_prop in H. destruct H as [H1 H2].
  apply Nat.eqb_eq in H1. apply same_multiset_perm; [assumption|].
  intros x Hx. rewrite forallb_forall in H2. now apply Nat.eqb_eq, H2.
Qed.

Lemma dup_original_b_complete doc : dup_original doc -> dup_original_b doc = true.
Proof.
  intros (k & n & H). unfold dup_original_b. apply existsb_exists.
  destruct (defs_of k n doc) as [|d r] eqn:E; [cbn in H; lia|].
  assert (Hin : In d (defs_of k n doc)) by (rewrite E; now left).
  pose proof Hin as Hin'. apply in_defs_of in Hin'. destruct Hin' as (Hd & <- & <-).
  exists d. split.
  - unfold all_defs. apply in_flat_map. exists (IDef d). split; [assumption|now left].
  - rewrite E. apply Nat.leb_le. exact H.
Qed.

Lemma orphan_extension_b_complete doc : orphan_extension doc -> orphan_extension_b doc = true.
Proof.
  intros (k & n & He & Hd). unfold orphan_extension_b. apply existsb_exists.
  destruct (exts_of k n doc) as [|e r] eqn:E; [congruence|].
  assert (Hin : In e (exts_of k n doc)) by (rewrite E; now left).
  apply in_exts_of in Hin. destruct Hin as (Hi & <- & <-).
  exists e. split.
  - unfold all_exts. apply in_flat_map. exists (IExt e). split; [assumption|now left].
  - now rewrite Hd.
Qed.

Lemma dup_located_b_sound doc elem nm p1 p2 :
  dup_located_b doc elem nm p1 p2 = true -> dup_located doc elem nm p1 p2.
Proof.
  induction doc as [|it doc IH]; cbn [dup_located_b]; [discriminate|].
  assert (Hrec : dup_located doc elem nm p1 p2 -> dup_located (it :: doc) elem nm p1 p2).
  { intros (pre & d1 & mid & d2 & post & -> & H). exists (it :: pre), d1, mid, d2, post. tauto. }
  destruct it as [d1|e|a]; [|intros H; apply Hrec, IH, H|intros H; apply Hrec, IH, H].
  intros H. apply orb_prop in H. destruct H as [H|H]; [|apply Hrec, IH, H].
  repeat (apply andb_prop in H; destruct H as [H ?]).
  apply existsb_exists in H0. destruct H0 as (d2 & Hd2 & Hp2).
  apply in_defs_of in Hd2. destruct Hd2 as (Hin & Hk & Hn).
  apply in_split in Hin. destruct Hin as (mid & post & ->).
  exists [], d1, mid, d2, post. cbn [app].
  destruct (str_eqb_spec elem (name_of_elem (d_kind d1))); [|discriminate].
  destruct (str_eqb_spec nm (unwrap_or_default (d_name d1))); [|discriminate].
  apply pos_eqb_true in H1. apply pos_eqb_true in Hp2. tauto.
Qed.

Lemma orphan_located_b_sound doc elem p :
  orphan_located_b doc elem p = true -> orphan_located doc elem p.
Proof.
  unfold orphan_located_b. intros H. apply existsb_exists in H. destruct H as (e & Hin & H).
  repeat (apply andb_prop in H; destruct H as [H ?]).
  unfold all_exts in Hin. apply in_flat_map in Hin. destruct Hin as (it & Hit & He).
  destruct it as [d|e'|a]; cbn in He; try tauto. destruct He as [->|[]].
  apply in_split in Hit. destruct Hit as (pre & post & ->).
  exists pre, e, post.
  destruct (str_eqb_spec elem (name_of_elem (e_kind e))); [|discriminate].
  apply pos_eqb_true in H1.
  destruct (defs_of (e_kind e) (e_name e) (pre ++ IExt e :: post)); [tauto|discriminate].
Qed.

Lemma no_ext_sound out : no_ext out = true -> forall e, ~ In (IExt e) out.
Proof.
  unfold no_ext. intros H e Hin. rewrite forallb_forall in H. specialize (H _ Hin). discriminate.
Qed.

Lemma spec_ok_b_sound doc o : spec_ok_b doc o = true -> spec_ok doc o.
Proof.
  destruct o as [out|[elem nm p1 p2|elem p]]; cbn [spec_ok_b spec_ok].
  - intros H. repeat (apply andb_prop in H; destruct H as [H ?]).
    repeat split.
    + intros Hd. apply dup_original_b_complete in Hd. rewrite Hd in H. discriminate.
    + intros Ho. apply orphan_extension_b_complete in Ho. rewrite Ho in H2. discriminate.
    + now apply no_ext_sound.
    + now apply same_multiset_sound.
  - apply dup_located_b_sound.
  - apply orphan_located_b_sound.
Qed.

(** what a passing [holds] on an implementation output means *)
Definition case_ok (c : case) : Prop :=
  match c with
  | Case files builtins (ROk out) => spec_ok (merge_documents files ++ builtins) (OOk out)
  | Case files builtins (RErr e dg _ _) =>
      spec_ok (merge_documents files ++ builtins) (OErr e) /\
      exists p, dg = Some p /\
        match e with DupOriginal _ _ p1 p2 => p = p1 \/ p = p2 | NoOriginal _ p1 => p = p1 end
  | Case _ _ RPanic => False
  end.

Lemma holds_sound c : holds c = true -> case_ok c.
Proof.
  destruct c as [files builtins [out|e dg info msg|]]; cbn [holds case_ok]; [apply spec_ok_b_sound| |discriminate].
  intros H. apply andb_prop in H. destruct H as [H1 H2]. split; [now apply spec_ok_b_sound|].
  destruct dg as [p|]; [|discriminate]. exists p. split; [reflexivity|].
  destruct e as [? ? p1 p2|? p1].
  - apply orb_prop in H2. destruct H2 as [H2|H2]; apply pos_eqb_true in H2; tauto.
  - now apply pos_eqb_true.
Qed.

(** the model agrees with itself under [agree]'s comparison: an [agree] failure is a genuine
    difference between model and implementation output, never an artefact of the comparison *)
Lemma list_item_eqb_true a : forall b, list_eqb item_eqb a b = true -> a = b.
Proof.
  induction a as [|x a IH]; intros [|y b] H; cbn in H; try discriminate; [reflexivity|].
  apply andb_prop in H. destruct H as [H1 H2]. apply item_eqb_true in H1. apply IH in H2. congruence.
Qed.

Lemma xerr_eqb_true a b : xerr_eqb a b = true -> a = b.
Proof.
  destruct a, b; cbn; try discriminate; intros H;
    repeat (apply andb_prop in H; destruct H as [H ?]).
  - destruct (str_eqb_spec name_of_elem name_of_elem0); [|discriminate].
    destruct (str_eqb_spec name name0); [|discriminate].
    apply pos_eqb_true in H1. apply pos_eqb_true in H0. congruence.
  - destruct (str_eqb_spec name_of_elem name_of_elem0); [|discriminate].
    apply pos_eqb_true in H0. congruence.
Qed.

Lemma agree_sound files builtins r :
  agree (Case files builtins r) = true ->
  match r with
  | ROk out => resolve_files files builtins = inr out
  | RErr e dg info msg => resolve_files files builtins = inl e /\ dg = Some (diag_pos e) /\ msg = error_message e
  | RPanic => False
  end.
Proof.
  cbn [agree]. destruct (resolve_files files builtins) as [e|out]; destruct r as [out'|e' dg info msg|]; cbn; try discriminate.
  - intros H. apply andb_prop in H. destruct H as [H Hm]. apply andb_prop in H. destruct H as [H _].
    apply andb_prop in H. destruct H as [H1 H2]. apply xerr_eqb_true in H1. subst e'.
    destruct (str_eqb_spec (error_message e) msg) as [<-|]; [|discriminate].
    destruct dg as [p|]; cbn in H2; [|discriminate]. apply pos_eqb_true in H2. now subst.
  - intros H. apply list_item_eqb_true in H. now subst.
Qed.
