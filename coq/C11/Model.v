(** C11 — executable model of
      crates/semantics/src/schema_extension_resolver/{mod.rs, extension_list.rs}
      crates/ast/src/base.rs            (Pos and its Ord: line, then column; file and builtin ignored)
      crates/ast/src/type_system.rs     (TypeSystemOrExtensionDocument::merge = concatenation)
    Definitions only.

    Abstraction.  Everything the resolver only moves around is an [atom] (the harness interns the
    canonical dump of a directive application, an interface name, a field / enum value / input value
    / union member / root operation definition, a directive definition, or "description + keyword"
    as a number; equal dumps = equal numbers).  What the resolver inspects is kept concrete: the
    kind of an item, whether it is a definition or an extension, its name ([None] for schema), and
    its position.  A definition or extension carries three component lists; a kind that has no such
    component in the Rust AST (e.g. [implements] of a scalar) always has [[]] there ([wf_item]). *)
From V Require Import Base.Util.

Definition atom := N.

Record pos := mkpos { pline : N; pcol : N; pfile : N; pbuiltin : bool }.

Inductive kind := KSchema | KScalar | KObject | KInterface | KUnion | KEnum | KInput.

(** SchemaDefinition / the six *TypeDefinition structs.  [d_keep] stands for the fields every
    merge function copies from the original untouched (description, keyword token). *)
Record def := mkdef {
  d_kind : kind; d_name : option str; d_pos : pos; d_keep : atom;
  d_dirs : list atom;      (* directives *)
  d_impls : list atom;     (* implements            (object, interface) *)
  d_members : list atom    (* fields / values / members / root operation definitions *)
}.

(** SchemaExtension / the six *TypeExtension structs. *)
Record ext := mkext {
  e_kind : kind; e_name : option str; e_pos : pos;
  e_dirs : list atom; e_impls : list atom; e_members : list atom
}.

(** TypeSystemDefinitionOrExtension (input) and TypeSystemDefinition (output: no [IExt]). *)
Inductive item :=
| IDef (d : def)
| IExt (e : ext)
| IDir (a : atom).          (* DirectiveDefinition *)

(** ExtensionErrorMessage.  [name_of_elem] is kept as the string the code puts there. *)
Inductive xerr :=
| DupOriginal (name_of_elem : str) (name : str) (first second : pos)
| NoOriginal (name_of_elem : str) (first_extension : pos).

(** impl From<ExtensionError> for PositionedError: the primary position of the diagnostic, the
    additional positions with their texts, and the #[error("…")] message of ExtensionErrorMessage *)
Definition diag_pos (e : xerr) : pos :=
  match e with DupOriginal _ _ first _ => first | NoOriginal _ p => p end.
Definition additional_info (e : xerr) : list (pos * str) :=
  match e with
  | DupOriginal _ name _ second => [(second, s "Another declaration of '" ++ name ++ s "'")]
  | NoOriginal _ _ => []
  end.
Definition error_message (e : xerr) : str :=
  match e with
  | DupOriginal elem name _ _ => s "Duplicated declaration of " ++ elem ++ s " '" ++ name ++ s "'"
  | NoOriginal elem _ => elem ++ s " is extended, but there is no original declaration of " ++ elem
  end.

(** the strings given to ExtensionList::new in resolve_schema_extensions *)
Definition name_of_elem (k : kind) : str :=
  match k with
  | KSchema => s "schema" | KScalar => s "scalar" | KObject => s "type"
  | KInterface => s "interface" | KUnion => s "union" | KEnum => s "enum"
  | KInput => s "input object"
  end.

Definition kind_eqb (a b : kind) : bool :=
  match a, b with
  | KSchema, KSchema | KScalar, KScalar | KObject, KObject | KInterface, KInterface
  | KUnion, KUnion | KEnum, KEnum | KInput, KInput => true
  | _, _ => false
  end.

Definition key := option str.
Definition key_eqb (a b : key) : bool := option_eqb str_eqb a b.

(** impl Ord for Pos: line.cmp(line).then(column.cmp(column)) *)
Definition pos_leb (a b : pos) : bool :=
  (pline a <? pline b)%N || ((pline a =? pline b)%N && (pcol a <=? pcol b)%N).

(** ---- extension_list.rs ---- *)

(** ExtensionItem { original: Option<O>, extensions: Vec<E> } *)
Record eitem := mkeitem { ei_orig : option def; ei_exts : list ext }.
Definition eitem_default : eitem := mkeitem None [].

(** IndexMap<Option<String>, ExtensionItem>: association list in insertion order, keys unique. *)
Definition elist := list (key * eitem).

Fixpoint el_find (k : key) (l : elist) : option eitem :=
  match l with
  | [] => None
  | (k', v) :: r => if key_eqb k k' then Some v else el_find k r
  end.

(** items.entry(k).or_default() followed by an in-place update [f] of the entry *)
Fixpoint el_upsert (k : key) (f : eitem -> eitem) (l : elist) : elist :=
  match l with
  | [] => [(k, f eitem_default)]
  | (k', v) :: r => if key_eqb k k' then (k', f v) :: r else (k', v) :: el_upsert k f r
  end.

Definition unwrap_or_default (n : key) : str := match n with Some x => x | None => [] end.

(** ExtensionList::set_original *)
Definition set_original (elem : str) (l : elist) (d : def) : xerr + elist :=
  match el_find (d_name d) l with
  | Some (mkeitem (Some first) _) =>
      inl (DupOriginal elem (unwrap_or_default (d_name d)) (d_pos first) (d_pos d))
  | _ => inr (el_upsert (d_name d) (fun it => mkeitem (Some d) (ei_exts it)) l)
  end.

(** ExtensionList::add_extension *)
Definition add_extension (l : elist) (e : ext) : elist :=
  el_upsert (e_name e) (fun it => mkeitem (ei_orig it) (ei_exts it ++ [e])) l.

(** the filter_map + collect::<Result<Vec<_>,_>>() of into_original_and_extensions *)
Fixpoint collect_items (elem : str) (l : elist) : xerr + list (def * list ext) :=
  match l with
  | [] => inr []
  | (_, it) :: r =>
      match ei_orig it with
      | None =>
          match ei_exts it with
          | [] => collect_items elem r
          | first :: _ => inl (NoOriginal elem (e_pos first))
          end
      | Some o =>
          match collect_items elem r with
          | inl e => inl e
          | inr t => inr ((o, ei_exts it) :: t)
          end
      end
  end.

(** result.sort_by_key(|(orig, _)| *orig.position()): a stable sort; the stable sort of a list
    by a total preorder is unique, insertion sort computes it. *)
Fixpoint insert_by_pos (x : def * list ext) (l : list (def * list ext)) : list (def * list ext) :=
  match l with
  | [] => [x]
  | y :: r => if pos_leb (d_pos (fst x)) (d_pos (fst y)) then x :: y :: r else y :: insert_by_pos x r
  end.
Definition sort_by_pos (l : list (def * list ext)) : list (def * list ext) :=
  fold_right insert_by_pos [] l.

(** ExtensionList::into_original_and_extensions *)
Definition into_original_and_extensions (elem : str) (l : elist) : xerr + list (def * list ext) :=
  match collect_items elem l with
  | inl e => inl e
  | inr t => inr (sort_by_pos t)
  end.

(** ---- mod.rs: the seven merge_* functions ----
    Each copies description/position/name/keyword from the original and chains, per component
    the kind has, the original's list with the extensions' lists in order. *)
Definition chain (orig : list atom) (f : ext -> list atom) (es : list ext) : list atom :=
  orig ++ flat_map f es.

Definition merge_schema_definition (x : def * list ext) : def :=
  let (d, es) := x in
  mkdef (d_kind d) (d_name d) (d_pos d) (d_keep d)
        (chain (d_dirs d) e_dirs es) (d_impls d) (chain (d_members d) e_members es).
Definition merge_scalar_definition (x : def * list ext) : def :=
  let (d, es) := x in
  mkdef (d_kind d) (d_name d) (d_pos d) (d_keep d)
        (chain (d_dirs d) e_dirs es) (d_impls d) (d_members d).
Definition merge_object_type_definition (x : def * list ext) : def :=
  let (d, es) := x in
  mkdef (d_kind d) (d_name d) (d_pos d) (d_keep d)
        (chain (d_dirs d) e_dirs es) (chain (d_impls d) e_impls es) (chain (d_members d) e_members es).
Definition merge_interface_definition (x : def * list ext) : def :=
  let (d, es) := x in
  mkdef (d_kind d) (d_name d) (d_pos d) (d_keep d)
        (chain (d_dirs d) e_dirs es) (chain (d_impls d) e_impls es) (chain (d_members d) e_members es).
Definition merge_union_definition (x : def * list ext) : def :=
  let (d, es) := x in
  mkdef (d_kind d) (d_name d) (d_pos d) (d_keep d)
        (chain (d_dirs d) e_dirs es) (d_impls d) (chain (d_members d) e_members es).
Definition merge_enum_definition (x : def * list ext) : def :=
  let (d, es) := x in
  mkdef (d_kind d) (d_name d) (d_pos d) (d_keep d)
        (chain (d_dirs d) e_dirs es) (d_impls d) (chain (d_members d) e_members es).
Definition merge_input_object_definition (x : def * list ext) : def :=
  let (d, es) := x in
  mkdef (d_kind d) (d_name d) (d_pos d) (d_keep d)
        (chain (d_dirs d) e_dirs es) (d_impls d) (chain (d_members d) e_members es).

Definition merge_of (k : kind) : def * list ext -> def :=
  match k with
  | KSchema => merge_schema_definition
  | KScalar => merge_scalar_definition
  | KObject => merge_object_type_definition
  | KInterface => merge_interface_definition
  | KUnion => merge_union_definition
  | KEnum => merge_enum_definition
  | KInput => merge_input_object_definition
  end.

(** ---- mod.rs: resolve_schema_extensions ---- *)

(** the eight local variables of the scanning loop *)
Record state := mkstate {
  s_schema : elist; s_scalar : elist; s_object : elist; s_interface : elist;
  s_union : elist; s_enum : elist; s_input : elist;
  s_directives : list atom
}.
Definition state0 : state := mkstate [] [] [] [] [] [] [] [].

Definition get (k : kind) (st : state) : elist :=
  match k with
  | KSchema => s_schema st | KScalar => s_scalar st | KObject => s_object st
  | KInterface => s_interface st | KUnion => s_union st | KEnum => s_enum st | KInput => s_input st
  end.
Definition set (k : kind) (l : elist) (st : state) : state :=
  match st with
  | mkstate a b c d e f g h =>
      match k with
      | KSchema => mkstate l b c d e f g h | KScalar => mkstate a l c d e f g h
      | KObject => mkstate a b l d e f g h | KInterface => mkstate a b c l e f g h
      | KUnion => mkstate a b c d l f g h | KEnum => mkstate a b c d e l g h
      | KInput => mkstate a b c d e f l h
      end
  end.
Definition push_directive (a : atom) (st : state) : state :=
  match st with mkstate x b c d e f g h => mkstate x b c d e f g (h ++ [a]) end.

(** for def in document.definitions { match def { … set_original(..)?  /  add_extension(..)  /  push } } *)
Fixpoint scan (doc : list item) (st : state) : xerr + state :=
  match doc with
  | [] => inr st
  | IDef d :: r =>
      match set_original (name_of_elem (d_kind d)) (get (d_kind d) st) d with
      | inl e => inl e
      | inr l => scan r (set (d_kind d) l st)
      end
  | IExt e :: r => scan r (set (e_kind e) (add_extension (get (e_kind e) st) e) st)
  | IDir a :: r => scan r (push_directive a st)
  end.

(** list.into_original_and_extensions()?.into_iter().map(merge_x).map(wrap) for one kind *)
Definition finish_kind (k : kind) (st : state) : xerr + list item :=
  match into_original_and_extensions (name_of_elem k) (get k st) with
  | inl e => inl e
  | inr t => inr (map (fun x => IDef (merge_of k x)) t)
  end.

(** the seven `?`s in source order, then the chain of iterators *)
Definition kinds_in_output_order : list kind :=
  [KSchema; KScalar; KObject; KInterface; KUnion; KEnum; KInput].

Fixpoint finish_kinds (ks : list kind) (st : state) : xerr + list item :=
  match ks with
  | [] => inr []
  | k :: r =>
      match finish_kind k st with
      | inl e => inl e
      | inr here =>
          match finish_kinds r st with
          | inl e => inl e
          | inr rest => inr (here ++ rest)
          end
      end
  end.

Definition resolve (doc : list item) : xerr + list item :=
  match scan doc state0 with
  | inl e => inl e
  | inr st =>
      match finish_kinds kinds_in_output_order st with
      | inl e => inl e
      | inr defs => inr (map IDir (s_directives st) ++ defs)
      end
  end.

(** TypeSystemOrExtensionDocument::merge (cli: resolve_loaded_schema) and the appended builtins
    (cli: extend_loaded_schema): concatenation. *)
Definition merge_documents (files : list (list item)) : list item := concat files.
Definition resolve_files (files : list (list item)) (builtins : list item) : xerr + list item :=
  resolve (merge_documents files ++ builtins).

(** Items the Rust AST can represent: components a kind does not have are empty, only schema
    items are nameless. *)
Definition has_impls (k : kind) : bool := match k with KObject | KInterface => true | _ => false end.
Definition has_members (k : kind) : bool := match k with KScalar => false | _ => true end.
Definition is_nil {A} (l : list A) : bool := match l with [] => true | _ => false end.
Definition name_ok (k : kind) (n : key) : bool :=
  match k, n with KSchema, None => true | KSchema, Some _ => false | _, Some _ => true | _, None => false end.
Definition wf_item (it : item) : bool :=
  match it with
  | IDef d => (has_impls (d_kind d) || is_nil (d_impls d)) && (has_members (d_kind d) || is_nil (d_members d))
              && name_ok (d_kind d) (d_name d)
  | IExt e => (has_impls (e_kind e) || is_nil (e_impls e)) && (has_members (e_kind e) || is_nil (e_members e))
              && name_ok (e_kind e) (e_name e)
  | IDir _ => true
  end.
Definition wf_doc (doc : list item) : bool := forallb wf_item doc.
