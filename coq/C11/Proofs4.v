(** C11 — proofs, part 4: the property statements. *)
From V Require Import Base.Util C11.Model C11.Spec C11.Proofs1 C11.Proofs2 C11.Proofs3.
From Coq Require Import Permutation.

(** ---- linking the per-kind notions with the specification's failure conditions ---- *)

Lemma nodup_iff doc : (forall k, nodup_k k doc) <-> ~ dup_original doc.
Proof.
  split.
  - intros H (k & n & Hl). specialize (H k n). lia.
  - intros H k n. destruct (le_lt_dec (length (defs_of k n doc)) 1) as [Hle|Hgt]; [assumption|].
    exfalso. apply H. exists k, n. lia.
Qed.

Lemma key_in_dec (n : key) ks : {In n ks} + {~ In n ks}.
Proof. apply in_dec. intros a b. destruct (key_eqb_spec a b); [now left|now right]. Defined.

Lemma orphan_iff doc : (exists k, orphan_k k doc) <-> orphan_extension doc.
Proof.
  split.
  - intros (k & n & Hn & Hd). exists k, n. split; [|assumption].
    destruct (in_keys k doc n Hn) as [H|H]; [congruence|assumption].
  - intros (k & n & He & Hd). exists k, n. split; [|assumption].
    destruct (key_in_dec n (keys k doc)) as [H|H]; [assumption|].
    apply not_in_keys in H. destruct H as [_ H]. congruence.
Qed.

Lemma all_kinds_ok_iff doc : all_kinds_ok doc <-> ~ dup_original doc /\ ~ orphan_extension doc.
Proof.
  unfold all_kinds_ok. rewrite nodup_iff, <- orphan_iff. split; intros [H1 H2]; (split; [assumption|]).
  - intros [k Hk]. now apply (H2 k).
  - intros k Hk. apply H2. now exists k.
Qed.

(** ---- no extension survives ---- *)

Lemma no_extension_survives doc out : resolve doc = inr out -> forall e, ~ In (IExt e) out.
Proof.
  intros H e Hin. apply resolve_ok_form in H. destruct H as [_ ->]. unfold resolve_out in Hin.
  apply in_app_or in Hin. destruct Hin as [Hin|Hin].
  - apply in_map_iff in Hin. destruct Hin as [a [Ha _]]. discriminate.
  - apply in_flat_map in Hin. destruct Hin as [k [_ Hin]]. unfold kind_out in Hin.
    apply in_map_iff in Hin. destruct Hin as [x [Hx _]]. discriminate.
Qed.

(** ---- exactness of a successful result ---- *)

Lemma resolve_out_defs doc : exists defs,
  resolve_out doc = map IDir (dirdefs doc) ++ map IDef defs.
Proof.
  unfold resolve_out.
  exists (flat_map (fun k => map (merge_of k) (sort_by_pos (entries k doc))) kinds_in_output_order).
  f_equal. rewrite <- flat_map_map_comm. apply flat_map_ext_in. intros k _. unfold kind_out.
  now rewrite map_map.
Qed.

Lemma map_IDef_perm_inv a b : Permutation (map IDef a) (map IDef b) -> Permutation a b.
Proof.
  intros H. apply (Permutation_map (fun it => match it with IDef d => [d] | _ => [] end)) in H.
  rewrite !map_map in H. cbn in H.
  apply (Permutation_flat_map (fun x : list def => x)) in H.
  rewrite !flat_map_concat_map, !map_id in H.
  assert (E : forall l : list def, concat (map (fun x => [x]) l) = l).
  { induction l as [|x l IH]; [reflexivity|]. cbn. now rewrite IH. }
  now rewrite !E in H.
Qed.

Lemma resolve_exact_model doc out :
  resolve doc = inr out ->
  exists defs, out = map IDir (dirdefs doc) ++ map IDef defs /\ Permutation defs (model_merged doc).
Proof.
  intros H. apply resolve_ok_form in H. destruct H as [[Hnd _] ->].
  destruct (resolve_out_defs doc) as [defs E]. exists defs. split; [assumption|].
  pose proof (resolve_out_perm doc Hnd) as P. rewrite E in P.
  apply Permutation_app_inv_l in P. now apply map_IDef_perm_inv.
Qed.

Lemma resolve_exact doc out :
  wf_doc doc = true -> resolve doc = inr out ->
  exists defs, out = map IDir (dirdefs doc) ++ map IDef defs /\ Permutation defs (merged_defs doc).
Proof.
  intros Hwf H. destruct (resolve_exact_model doc out H) as [defs [E P]].
  exists defs. split; [assumption|]. now rewrite <- (model_merged_ref doc Hwf).
Qed.

Lemma resolve_perm_reference doc out :
  wf_doc doc = true -> resolve doc = inr out -> Permutation out (reference doc).
Proof.
  intros Hwf H. destruct (resolve_exact doc out Hwf H) as [defs [-> P]].
  unfold reference. apply Permutation_app_head. now apply Permutation_map.
Qed.

(** what each merge function does to each component *)
Lemma merge_components k d es :
  let m := merge_of k (d, es) in
  d_kind m = d_kind d /\ d_name m = d_name d /\ d_pos m = d_pos d /\ d_keep m = d_keep d /\
  d_dirs m = d_dirs d ++ flat_map e_dirs es /\
  d_impls m = (if has_impls k then d_impls d ++ flat_map e_impls es else d_impls d) /\
  d_members m = (if has_members k then d_members d ++ flat_map e_members es else d_members d).
Proof. destruct k; cbn; repeat split; reflexivity. Qed.

Lemma merge_of_nil k d : merge_of k (d, []) = d.
Proof. destruct d, k; cbn; unfold chain; cbn; rewrite ?app_nil_r; reflexivity. Qed.

Lemma unextended_unchanged doc out d :
  resolve doc = inr out -> In (IDef d) doc -> exts_for d doc = [] -> In (IDef d) out.
Proof.
  intros H Hin He. destruct (resolve_exact_model doc out H) as [defs [-> P]].
  apply in_or_app. right. apply in_map. eapply Permutation_in; [symmetry; exact P|].
  unfold model_merged. apply in_map_iff. exists d. split.
  - unfold model_merge. now rewrite He, merge_of_nil.
  - unfold all_defs. apply in_flat_map. exists (IDef d). split; [assumption|now left].
Qed.

(** ---- failure: exactly when, and where ---- *)

Lemma resolve_err_cases doc e :
  resolve doc = inl e ->
  (exists pre d post st1,
      doc = pre ++ IDef d :: post /\ scan pre state0 = inr st1 /\
      set_original (name_of_elem (d_kind d)) (get (d_kind d) st1) d = inl e) \/
  (exists st, scan doc state0 = inr st /\ finish_kinds kinds_in_output_order st = inl e).
Proof.
  unfold resolve. intros H. destruct (scan doc state0) as [er|st] eqn:Es.
  - inversion H; subst. left. now apply scan_err_split.
  - right. exists st. split; [reflexivity|].
    destruct (finish_kinds kinds_in_output_order st); [assumption|discriminate].
Qed.

Lemma orphan_dec doc :
  (exists k, In k kinds_in_output_order /\ orphan_k k doc) \/ (forall k, ~ orphan_k k doc).
Proof.
  assert (G : forall ks, (exists k, In k ks /\ orphan_k k doc) \/ (forall k, In k ks -> ~ orphan_k k doc)).
  { induction ks as [|k ks IH]; [right; intros ? []|].
    destruct (keys_orphan_dec k doc) as [Ho|Hn].
    - left. exists k. split; [now left|exact Ho].
    - destruct IH as [[k' [Hk' Ho]]|Hno].
      + left. exists k'. split; [now right|exact Ho].
      + right. intros k' [<-|Hk']; [intros (n & Hn1 & Hn2); now apply (Hn n)|now apply Hno]. }
  destruct (G kinds_in_output_order) as [?|Hno]; [now left|right].
  intros k. apply Hno, all_kinds_listed.
Qed.

Lemma finish_err_form doc st e :
  scan doc state0 = inr st -> finish_kinds kinds_in_output_order st = inl e ->
  (forall k, nodup_k k doc) /\
  exists pre k post x,
    kinds_in_output_order = pre ++ k :: post /\ (forall k', In k' pre -> ~ orphan_k k' doc) /\
    first_orphan k doc x /\ e = NoOriginal (name_of_elem k) (e_pos x).
Proof.
  intros Hs Hf. apply scan_ok_inv in Hs. destruct Hs as [Hk _].
  split; [intros k; apply Hk|].
  destruct (orphan_dec doc) as [D|D].
  - destruct (finish_kinds_err kinds_in_output_order doc st) as (pre & k & post & x & E & Hp & Hfo & Hr).
    + intros k _. apply Hk.
    + exact D.
    + exists pre, k, post, x. repeat split; try assumption. congruence.
  - rewrite (finish_kinds_ok kinds_in_output_order doc st) in Hf; [discriminate|].
    intros k _. split; [apply Hk|apply D].
Qed.

Lemma dup_error_located doc elem nm p1 p2 :
  resolve doc = inl (DupOriginal elem nm p1 p2) ->
  exists pre d1 mid d2 post,
    doc = pre ++ IDef d1 :: mid ++ IDef d2 :: post /\
    d_kind d2 = d_kind d1 /\ d_name d2 = d_name d1 /\
    elem = name_of_elem (d_kind d1) /\ nm = unwrap_or_default (d_name d1) /\
    p1 = d_pos d1 /\ p2 = d_pos d2 /\
    ~ dup_original (pre ++ IDef d1 :: mid).
Proof.
  intros H. apply resolve_err_cases in H. destruct H as [(pre & d & post & st1 & -> & Hs & He)|(st & Hs & Hf)].
  - apply scan_ok_inv in Hs. destruct Hs as [Hk _].
    destruct (Hk (d_kind d)) as [_ Hg]. rewrite Hg, set_original_spec in He.
    destruct (defs_of (d_kind d) (d_name d) pre) as [|first rest] eqn:Ed; [discriminate|].
    inversion He; subst. clear He.
    assert (Hin : In first (defs_of (d_kind d) (d_name d) pre)) by (rewrite Ed; now left).
    apply in_defs_of in Hin. destruct Hin as (Hin & Hk1 & Hn1).
    apply in_split in Hin. destruct Hin as (a & b & ->).
    exists a, first, b, d, post. rewrite <- app_assoc. cbn [app].
    repeat split; try congruence.
    apply nodup_iff. intros k. apply Hk.
  - destruct (finish_err_form doc st _ Hs Hf) as (_ & pre & k & post & x & _ & _ & _ & E). discriminate.
Qed.

(** the NoOriginal error: no definition is duplicated; [k] is the first kind in output order with
    an orphan; the error points at the first extension of the first orphan name of kind [k] *)
Lemma orphan_error_located doc elem p :
  resolve doc = inl (NoOriginal elem p) ->
  ~ dup_original doc /\
  exists pre k post x,
    kinds_in_output_order = pre ++ k :: post /\ (forall k', In k' pre -> ~ orphan_k k' doc) /\
    first_orphan k doc x /\ elem = name_of_elem k /\ p = e_pos x.
Proof.
  intros H. apply resolve_err_cases in H. destruct H as [(pre & d & post & st1 & -> & Hs & He)|(st & Hs & Hf)].
  - exfalso. apply scan_ok_inv in Hs. destruct Hs as [Hk _].
    destruct (Hk (d_kind d)) as [_ Hg]. rewrite Hg, set_original_spec in He.
    destruct (defs_of (d_kind d) (d_name d) pre); discriminate.
  - destruct (finish_err_form doc st _ Hs Hf) as (Hnd & pre & k & post & x & E1 & Hp & Hfo & E).
    inversion E; subst. split; [now apply nodup_iff|].
    exists pre, k, post, x. repeat split; assumption.
Qed.

Lemma first_orphan_in_doc k doc x :
  first_orphan k doc x ->
  In (IExt x) doc /\ e_kind x = k /\ defs_of k (e_name x) doc = [].
Proof.
  intros (pre & n & post & rest & _ & _ & Hd & He).
  assert (Hin : In x (exts_of k n doc)) by (rewrite He; now left).
  apply in_exts_of in Hin. destruct Hin as (Hin & Hk & Hn). subst n. tauto.
Qed.

Lemma resolve_error_iff doc :
  (exists e, resolve doc = inl e) <-> dup_original doc \/ orphan_extension doc.
Proof.
  split.
  - intros [e H]. destruct e as [elem nm p1 p2|elem p].
    + left. apply dup_error_located in H.
      destruct H as (pre & d1 & mid & d2 & post & -> & Hk & Hn & _).
      exists (d_kind d1), (d_name d1).
      rewrite defs_of_app. replace (IDef d1 :: mid ++ IDef d2 :: post) with ([IDef d1] ++ mid ++ [IDef d2] ++ post) by reflexivity.
      rewrite !defs_of_app, !app_length, !defs_of_single. unfold same_key.
      rewrite Hk, Hn, kind_eqb_refl, key_eqb_refl. cbn. lia.
    + right. apply orphan_error_located in H. destruct H as (_ & pre & k & post & x & _ & _ & Hfo & _).
      apply orphan_iff. exists k. destruct Hfo as (a & n & b & rest & Hks & _ & Hd & _).
      exists n. split; [|assumption]. rewrite Hks. apply in_or_app. right. now left.
  - intros H. destruct (resolve doc) as [e|out] eqn:E; [eauto|].
    exfalso. apply resolve_ok_form in E. destruct E as [Hok _].
    apply all_kinds_ok_iff in Hok. tauto.
Qed.

Lemma resolve_ok_iff doc :
  (exists out, resolve doc = inr out) <-> ~ dup_original doc /\ ~ orphan_extension doc.
Proof.
  split.
  - intros [out H]. apply resolve_ok_form in H. destruct H as [Hok _]. now apply all_kinds_ok_iff.
  - intros H. apply all_kinds_ok_iff in H. eexists. now apply resolve_ok_conv.
Qed.

(** ---- the whole property as one statement about the model ---- *)

Definition outcome_of (r : xerr + list item) : outcome :=
  match r with inr out => OOk out | inl e => OErr e end.

Lemma model_spec_ok doc : wf_doc doc = true -> spec_ok doc (outcome_of (resolve doc)).
Proof.
  intros Hwf. destruct (resolve doc) as [e|out] eqn:E; cbn.
  - destruct e as [elem nm p1 p2|elem p].
    + apply dup_error_located in E.
      destruct E as (pre & d1 & mid & d2 & post & E & Hk & Hn & He & Hm & H1 & H2 & _).
      exists pre, d1, mid, d2, post. tauto.
    + apply orphan_error_located in E. destruct E as (_ & pre & k & post & x & _ & _ & Hfo & -> & ->).
      destruct (first_orphan_in_doc k doc x Hfo) as (Hin & <- & Hd).
      apply in_split in Hin. destruct Hin as (a & b & ->).
      exists a, x, b. tauto.
  - pose proof (resolve_ok_form doc out E) as [Hok _]. apply all_kinds_ok_iff in Hok.
    destruct Hok as [H1 H2]. repeat split; try assumption.
    + now apply no_extension_survives with (doc := doc).
    + now apply resolve_perm_reference.
Qed.
