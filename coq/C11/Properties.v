(** C11 — property theorems only.  Each is closed by [exact] of a lemma in Proofs*.v and followed
    by [Print Assumptions]. *)
From V Require Import Base.Util C11.Model C11.Spec C11.Proofs1 C11.Proofs2 C11.Proofs3.
From Coq Require Import Permutation.

Theorem C11_success_form : forall doc out,
  resolve doc = inr out ->
  ((forall k n, length (defs_of k n doc) <= 1) /\ (forall k, ~ orphan_k k doc)) /\
  out = map IDir (dirdefs doc)
        ++ flat_map (fun k => map (fun x => IDef (merge_of k x)) (sort_by_pos (entries k doc))) kinds_in_output_order.
Proof. exact resolve_ok_form. Qed.
Print Assumptions C11_success_form.
