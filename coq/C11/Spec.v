(** C11 — specification side, written from the property text (not from the code):
    "for every defined schema/scalar/object/interface/union/enum/input type, one definition whose
     directives, implemented interfaces, fields, members or values are exactly the original's
     followed by those of each of its extensions in document order; directive definitions and
     unextended definitions pass through unchanged; no extend item survives.  It fails exactly when
     a name is defined twice within a kind or an extension has no same-kind definition". *)
From V Require Import Base.Util C11.Model.
From Coq Require Import Permutation.

Definition same_key (k : kind) (n : key) (k' : kind) (n' : key) : bool :=
  kind_eqb k k' && key_eqb n n'.

Definition def_has_key (k : kind) (n : key) (d : def) : bool := same_key k n (d_kind d) (d_name d).
Definition ext_has_key (k : kind) (n : key) (e : ext) : bool := same_key k n (e_kind e) (e_name e).

(** the definitions / extensions / directive definitions of a document, in document order *)
Definition all_defs (doc : list item) : list def :=
  flat_map (fun it => match it with IDef d => [d] | _ => [] end) doc.
Definition all_exts (doc : list item) : list ext :=
  flat_map (fun it => match it with IExt e => [e] | _ => [] end) doc.
Definition dirdefs (doc : list item) : list atom :=
  flat_map (fun it => match it with IDir a => [a] | _ => [] end) doc.

Definition defs_of (k : kind) (n : key) (doc : list item) : list def := filter (def_has_key k n) (all_defs doc).
Definition exts_of (k : kind) (n : key) (doc : list item) : list ext := filter (ext_has_key k n) (all_exts doc).

(** the extensions that belong to definition [d] *)
Definition exts_for (d : def) (doc : list item) : list ext := exts_of (d_kind d) (d_name d) doc.

(** reference merge: original ++ extensions in order, component by component *)
Definition merge_ref (d : def) (es : list ext) : def :=
  mkdef (d_kind d) (d_name d) (d_pos d) (d_keep d)
        (d_dirs d ++ flat_map e_dirs es)
        (d_impls d ++ flat_map e_impls es)
        (d_members d ++ flat_map e_members es).

Definition merged_defs (doc : list item) : list def :=
  map (fun d => merge_ref d (exts_for d doc)) (all_defs doc).

(** the reference result, as a multiset: every directive definition, and every definition merged *)
Definition reference (doc : list item) : list item :=
  map IDir (dirdefs doc) ++ map IDef (merged_defs doc).

(** failure conditions *)
Definition dup_original (doc : list item) : Prop :=
  exists k n, 2 <= length (defs_of k n doc).
Definition orphan_extension (doc : list item) : Prop :=
  exists k n, exts_of k n doc <> [] /\ defs_of k n doc = [].

Definition dup_original_b (doc : list item) : bool :=
  existsb (fun d => Nat.leb 2 (length (defs_of (d_kind d) (d_name d) doc))) (all_defs doc).
Definition orphan_extension_b (doc : list item) : bool :=
  existsb (fun e => is_nil (defs_of (e_kind e) (e_name e) doc)) (all_exts doc).

(** names used by items of kind [k] (definitions or extensions), in order of first occurrence *)
Definition item_key (k : kind) (it : item) : option key :=
  match it with
  | IDef d => if kind_eqb (d_kind d) k then Some (d_name d) else None
  | IExt e => if kind_eqb (e_kind e) k then Some (e_name e) else None
  | IDir _ => None
  end.

Definition mem_key (n : key) (ks : list key) : bool := existsb (key_eqb n) ks.

Definition add_key (o : option key) (ks : list key) : list key :=
  match o with
  | Some n => if mem_key n ks then ks else ks ++ [n]
  | None => ks
  end.

Fixpoint keys_acc (k : kind) (doc : list item) (acc : list key) : list key :=
  match doc with
  | [] => acc
  | it :: r => keys_acc k r (add_key (item_key k it) acc)
  end.
Definition keys (k : kind) (doc : list item) : list key := keys_acc k doc [].

(** an extension of kind [k] whose name nobody of kind [k] defines *)
Definition orphan_k (k : kind) (doc : list item) : Prop :=
  exists n, In n (keys k doc) /\ defs_of k n doc = [].

(** the first key (in first-occurrence order) without a definition yields the error *)
Definition first_orphan (k : kind) (doc : list item) (e : ext) : Prop :=
  exists pre n post rest,
    keys k doc = pre ++ n :: post /\ (forall m, In m pre -> defs_of k m doc <> []) /\
    defs_of k n doc = [] /\ exts_of k n doc = e :: rest.

(** positions erased: what remains of a document when one forgets where (and in which file)
    each definition and extension was written *)
Definition pos0 : pos := mkpos 0 0 0 false.
Definition erase_def (d : def) : def :=
  mkdef (d_kind d) (d_name d) pos0 (d_keep d) (d_dirs d) (d_impls d) (d_members d).
Definition erase_ext (e : ext) : ext :=
  mkext (e_kind e) (e_name e) pos0 (e_dirs e) (e_impls e) (e_members e).
Definition erase_item (it : item) : item :=
  match it with IDef d => IDef (erase_def d) | IExt e => IExt (erase_ext e) | IDir a => IDir a end.

(** ---- decidable equalities (used by Corr.v and by the boolean form of the spec) ---- *)
Definition pos_eqb (a b : pos) : bool :=
  (pline a =? pline b)%N && (pcol a =? pcol b)%N && (pfile a =? pfile b)%N && Bool.eqb (pbuiltin a) (pbuiltin b).
Definition atoms_eqb (a b : list atom) : bool := list_eqb N.eqb a b.
Definition def_eqb (a b : def) : bool :=
  kind_eqb (d_kind a) (d_kind b) && key_eqb (d_name a) (d_name b) && pos_eqb (d_pos a) (d_pos b)
  && (d_keep a =? d_keep b)%N && atoms_eqb (d_dirs a) (d_dirs b) && atoms_eqb (d_impls a) (d_impls b)
  && atoms_eqb (d_members a) (d_members b).
Definition ext_eqb (a b : ext) : bool :=
  kind_eqb (e_kind a) (e_kind b) && key_eqb (e_name a) (e_name b) && pos_eqb (e_pos a) (e_pos b)
  && atoms_eqb (e_dirs a) (e_dirs b) && atoms_eqb (e_impls a) (e_impls b)
  && atoms_eqb (e_members a) (e_members b).
Definition item_eqb (a b : item) : bool :=
  match a, b with
  | IDef x, IDef y => def_eqb x y
  | IExt x, IExt y => ext_eqb x y
  | IDir x, IDir y => (x =? y)%N
  | _, _ => false
  end.
Definition xerr_eqb (a b : xerr) : bool :=
  match a, b with
  | DupOriginal e n p q, DupOriginal e' n' p' q' => str_eqb e e' && str_eqb n n' && pos_eqb p p' && pos_eqb q q'
  | NoOriginal e p, NoOriginal e' p' => str_eqb e e' && pos_eqb p p'
  | _, _ => false
  end.

(** multiset equality of item lists *)
Fixpoint count_item (x : item) (l : list item) : nat :=
  match l with [] => 0 | y :: r => (if item_eqb x y then 1 else 0) + count_item x r end.
Definition same_multiset (a b : list item) : bool :=
  Nat.eqb (length a) (length b) && forallb (fun x => Nat.eqb (count_item x a) (count_item x b)) a.

(** ---- the property as a predicate on (document, observed outcome) ---- *)
Inductive outcome := OOk (out : list item) | OErr (e : xerr).

(** an error is "at the offending item": a duplicate names two distinct definitions of one kind
    and name (the earlier one first); an orphan names an extension of a kind/name nobody defines *)
Definition dup_located (doc : list item) (elem name : str) (p1 p2 : pos) : Prop :=
  exists pre d1 mid d2 post,
    doc = pre ++ IDef d1 :: mid ++ IDef d2 :: post /\
    d_kind d2 = d_kind d1 /\ d_name d2 = d_name d1 /\
    elem = name_of_elem (d_kind d1) /\ name = unwrap_or_default (d_name d1) /\
    p1 = d_pos d1 /\ p2 = d_pos d2.
Definition orphan_located (doc : list item) (elem : str) (p : pos) : Prop :=
  exists pre e post,
    doc = pre ++ IExt e :: post /\ elem = name_of_elem (e_kind e) /\ p = e_pos e /\
    defs_of (e_kind e) (e_name e) doc = [].

Definition spec_ok (doc : list item) (o : outcome) : Prop :=
  match o with
  | OOk out => ~ dup_original doc /\ ~ orphan_extension doc /\
               (forall e, ~ In (IExt e) out) /\ Permutation out (reference doc)
  | OErr (DupOriginal elem name p1 p2) => dup_located doc elem name p1 p2
  | OErr (NoOriginal elem p) => orphan_located doc elem p
  end.

(** boolean form, evaluated on the implementation's outputs by Corr.holds *)
Fixpoint dup_located_b (doc : list item) (elem name : str) (p1 p2 : pos) : bool :=
  match doc with
  | [] => false
  | IDef d1 :: r =>
      (str_eqb elem (name_of_elem (d_kind d1)) && str_eqb name (unwrap_or_default (d_name d1))
       && pos_eqb p1 (d_pos d1)
       && existsb (fun d2 => pos_eqb p2 (d_pos d2)) (defs_of (d_kind d1) (d_name d1) r))
      || dup_located_b r elem name p1 p2
  | _ :: r => dup_located_b r elem name p1 p2
  end.
Definition orphan_located_b (doc : list item) (elem : str) (p : pos) : bool :=
  existsb (fun e => str_eqb elem (name_of_elem (e_kind e)) && pos_eqb p (e_pos e)
                    && is_nil (defs_of (e_kind e) (e_name e) doc)) (all_exts doc).
Definition no_ext (out : list item) : bool :=
  forallb (fun it => match it with IExt _ => false | _ => true end) out.

Definition spec_ok_b (doc : list item) (o : outcome) : bool :=
  match o with
  | OOk out => negb (dup_original_b doc) && negb (orphan_extension_b doc) && no_ext out
               && same_multiset out (reference doc)
  | OErr (DupOriginal elem name p1 p2) => dup_located_b doc elem name p1 p2
  | OErr (NoOriginal elem p) => orphan_located_b doc elem p
  end.
