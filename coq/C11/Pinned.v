(** Pinned statements of the C11 property theorems: compiled on every check, so a theorem cannot
    be weakened silently. *)
From V Require Import Base.Util C11.Model C11.Spec C11.SpecFull C11.Corr C11.Proofs1 C11.Proofs2 C11.Proofs3 C11.Proofs4 C11.Proofs5 C11.Proofs6 C11.Proofs7 C11.Proofs8.
From Coq Require Import Permutation Sorted.
From V Require Import C11.Properties.

Check (C11_no_extension_survives : forall doc out, resolve doc = inr out -> forall e, ~ In (IExt e) out).
Check (C11_success_form : forall doc out,
  resolve doc = inr out ->
  ((forall k n, length (defs_of k n doc) <= 1) /\ (forall k, ~ orphan_k k doc)) /\
  out = map IDir (dirdefs doc)
        ++ flat_map (fun k => map (fun x => IDef (merge_of k x)) (sort_by_pos (entries k doc))) kinds_in_output_order).
Check (C11_resolve_exact : forall doc out,
  wf_doc doc = true -> resolve doc = inr out ->
  exists defs, out = map IDir (dirdefs doc) ++ map IDef defs /\
               Permutation defs (map (fun d => merge_ref d (exts_of (d_kind d) (d_name d) doc)) (all_defs doc))).
Check (C11_merge_components : forall k d es,
  let m := merge_of k (d, es) in
  d_kind m = d_kind d /\ d_name m = d_name d /\ d_pos m = d_pos d /\ d_keep m = d_keep d /\
  d_dirs m = d_dirs d ++ flat_map e_dirs es /\
  d_impls m = (if has_impls k then d_impls d ++ flat_map e_impls es else d_impls d) /\
  d_members m = (if has_members k then d_members d ++ flat_map e_members es else d_members d)).
Check (C11_unextended_unchanged : forall doc out d,
  resolve doc = inr out -> In (IDef d) doc -> exts_of (d_kind d) (d_name d) doc = [] -> In (IDef d) out).
Check (C11_one_definition : forall doc out,
  resolve doc = inr out ->
  forall k n, length (defs_of k n out) = length (defs_of k n doc) /\ length (defs_of k n doc) <= 1).
Check (C11_output_order : forall doc out,
  resolve doc = inr out ->
  out = map IDir (dirdefs doc) ++ flat_map (fun k => kind_out k doc) kinds_in_output_order /\
  forall k, Sorted item_pos_le (kind_out k doc) /\
            forall it, In it (kind_out k doc) -> exists d, it = IDef d /\ d_kind d = k).
Check (C11_error_iff : forall doc,
  (exists e, resolve doc = inl e) <-> dup_original doc \/ orphan_extension doc).
Check (C11_success_iff : forall doc,
  (exists out, resolve doc = inr out) <-> ~ dup_original doc /\ ~ orphan_extension doc).
Check (C11_dup_error_located : forall doc elem nm p1 p2,
  resolve doc = inl (DupOriginal elem nm p1 p2) ->
  exists pre d1 mid d2 post,
    doc = pre ++ IDef d1 :: mid ++ IDef d2 :: post /\
    d_kind d2 = d_kind d1 /\ d_name d2 = d_name d1 /\
    elem = name_of_elem (d_kind d1) /\ nm = unwrap_or_default (d_name d1) /\
    p1 = d_pos d1 /\ p2 = d_pos d2 /\
    ~ dup_original (pre ++ IDef d1 :: mid)).
Check (C11_orphan_error_located : forall doc elem p,
  resolve doc = inl (NoOriginal elem p) ->
  ~ dup_original doc /\
  exists pre k post x,
    kinds_in_output_order = pre ++ k :: post /\ (forall k', In k' pre -> ~ orphan_k k' doc) /\
    first_orphan k doc x /\ elem = name_of_elem k /\ p = e_pos x).
Check (C11_error_variant : forall doc e,
  resolve doc = inl e ->
  match e with DupOriginal _ _ _ _ => dup_original doc
             | NoOriginal _ _ => ~ dup_original doc /\ orphan_extension doc end).
Check (C11_model_meets_spec : forall doc, wf_doc doc = true -> spec_ok doc (outcome_of (resolve doc))).
Check (C11_permutation_invariant : forall doc doc',
  Permutation doc doc' -> (forall k n, exts_of k n doc = exts_of k n doc') ->
  ((exists e, resolve doc = inl e) <-> (exists e, resolve doc' = inl e)) /\
  forall out out', resolve doc = inr out -> resolve doc' = inr out' -> Permutation out out').
Check (C11_position_and_file_independent : forall doc doc',
  Permutation (map erase_item doc) (map erase_item doc') ->
  (forall k n, map erase_ext (exts_of k n doc) = map erase_ext (exts_of k n doc')) ->
  ((exists e, resolve doc = inl e) <-> (exists e, resolve doc' = inl e)) /\
  forall out out', resolve doc = inr out -> resolve doc' = inr out' ->
                   Permutation (map erase_item out) (map erase_item out')).
Check (C11_files_concatenate : forall files builtins,
  resolve_files files builtins = resolve (concat files ++ builtins)).
Check (C11_holds_sound : forall c, holds c = true -> case_ok c).
Check (C11_spec_ok_b_sound : forall doc o, spec_ok_b doc o = true -> spec_ok doc o).
Check (C11_agree_sound : forall files builtins r,
  agree (Case files builtins r) = true ->
  match r with
  | ROk out => resolve_files files builtins = inr out
  | RErr e dg info msg => resolve_files files builtins = inl e /\ dg = Some (diag_pos e) /\ msg = error_message e
  | RPanic => False
  end).
Check (C11_sort_is_stable_sort : forall l,
  Sorted entry_le (sort_by_pos l) /\ Permutation (sort_by_pos l) l /\
  forall q, filter (same_linecol q) (sort_by_pos l) = filter (same_linecol q) l).
Check (C11_model_meets_spec_full : forall doc, spec_ok_full doc (outcome_of (resolve doc))).
Check (C11_resolve_exact_full : forall doc out,
  resolve doc = inr out ->
  exists defs, out = map IDir (dirdefs doc) ++ map IDef defs /\
               Permutation defs (map (fun d => merge_ref_k d (exts_of (d_kind d) (d_name d) doc)) (all_defs doc))).
Check (C11_reference_k_wf : forall doc, wf_doc doc = true -> reference_k doc = reference doc).
Check (C11_conservation : forall doc out,
  resolve doc = inr out ->
  Permutation (parts_out out) (parts_in doc) /\
  Permutation (map def_head (all_defs out)) (map def_head (all_defs doc)) /\
  dirdefs out = dirdefs doc).
Check (C11_merged_item_order : forall files builtins out d',
  resolve_files files builtins = inr out -> In (IDef d') out ->
  exists d, In (IDef d) (concat files ++ builtins) /\
    d' = merge_ref_k d (flat_map (exts_of (d_kind d) (d_name d)) files ++ exts_of (d_kind d) (d_name d) builtins)).
Check (C11_directive_definitions_pass : forall doc out,
  resolve doc = inr out ->
  dirdefs out = dirdefs doc /\ out = map IDir (dirdefs doc) ++ map IDef (all_defs out)).
Check (C11_directive_definitions_across_files : forall files builtins,
  dirdefs (merge_documents files ++ builtins) = flat_map dirdefs files ++ dirdefs builtins).
Check (C11_diagnostic_at_offending_item : forall doc e,
  resolve doc = inl e ->
  (exists it, In it doc /\ offending doc it /\ item_pos it = Some (diag_pos e)) /\
  (forall p t, In (p, t) (additional_info e) ->
     exists it, In it doc /\ offending doc it /\ item_pos it = Some p)).
Check (C11_fails_iff_offending : forall doc,
  (exists e, resolve doc = inl e) <-> (exists it, In it doc /\ offending doc it)).
Check (C11_orphan_error_in_document : forall doc elem p,
  resolve doc = inl (NoOriginal elem p) ->
  ~ dup_original doc /\
  exists x, first_orphan_in_document doc x /\ elem = name_of_elem (e_kind x) /\ p = e_pos x /\
    exists pre post, kinds_in_output_order = pre ++ e_kind x :: post /\
      forall k', In k' pre -> forall y, In (IExt y) doc -> e_kind y = k' -> defs_of k' (e_name y) doc <> []).
Check (C11_spec_ok_b_complete : forall doc o, spec_ok doc o -> spec_ok_b doc o = true).
Check (C11_holds_complete : forall c, case_ok c -> holds c = true).
Check (C11_check_accepts_model : forall files builtins,
  wf_doc (merge_documents files ++ builtins) = true ->
  holds (Case files builtins (result_of (resolve_files files builtins))) = true /\
  agree (Case files builtins (result_of (resolve_files files builtins))) = true).

Print Assumptions C11_no_extension_survives.
Print Assumptions C11_success_form.
Print Assumptions C11_resolve_exact.
Print Assumptions C11_merge_components.
Print Assumptions C11_unextended_unchanged.
Print Assumptions C11_one_definition.
Print Assumptions C11_output_order.
Print Assumptions C11_error_iff.
Print Assumptions C11_success_iff.
Print Assumptions C11_dup_error_located.
Print Assumptions C11_orphan_error_located.
Print Assumptions C11_error_variant.
Print Assumptions C11_model_meets_spec.
Print Assumptions C11_permutation_invariant.
Print Assumptions C11_position_and_file_independent.
Print Assumptions C11_files_concatenate.
Print Assumptions C11_holds_sound.
Print Assumptions C11_spec_ok_b_sound.
Print Assumptions C11_agree_sound.
Print Assumptions C11_sort_is_stable_sort.
Print Assumptions C11_model_meets_spec_full.
Print Assumptions C11_resolve_exact_full.
Print Assumptions C11_reference_k_wf.
Print Assumptions C11_conservation.
Print Assumptions C11_merged_item_order.
Print Assumptions C11_directive_definitions_pass.
Print Assumptions C11_directive_definitions_across_files.
Print Assumptions C11_diagnostic_at_offending_item.
Print Assumptions C11_fails_iff_offending.
Print Assumptions C11_orphan_error_in_document.
Print Assumptions C11_spec_ok_b_complete.
Print Assumptions C11_holds_complete.
Print Assumptions C11_check_accepts_model.
