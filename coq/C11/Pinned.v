(** Pinned statements of the C11 property theorems: compiled on every check, so a theorem cannot
    be weakened silently. *)
From V Require Import Base.Util C11.Model C11.Spec C11.Proofs3 C11.Properties.
From Coq Require Import Permutation.

Check (C11_success_form : forall doc out,
  resolve doc = inr out ->
  ((forall k n, length (defs_of k n doc) <= 1) /\ (forall k, ~ orphan_k k doc)) /\
  out = map IDir (dirdefs doc)
        ++ flat_map (fun k => map (fun x => IDef (merge_of k x)) (sort_by_pos (entries k doc))) kinds_in_output_order).
Print Assumptions C11_success_form.
