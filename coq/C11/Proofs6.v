(** C11 — proofs, part 6: order of the output, one definition per defined name, variant of the
    error, and worked examples (non-vacuity of every guard). *)
From V Require Import Base.Util C11.Model C11.Spec C11.Corr C11.Proofs1 C11.Proofs2 C11.Proofs3 C11.Proofs4 C11.Proofs5.
From Coq Require Import Permutation Sorted.

(** ---- order of the output ---- *)

Lemma pos_leb_iff a b :
  pos_leb a b = true <-> (pline a < pline b \/ (pline a = pline b /\ pcol a <= pcol b))%N.
Proof. unfold pos_leb. rewrite orb_true_iff, andb_true_iff, N.ltb_lt, N.eqb_eq, N.leb_le. tauto. Qed.

Lemma pos_leb_total a b : pos_leb a b = false -> pos_leb b a = true.
Proof.
  intros H. apply pos_leb_iff.
  assert (N : ~ (pline a < pline b \/ (pline a = pline b /\ pcol a <= pcol b))%N)
    by (rewrite <- pos_leb_iff; congruence).
  lia.
Qed.

Definition entry_le (x y : def * list ext) : Prop := pos_leb (d_pos (fst x)) (d_pos (fst y)) = true.

Lemma insert_hdrel y x l : entry_le y x -> HdRel entry_le y l -> HdRel entry_le y (insert_by_pos x l).
Proof.
  intros Hyx H. destruct l as [|z l]; cbn; [now constructor|].
  destruct (pos_leb _ _); constructor; [assumption|]. now inversion H.
Qed.

Lemma insert_sorted x l : Sorted entry_le l -> Sorted entry_le (insert_by_pos x l).
Proof.
  induction l as [|y l IH]; intros H; cbn; [repeat constructor|].
  destruct (pos_leb (d_pos (fst x)) (d_pos (fst y))) eqn:E.
  - constructor; [assumption|]. now constructor.
  - inversion H as [|? ? Hs Hh]; subst. constructor; [now apply IH|].
    apply insert_hdrel; [|assumption]. now apply pos_leb_total.
Qed.

Lemma sort_sorted l : Sorted entry_le (sort_by_pos l).
Proof. induction l as [|x l IH]; cbn; [constructor|now apply insert_sorted]. Qed.

(** the sort is stable: inside every class of equal (line, column) the original order is kept.
    Together with [sort_sorted] and [sort_perm] this is the contract of Rust's sort_by_key. *)
Definition same_linecol (q : pos) (x : def * list ext) : bool :=
  pos_leb q (d_pos (fst x)) && pos_leb (d_pos (fst x)) q.

Lemma pos_leb_trans a b c : pos_leb a b = true -> pos_leb b c = true -> pos_leb a c = true.
Proof. rewrite !pos_leb_iff. lia. Qed.

Lemma insert_stable q x l :
  filter (same_linecol q) (insert_by_pos x l) = filter (same_linecol q) (x :: l).
Proof.
  induction l as [|y l IH]; [reflexivity|]. cbn [insert_by_pos].
  destruct (pos_leb (d_pos (fst x)) (d_pos (fst y))) eqn:E; [reflexivity|].
  cbn [filter] in *. rewrite IH.
  destruct (same_linecol q x) eqn:Ex, (same_linecol q y) eqn:Ey; try reflexivity.
  exfalso. unfold same_linecol in Ex, Ey.
  apply andb_prop in Ex. apply andb_prop in Ey. destruct Ex as [_ Ex]. destruct Ey as [Ey _].
  rewrite (pos_leb_trans _ _ _ Ex Ey) in E. discriminate.
Qed.

Lemma sort_stable q l : filter (same_linecol q) (sort_by_pos l) = filter (same_linecol q) l.
Proof.
  induction l as [|x l IH]; [reflexivity|]. cbn [sort_by_pos fold_right].
  fold (sort_by_pos l). rewrite insert_stable. cbn [filter]. now rewrite IH.
Qed.

Lemma sort_contract l :
  Sorted entry_le (sort_by_pos l) /\ Permutation (sort_by_pos l) l /\
  forall q, filter (same_linecol q) (sort_by_pos l) = filter (same_linecol q) l.
Proof. split; [apply sort_sorted|]. split; [apply sort_perm|]. intros q. apply sort_stable. Qed.

Definition item_pos_le (a b : item) : Prop :=
  match a, b with IDef x, IDef y => pos_leb (d_pos x) (d_pos y) = true | _, _ => False end.

Lemma merge_of_pos k x : d_pos (merge_of k x) = d_pos (fst x).
Proof. destruct x as [d es], k; reflexivity. Qed.

Lemma kind_out_sorted k doc : Sorted item_pos_le (kind_out k doc).
Proof.
  unfold kind_out. pose proof (sort_sorted (entries k doc)) as H.
  induction H as [|x l Hs IH Hh]; cbn; [constructor|]. constructor; [assumption|].
  destruct Hh as [|y l Hxy]; cbn; constructor. cbn. now rewrite !merge_of_pos.
Qed.

Lemma entries_kind k doc x : In x (entries k doc) -> d_kind (fst x) = k /\ In (IDef (fst x)) doc.
Proof.
  unfold entries. intros H. apply in_flat_map in H. destruct H as (n & _ & H).
  unfold entry_of in H. destruct (defs_of k n doc) as [|d r] eqn:E; [destruct H|].
  destruct H as [<-|[]]. cbn.
  assert (Hin : In d (defs_of k n doc)) by (rewrite E; now left).
  apply in_defs_of in Hin. tauto.
Qed.

Lemma kind_out_kind k doc it : In it (kind_out k doc) -> exists d, it = IDef d /\ d_kind d = k.
Proof.
  unfold kind_out. intros H. apply in_map_iff in H. destruct H as (x & <- & Hx).
  apply (Permutation_in _ (sort_perm _)) in Hx. apply entries_kind in Hx.
  exists (merge_of k x). split; [reflexivity|].
  destruct x as [d es]. destruct (merge_components k d es) as [Hk _]. cbn in *. now rewrite Hk.
Qed.

Lemma output_order doc out :
  resolve doc = inr out ->
  out = map IDir (dirdefs doc) ++ flat_map (fun k => kind_out k doc) kinds_in_output_order /\
  forall k, Sorted item_pos_le (kind_out k doc) /\
            forall it, In it (kind_out k doc) -> exists d, it = IDef d /\ d_kind d = k.
Proof.
  intros H. apply resolve_ok_form in H. destruct H as [_ ->]. split; [reflexivity|].
  intros k. split; [apply kind_out_sorted|apply kind_out_kind].
Qed.

(** ---- one definition per defined (kind, name) ---- *)

Lemma all_defs_out dirs defs : all_defs (map IDir dirs ++ map IDef defs) = defs.
Proof.
  rewrite all_defs_app.
  assert (E1 : all_defs (map IDir dirs) = []) by (induction dirs; [reflexivity|assumption]).
  assert (E2 : all_defs (map IDef defs) = defs).
  { induction defs as [|d l IH]; [reflexivity|]. unfold all_defs in *. cbn. now rewrite IH. }
  now rewrite E1, E2.
Qed.

Lemma model_merge_key doc k n d : def_has_key k n (model_merge doc d) = def_has_key k n d.
Proof.
  unfold model_merge, def_has_key.
  destruct (merge_components (d_kind d) d (exts_for d doc)) as (H1 & H2 & _). cbn in H1, H2. now rewrite H1, H2.
Qed.

Lemma one_definition doc out :
  resolve doc = inr out ->
  forall k n, length (defs_of k n out) = length (defs_of k n doc) /\ length (defs_of k n doc) <= 1.
Proof.
  intros H k n. destruct (resolve_exact_model doc out H) as [defs [-> P]].
  apply resolve_ok_form in H. destruct H as [[Hnd _] _]. split; [|apply Hnd].
  unfold defs_of at 1. rewrite all_defs_out.
  rewrite (Permutation_length (filter_perm (def_has_key k n) _ _ P)).
  unfold model_merged. rewrite filter_map_comm by (intros d; apply model_merge_key).
  now rewrite map_length.
Qed.

(** ---- which error: a duplicate always wins over an orphan ---- *)

Lemma error_variant doc e :
  resolve doc = inl e ->
  match e with DupOriginal _ _ _ _ => dup_original doc | NoOriginal _ _ => ~ dup_original doc /\ orphan_extension doc end.
Proof.
  intros H. destruct e as [elem nm p1 p2|elem p].
  - assert (Hx : exists e, resolve doc = inl e) by eauto.
    apply dup_error_located in H. destruct H as (pre & d1 & mid & d2 & post & -> & Hk & Hn & _).
    exists (d_kind d1), (d_name d1).
    replace (pre ++ IDef d1 :: mid ++ IDef d2 :: post) with (pre ++ [IDef d1] ++ mid ++ [IDef d2] ++ post) by reflexivity.
    rewrite !defs_of_app, !app_length, !defs_of_single. unfold same_key.
    rewrite Hk, Hn, kind_eqb_refl, key_eqb_refl. cbn. lia.
  - pose proof (orphan_error_located doc elem p H) as (Hnd & pre & k & post & x & _ & _ & Hfo & _).
    split; [assumption|]. apply orphan_iff. exists k.
    destruct Hfo as (a & n & b & rest & Hks & _ & Hd & _).
    exists n. split; [|assumption]. rewrite Hks. apply in_or_app. right. now left.
Qed.

(** ---- worked examples ---- *)

Definition p (l c f : N) : pos := mkpos l c f false.

(** two files: file 1 = "extend type A @x { g }  scalar S  directive @dd",
    file 0 = "type A implements I @d { f }  extend scalar S @y  extend type A { h }" *)
Definition ex_doc : list item :=
  [ IExt (mkext KObject (Some (s "A")) (p 0 0 1) [10] [] [11]);
    IDef (mkdef KScalar (Some (s "S")) (p 1 0 1) 20 [] [] []);
    IDir 30;
    IDef (mkdef KObject (Some (s "A")) (p 0 0 0) 40 [41] [42] [43]);
    IExt (mkext KScalar (Some (s "S")) (p 1 0 0) [50] [] []);
    IExt (mkext KObject (Some (s "A")) (p 2 0 0) [] [] [60]) ]%N.

Example ex_wf : wf_doc ex_doc = true.
Proof. reflexivity. Qed.

Example ex_resolve :
  resolve ex_doc =
  inr [ IDir 30;
        IDef (mkdef KScalar (Some (s "S")) (p 1 0 1) 20 [50] [] []);
        IDef (mkdef KObject (Some (s "A")) (p 0 0 0) 40 [41; 10] [42] [43; 11; 60]) ]%N.
Proof. vm_compute. reflexivity. Qed.

(** the same items, extensions moved behind their definitions and into other files *)
Definition ex_doc' : list item :=
  [ IDef (mkdef KObject (Some (s "A")) (p 0 0 0) 40 [41] [42] [43]);
    IDir 30;
    IDef (mkdef KScalar (Some (s "S")) (p 1 0 1) 20 [] [] []);
    IExt (mkext KObject (Some (s "A")) (p 7 2 3) [10] [] [11]);
    IExt (mkext KObject (Some (s "A")) (p 9 0 3) [] [] [60]);
    IExt (mkext KScalar (Some (s "S")) (p 0 0 2) [50] [] []) ]%N.

Example ex_position_hyp :
  Permutation (map erase_item ex_doc) (map erase_item ex_doc') /\
  forall k n, map erase_ext (exts_of k n ex_doc) = map erase_ext (exts_of k n ex_doc').
Proof.
  split.
  - cbn [map ex_doc ex_doc'].
    apply Permutation_cons_app with (l1 := [_; _; _]) (l2 := [_; _]). cbn [app].
    apply Permutation_cons_app with (l1 := [_; _]) (l2 := [_; _]). cbn [app].
    apply Permutation_cons_app with (l1 := [_]) (l2 := [_; _]). cbn [app].
    apply perm_skip.
    apply perm_swap.
  - intros k n. unfold exts_of, ext_has_key, same_key. cbn.
    destruct k; cbn; try reflexivity;
      repeat match goal with |- context [key_eqb n ?x] => destruct (key_eqb n x) end; reflexivity.
Qed.

Example ex_position_independent :
  exists out out', resolve ex_doc = inr out /\ resolve ex_doc' = inr out' /\
                   Permutation (map erase_item out) (map erase_item out').
Proof.
  destruct (resolve ex_doc) as [e|out] eqn:E; [vm_compute in E; discriminate|].
  destruct (resolve ex_doc') as [e|out'] eqn:E'; [vm_compute in E'; discriminate|].
  exists out, out'. repeat split.
  destruct ex_position_hyp as [H1 H2].
  now apply (proj2 (position_independent ex_doc ex_doc' H1 H2)).
Qed.

(** a permutation in the sense of the property's quantifier: an extension moved in front of its
    definition, definitions swapped; same-name extensions keep their order *)
Definition ex_doc2 : list item :=
  [ IExt (mkext KScalar (Some (s "S")) (p 1 0 0) [50] [] []);
    IExt (mkext KObject (Some (s "A")) (p 0 0 1) [10] [] [11]);
    IDef (mkdef KObject (Some (s "A")) (p 0 0 0) 40 [41] [42] [43]);
    IExt (mkext KObject (Some (s "A")) (p 2 0 0) [] [] [60]);
    IDir 30;
    IDef (mkdef KScalar (Some (s "S")) (p 1 0 1) 20 [] [] []) ]%N.

Example ex_permutation_hyp :
  Permutation ex_doc ex_doc2 /\ forall k n, exts_of k n ex_doc = exts_of k n ex_doc2.
Proof.
  split.
  - unfold ex_doc, ex_doc2.
    apply Permutation_cons_app with (l1 := [_]) (l2 := [_; _; _; _]). cbn [app].
    apply Permutation_cons_app with (l1 := [_; _; _; _]) (l2 := []). cbn [app].
    apply Permutation_cons_app with (l1 := [_; _; _]) (l2 := []). cbn [app].
    apply Permutation_cons_app with (l1 := [_]) (l2 := [_]). cbn [app].
    apply perm_skip. apply Permutation_refl.
  - intros k n. unfold exts_of, ext_has_key, same_key. cbn.
    destruct k; cbn; try reflexivity;
      repeat match goal with |- context [key_eqb n ?x] => destruct (key_eqb n x) end; reflexivity.
Qed.

(** failure examples: a duplicate and an orphan in one document: the duplicate is reported, at
    the first definition, with the second attached *)
Definition ex_bad : list item :=
  [ IExt (mkext KEnum (Some (s "E")) (p 0 0 0) [1] [] [2]);
    IDef (mkdef KUnion (Some (s "U")) (p 1 0 0) 3 [] [] [4]);
    IDef (mkdef KUnion (Some (s "U")) (p 0 0 1) 5 [] [] [6]) ]%N.

Example ex_bad_result :
  resolve ex_bad = inl (DupOriginal (s "union") (s "U") (p 1 0 0) (p 0 0 1)).
Proof. vm_compute. reflexivity. Qed.

Example ex_orphan_result :
  resolve (firstn 2 ex_bad) = inl (NoOriginal (s "enum") (p 0 0 0)).
Proof. vm_compute. reflexivity. Qed.

(** same name under another kind does not count as a definition ("within a kind") *)
Example ex_other_kind :
  resolve [IDef (mkdef KScalar (Some (s "A")) (p 0 0 0) 1 [] [] []);
           IDef (mkdef KObject (Some (s "A")) (p 1 0 0) 2 [3] [] []);
           IExt (mkext KInterface (Some (s "A")) (p 2 0 0) [4] [] [])]%N
  = inl (NoOriginal (s "interface") (p 2 0 0)).
Proof. vm_compute. reflexivity. Qed.

(** Observation (not a violation of C11, which fixes the verdict and that the diagnostic sits at
    an offending item): WHICH of several faults is reported depends on the order of the items. *)
Example error_identity_depends_on_order :
  exists doc doc',
    Permutation doc doc' /\ (forall k n, exts_of k n doc = exts_of k n doc') /\
    (exists e e', resolve doc = inl e /\ resolve doc' = inl e' /\ e <> e').
Proof.
  exists [IExt (mkext KEnum (Some (s "X")) (p 0 0 0) [] [] []); IExt (mkext KEnum (Some (s "Y")) (p 1 0 0) [] [] [])],
         [IExt (mkext KEnum (Some (s "Y")) (p 1 0 0) [] [] []); IExt (mkext KEnum (Some (s "X")) (p 0 0 0) [] [] [])].
  split; [apply perm_swap|]. split.
  - intros k n. destruct k; try reflexivity.
    destruct (key_eqb_spec n (Some (s "X"))) as [->|H1]; [reflexivity|].
    destruct (key_eqb_spec n (Some (s "Y"))) as [->|H2]; [reflexivity|].
    unfold exts_of, ext_has_key, same_key.
    cbn [all_exts flat_map app filter e_kind e_name kind_eqb andb].
    destruct (key_eqb_spec n (Some (s "X"))); [contradiction|].
    destruct (key_eqb_spec n (Some (s "Y"))); [contradiction|]. reflexivity.
  - eexists. eexists. split; [vm_compute; reflexivity|]. split; [vm_compute; reflexivity|].
    intros H. discriminate H.
Qed.
