(** C08 — the hand-maintained table of panic sites.  Every site the scanner (tools/gen_c08.py ->
    Gen/C08_sites_gen.v) finds in the anchored files must have an entry here, and every entry must still be
    a scanned site ([all_sites_accounted], [no_stale_entries] in Proofs.v, by vm_compute).  An entry that claims a
    theorem carries the theorem itself (statement + proof term), so a claim cannot outlive its proof. *)
From V Require Import Base.Util Gql.Ast Peg.Peg Gen.C07_grammar_gen C07.Builder C07.Model.
From V Require Import C08.Model C08.Spec C08.SiteType C08.ProofsRender C08.ProofsEscape C08.ProofsShape C08.ProofsMerge C08.ProofsVisitor.
From V Require C12.Properties.

Inductive status :=
| Proved (lemma : str) (P : Prop) (pf : P)     (* harmless for every input: theorem of this development *)
| Guarded (lemma : str) (P : Prop) (pf : P)    (* unreachable when the named precondition holds (established by the preceding stage) *)
| Known (class : str) (P : Prop) (pf : P)      (* reachable on the current tree: refuted lemma + known-finding class *)
| NoPanic (why : str)                          (* over-report of the syntactic scanner *)
| Trusted (why : str)                          (* rests on a stated fact about foreign code (pest, std, FileStore) *)
| Tested (why : str).                          (* no theorem yet: exercised by the harness streams on every run, zero hits *)

Definition status_tag (x : status) : N :=
  match x with Proved _ _ _ => 0 | Guarded _ _ _ => 1 | Known _ _ _ => 2 | NoPanic _ => 3 | Trusted _ => 4 | Tested _ => 5 end%N.

Local Notation F_main := (s "crates/cli/src/main.rs").
Local Notation F_err := (s "crates/error/src/lib.rs").
Local Notation F_b := (s "crates/parser/src/parser/builder.rs").
Local Notation F_op := (s "crates/parser/src/parser/builder/operation.rs").
Local Notation F_sel := (s "crates/parser/src/parser/builder/selection_set.rs").
Local Notation F_ty := (s "crates/parser/src/parser/builder/type.rs").
Local Notation F_tsm := (s "crates/parser/src/parser/builder/type_system/mod.rs").
Local Notation F_tsd := (s "crates/parser/src/parser/builder/type_system/type_definition.rs").
Local Notation F_tse := (s "crates/parser/src/parser/builder/type_system/type_extension.rs").
Local Notation F_ut := (s "crates/parser/src/parser/builder/utils.rs").
Local Notation F_val := (s "crates/parser/src/parser/builder/value.rs").
Local Notation F_pm := (s "crates/parser/src/parser/mod.rs").
Local Notation F_js := (s "crates/printer/src/operation_js_printer/printers.rs").
Local Notation F_dm := (s "crates/printer/src/operation_type_printer/deep_merge.rs").
Local Notation F_ssv := (s "crates/printer/src/operation_type_printer/selection_set_visitor.rs").
Local Notation F_tp := (s "crates/printer/src/operation_type_printer/type_printer.rs").
Local Notation F_imp := (s "crates/semantics/src/operation_import_resolver/mod.rs").
Local Notation F_ch := (s "crates/utils/src/chars.rs").

(** shape sites of the builder: C08_builder_shapes_ok (ProofsShape.v) covers the executable-document half;
    the remaining ones are exercised by the malformed streams of C07 and C08 on every run *)
Local Notation shape_op := (Proved (s "C08_builder_shapes_ok / C08_builder_shapes_ok_ts: the parser model never panics") _ (conj builder_shapes_ok builder_shapes_ok_ts)).
Local Notation shape_ts := (Proved (s "C08_builder_shapes_ok_ts") _ builder_shapes_ok_ts).
Local Notation unspread := (Tested (s "expect(Type system error): reachable only on documents check rejects -- since /repo c67e45e every fragment definition, spread or not, is validated; 0 hits over every accepted document of the streams, which keep generating the unspread-fragment faults")).
Local Notation checked := (Tested (s "bookkeeping of deep_merge (the field found is the one just inserted; merged fields have one name): 0 hits over every accepted document of the streams")).

Definition table : list (site * status) := [
  (mk_site F_main (s "run_cli") (s "unwrap") (s "") 1, Trusted (s "SimpleLogger::init fails only when a logger is already installed; run_cli runs once per process"));
  (mk_site F_main (s "run_cli_impl") (s "unwrap") (s "") 4, Trusted (s "FileStore::get_file(i) for the index add_file returned on the line before"));
  (mk_site F_err (s "print_positioned_error") (s "index") (s "files") 2, Guarded (s "render_total (guard: the file index is in the store)") _ render_total);
  (mk_site F_err (s "print_positioned_error") (s "unwrap") (s "") 1, NoPanic (s "write! into a String cannot fail"));
  (mk_site F_b (s "build_operation_document") (s "panic") (s "Empty document") 1, shape_op);
  (mk_site F_b (s "build_operation_document") (s "panic") (s "Unexpected Rule {:?}") 1, shape_op);
  (mk_site F_b (s "build_type_system_or_extension_document") (s "panic") (s "Empty document") 1, shape_ts);
  (mk_site F_b (s "build_type_system_or_extension_document") (s "panic") (s "Unexpected Rule {:?}") 1, shape_ts);
  (mk_site F_op (s "build_executable_definition") (s "panic") (s "Unexpected {:?} as a child of ExecutableDefinition") 1, shape_op);
  (mk_site F_op (s "str_to_operation_type") (s "panic") (s "Unknown operation type {}") 1, shape_op);
  (mk_site F_sel (s "build_selection_set") (s "panic") (s "Unexpected rule {:?} as a child of Selection") 1, shape_op);
  (mk_site F_ty (s "build_type_of") (s "panic") (s "Unexpected rule as child of NonNullType: {:?}") 1, shape_op);
  (mk_site F_ty (s "build_type_of") (s "panic") (s "Unexpected rule as child of Type: {:?}") 1, shape_op);
  (mk_site F_tsm (s "build_description") (s "panic") (s "Unexpected child of Description: {:?}") 1, shape_ts);
  (mk_site F_tsm (s "build_type_system_definition_or_extension") (s "panic") (s "Unexpected child of TypeSystemDefinition: {:?}") 1, shape_ts);
  (mk_site F_tsm (s "build_type_system_definition_or_extension") (s "panic") (s "Unexpected child of TypeSystemDefinitionOrExtension: {:?}") 1, shape_ts);
  (mk_site F_tsm (s "build_type_system_definition_or_extension") (s "panic") (s "Unexpected child of TypeSystemExtension: {:?}") 1, shape_ts);
  (mk_site F_tsd (s "build_implements_interfaces") (s "panic") (s "No child of ImplementsInterfaces, expected KEYWORD_implement") 1, shape_ts);
  (mk_site F_tsd (s "build_implements_interfaces") (s "panic") (s "Unexpected child {:?} of ImplementsInterfaces, expected KEYW") 1, shape_ts);
  (mk_site F_tsd (s "build_implements_interfaces") (s "panic") (s "Unexpected child {:?} of ImplementsInterfaces, expected Name") 1, shape_ts);
  (mk_site F_tsd (s "build_type_definition") (s "panic") (s "Unexpected child of TypeDefinition: {:?}") 1, shape_ts);
  (mk_site F_tse (s "build_type_extension") (s "panic") (s "Unexpected child of TypeExtension: {:?}") 1, shape_ts);
  (mk_site F_ut (s "all_children") (s "panic") (s "Expected a child of {:?}, actual {:?}") 1, shape_op);
  (mk_site F_ut (s "macro:parts") (s "unwrap") (s "") 1, NoPanic (s "pairs.next().unwrap() directly after pairs.peek() returned Some"));
  (mk_site F_ut (s "macro:parts_mod") (s "panic") (s "Expected {:?}, actual nothing") 1, shape_op);
  (mk_site F_ut (s "macro:parts_mod") (s "panic") (s "Expected {:?}, actual {:?}") 1, shape_op);
  (mk_site F_ut (s "only_child") (s "panic") (s "Expected 1 child for {:?}, actual 2 or more") 1, shape_op);
  (mk_site F_ut (s "only_child") (s "panic") (s "Expected 1 child of {:?}, actual 0") 1, shape_op);
  (mk_site F_ut (s "to_pos") (s "sub") (s "column") 1, Trusted (s "pest's Pair::line_col is 1-based (LineIndex): column - 1 cannot underflow"));
  (mk_site F_ut (s "to_pos") (s "sub") (s "line") 1, Trusted (s "pest's Pair::line_col is 1-based (LineIndex): line - 1 cannot underflow"));
  (mk_site F_val (s "build_string_value") (s "panic") (s "Invalid character code '{}'") 1, Guarded (s "the string was decoded by validate_string_values (parser/mod.rs) with the same decode_string_characters before building: C08_builder_shapes_ok") _ builder_shapes_ok);
  (mk_site F_val (s "build_string_value") (s "panic") (s "Unexpected rule as a child of StringValue: {:?}") 1, shape_op);
  (mk_site F_val (s "build_string_value") (s "split_at") (s "") 2, shape_op);
  (mk_site F_val (s "build_string_value") (s "sub") (s "") 1, shape_op);
  (mk_site F_val (s "build_value") (s "panic") (s "Unexpected rule {:?} as a child of BooleanValue") 1, shape_op);
  (mk_site F_val (s "build_value") (s "panic") (s "Unexpected rule {:?} as a child of Value") 1, shape_op);
  (mk_site F_val (s "decode_string_characters") (s "panic") (s "Unexpected rule {:?}") 1, shape_op);
  (mk_site F_val (s "decode_string_characters") (s "panic") (s "Unknown escape sequence '{}'") 1, shape_op);
  (mk_site F_val (s "decode_string_characters") (s "split_at") (s "") 1, shape_op);
  (mk_site F_val (s "decode_string_characters") (s "sub") (s "leading") 1, Proved (s "surrogate_sub_ok: taken under (0xd800..=0xdbff).contains") _ surrogate_sub_ok);
  (mk_site F_val (s "decode_string_characters") (s "sub") (s "trailing") 1, Proved (s "surrogate_sub_ok: taken under (0xdc00..=0xdfff).contains") _ surrogate_sub_ok);
  (mk_site F_val (s "decode_string_characters") (s "unwrap") (s "") 1, shape_op);
  (mk_site F_pm (s "from") (s "sub") (s "column") 2, Trusted (s "pest's error line/column are 1-based"));
  (mk_site F_pm (s "from") (s "sub") (s "line") 2, Trusted (s "pest's error line/column are 1-based"));
  (mk_site F_js (s "print_fragment_runtime") (s "expect") (s "fragment not found") 1, Guarded (s "C12_fragment_runtime_exact (guard: every fragment reachable from the fragment is defined -- check validates every fragment definition since c67e45e; the loader tests it itself since 539df4b)") _ C12.Properties.C12_fragment_runtime_exact);
  (mk_site F_js (s "print_fragment_runtime") (s "index") (s "this_document") 1, NoPanic (s "full-range slice &v[..]"));
  (mk_site F_js (s "print_operation_runtime") (s "expect") (s "fragment not found") 1, Guarded (s "C12_operation_runtime_exact (guard: every fragment reachable from the operation is defined -- a passing check guarantees it; the loader tests it itself since 539df4b)") _ C12.Properties.C12_operation_runtime_exact);
  (mk_site F_js (s "print_operation_runtime") (s "index") (s "this_document") 1, NoPanic (s "full-range slice &v[..]"));
  (mk_site F_dm (s "deep_merge_selection_tree") (s "expect") (s "field was just inserted") 1, checked);
  (mk_site F_dm (s "merge_fields") (s "assert") (s "Cannot merge fields of different names") 1, checked);
  (mk_site F_dm (s "merge_fields") (s "panic") (s "Cannot merge fields of different types\nleft: {:?}\nright: {") 1, Known (s "conflicting-response-key") _ merge_unchecked_refuted);
  (mk_site F_dm (s "merge_selection_trees") (s "panic") (s "Cannot merge selection trees of different types") 1, Known (s "conflicting-response-key") _ merge_unchecked_refuted);
  (mk_site F_ssv (s "visit_fields_in_selection_set_impl") (s "expect") (s "Type system error") 1, Guarded (s "C08_visitor_fragments_defined (guard: the document is accepted by check over a well-formed schema; C03_accepted_fields_and_fragments_defined + C01.Model.visit_vars)") _ visitor_fragments_defined);
  (mk_site F_tp (s "check_fragment_condition") (s "expect") (s "Type system error") 1, unspread);
  (mk_site F_tp (s "check_skip_directive") (s "expect") (s "Type system error") 2, unspread);
  (mk_site F_tp (s "generate_branching_conditions") (s "expect") (s "Type system error") 2, unspread);
  (mk_site F_tp (s "generate_branching_conditions") (s "panic") (s "Type system error") 1, unspread);
  (mk_site F_tp (s "get_fields_for_selection_set") (s "expect") (s "Type system error") 4, unspread);
  (mk_site F_ch (s "skip_chars") (s "split_at") (s "") 1, Proved (s "skip_chars_total") _ skip_chars_total)
].
