(** C08 — import resolution is linear in the number of files: a cost-instrumented copy of C13's model of
    [resolve_operation_imports_rec] (the same recursion, additionally counting how many files are *entered*,
    i.e. how often the resolver is asked and the function recurses).  Erasing the counter gives C13's functions
    back ([imports_rec_c_erase]); the counter never exceeds the number of files that were not yet visited
    ([imports_cost]), because [visited] only grows and every entered file is new.  Hence at most [length st]
    file resolutions for any import graph -- sharing, diamonds and cycles included ([imports_linear]).  The
    harness observes the same quantity on the implementation (calls of [OperationResolver::resolve]). *)
From V Require Import Base.Util C20.Model C13.Model C13.Spec C13.Proofs.

Definition cres := ((ierr + rstate) * nat)%type.

Section CLoop.
  Variable recur : key -> list import -> list key -> list def -> cres.
  Variable st : store.
  Variable doc : key.

  Fixpoint import_loop_c (imps : list import) (vis : list key) (acc : list def) : cres :=
    match imps with
    | [] => (inr (vis, acc), O)
    | i :: rest =>
        let p := import_key doc i in
        if mem_key p vis then import_loop_c rest vis acc
        else match lookup st p with
             | None => (inl (FileNotFound (ipath i) (ipos i)), O)
             | Some f =>
                 match recur p (fimports f) (p :: vis) acc with
                 | (inl e, c) => (inl e, S c)
                 | (inr (vis', acc'), c) =>
                     match select f i with
                     | inl e => (inl e, S c)
                     | inr sel => let rc := import_loop_c rest vis' (acc' ++ sel) in (fst rc, (S c + snd rc)%nat)
                     end
                 end
             end
    end.
End CLoop.

Fixpoint imports_rec_c (fuel : nat) (st : store) (doc : key) (imps : list import)
         (vis : list key) (acc : list def) : cres :=
  match fuel with
  | O => (inl OutOfFuel, O)
  | S n => import_loop_c (imports_rec_c n st) st doc imps vis acc
  end.

(** the instrumented functions compute what C13's model computes *)
Lemma import_loop_c_erase recur recur_c st doc :
  (forall d i v a, fst (recur_c d i v a) = recur d i v a) ->
  forall imps vis acc, fst (import_loop_c recur_c st doc imps vis acc) = import_loop recur st doc imps vis acc.
Proof.
  intros Hr. induction imps as [|i rest IH]; intros vis acc; cbn [import_loop_c import_loop]; [reflexivity|].
  destruct (mem_key (import_key doc i) vis); [apply IH|].
  destruct (lookup st (import_key doc i)) as [f|]; [|reflexivity].
  rewrite <- Hr. destruct (recur_c (import_key doc i) (fimports f) (import_key doc i :: vis) acc) as [[e|[v1 a1]] c]; cbn [fst]; [reflexivity|].
  destruct (select f i) as [e|sel]; [reflexivity|]. cbn [fst]. apply IH.
Qed.

Lemma imports_rec_c_erase : forall fuel st doc imps vis acc,
  fst (imports_rec_c fuel st doc imps vis acc) = imports_rec fuel st doc imps vis acc.
Proof.
  induction fuel as [|n IH]; intros st doc imps vis acc; [reflexivity|].
  cbn [imports_rec_c imports_rec]. apply import_loop_c_erase. intros; apply IH.
Qed.

(** the cost invariant: entered files + files still unvisited afterwards <= files unvisited before *)
Definition cost_ok (st : store) (vis : list key) (r : cres) : Prop :=
  match r with
  | (inr (vis', _), c) => incl vis vis' /\ (c + unvisited st vis' <= unvisited st vis)%nat
  | (inl _, c) => (c <= unvisited st vis)%nat
  end.

Lemma import_loop_c_cost recur_c st doc :
  (forall d i v a, cost_ok st v (recur_c d i v a)) ->
  forall imps vis acc, cost_ok st vis (import_loop_c recur_c st doc imps vis acc).
Proof.
  intros Hr. induction imps as [|i rest IH]; intros vis acc; cbn [import_loop_c].
  - cbn [cost_ok]. split; [apply incl_refl|lia].
  - destruct (mem_key (import_key doc i) vis) eqn:Hm; [apply IH|].
    destruct (lookup st (import_key doc i)) as [f|] eqn:Hl; [|cbn [cost_ok]; lia].
    assert (Hadd : (unvisited st (import_key doc i :: vis) < unvisited st vis)%nat)
      by (eapply unvisited_add; [exact Hl|apply mem_key_false; exact Hm]).
    pose proof (Hr (import_key doc i) (fimports f) (import_key doc i :: vis) acc) as H1.
    destruct (recur_c (import_key doc i) (fimports f) (import_key doc i :: vis) acc) as [[e|[v1 a1]] c]; cbn [cost_ok] in H1.
    + cbn [cost_ok]. lia.
    + destruct H1 as [Hi1 Hc1].
      destruct (select f i) as [e|sel]; [cbn [cost_ok]; lia|].
      pose proof (IH v1 (a1 ++ sel)) as H2.
      destruct (import_loop_c recur_c st doc rest v1 (a1 ++ sel)) as [[e|[v2 a2]] c2]; cbn [cost_ok fst snd] in *.
      * lia.
      * destruct H2 as [Hi2 Hc2]. split; [|lia].
        intros k Hk. apply Hi2. apply Hi1. right. exact Hk.
Qed.

Lemma imports_rec_c_cost : forall fuel st doc imps vis acc, cost_ok st vis (imports_rec_c fuel st doc imps vis acc).
Proof.
  induction fuel as [|n IH]; intros st doc imps vis acc; [cbn; lia|].
  cbn [imports_rec_c]. apply import_loop_c_cost. intros; apply IH.
Qed.

(** [resolve_operation_imports] with its cost *)
Definition resolve_imports_c (st : store) (root_path : key) (root : file) : (ierr + list def) * nat :=
  let rc := imports_rec_c (S (length st)) st root_path (fimports root) [] (fdefs root) in
  (match fst rc with inl e => inl e | inr (_, defs) => inr defs end, snd rc).

Theorem imports_linear : forall st root_path root,
  fst (resolve_imports_c st root_path root) = resolve_imports st root_path root /\
  (snd (resolve_imports_c st root_path root) <= length st)%nat.
Proof.
  intros st root_path root. unfold resolve_imports_c, resolve_imports. cbn [fst snd]. split.
  - rewrite imports_rec_c_erase. reflexivity.
  - pose proof (imports_rec_c_cost (S (length st)) st root_path (fimports root) [] (fdefs root)) as H.
    destruct (imports_rec_c (S (length st)) st root_path (fimports root) [] (fdefs root)) as [[e|[v a]] c];
      cbn [cost_ok snd] in *; rewrite unvisited_nil in H; lia.
Qed.

(** non-vacuity: a diamond (main -> y -> x, main -> x): three files in the store, two entered *)
Example imports_linear_example :
  snd (resolve_imports_c st_diamond k_main main_diamond) = 2%nat /\ length st_diamond = 3%nat.
Proof. split; vm_compute; reflexivity. Qed.
