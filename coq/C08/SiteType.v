(** C08 — the type of scanned panic sites (used by the generated file Gen/C08_sites_gen.v). *)
From V Require Import Base.Util.

Record site := mk_site {
  s_file : str;     (* path below the repository *)
  s_fn : str;       (* enclosing function, or macro:<name> *)
  s_kind : str;     (* panic / expect / unwrap / assert / index / split_at / sub *)
  s_detail : str;   (* message of panic!/expect/assert, receiver of an index, left operand of a subtraction *)
  s_count : N       (* syntactic occurrences of this (file, fn, kind, detail) *)
}.

Definition site_eqb (a b : site) : bool :=
  str_eqb (s_file a) (s_file b) && str_eqb (s_fn a) (s_fn b) && str_eqb (s_kind a) (s_kind b)
  && str_eqb (s_detail a) (s_detail b) && N.eqb (s_count a) (s_count b).
