(** C08 — property theorems only.  Each is closed by [exact] of a lemma and followed by [Print Assumptions].
    Stage by stage: diagnostic rendering (own model), escapes in string values (C07's builder model), the
    panic-site table, and the corollaries for the stages other properties model (C11 schema extensions, C13
    imports, C12 runtime documents / loader, C10 schema declarations). *)
From V Require Import Base.Util Gql.Ast Peg.Peg Gen.C07_grammar_gen C07.Builder C07.Model.
From V Require Import C08.Model C08.Spec C08.SiteType Gen.C08_sites_gen C08.Sites C08.ProofsRender C08.ProofsEscape C08.Shape C08.ProofsShape C08.ProofsMerge C08.ImportsCost C08.ProofsVisitor C08.ProofsCount C08.Proofs.
From V Require C07.Fuel C11.Properties C12.Properties C13.Properties.
Local Open Scope N_scope.

(** *** diagnostic rendering *)
Theorem C08_render_total : forall files pos msg addl,
  render_guard files pos addl = true ->
  exists out, print_positioned_error files pos msg addl = ROk out.
Proof. exact render_total. Qed.
Print Assumptions C08_render_total.

Theorem C08_skip_chars_total : forall line k, skip_chars line k = ROk (skipn (N.to_nat k) line).
Proof. exact skip_chars_total. Qed.
Print Assumptions C08_skip_chars_total.

Theorem C08_render_index_refuted :
  print_positioned_error [] (Some (mkRP 0 0 0 false)) (s "m") [] = RPanic P_index.
Proof. exact render_index_refuted. Qed.
Print Assumptions C08_render_index_refuted.

(** *** unicode escapes in string values: the former panic witnesses are parse errors, characters parse *)
Theorem C08_escape_errors_are_diagnostics :
  parse_class false w_lone_surrogate = 1 /\ parse_class false w_trailing_first = 1 /\
  parse_class false w_above_max = 1 /\ parse_class false w_overflow = 1 /\ parse_class true w_description = 1.
Proof. exact escape_errors_are_diagnostics. Qed.
Print Assumptions C08_escape_errors_are_diagnostics.

Theorem C08_escape_characters_parse :
  parse_class false w_long_but_small = 0 /\ parse_class false w_surrogate_pair = 0.
Proof. exact escape_characters_parse. Qed.
Print Assumptions C08_escape_characters_parse.

(** *** the parser on EVERY text: pest on the translated grammar, the validation pass and the builder reach
    none of their panics (parts!/only_child/all_children/"Unexpected rule"/split_at/operation type/escape
    sequence/"Invalid character code"/"Empty document") -- the result is a document or a ParseError *)
Theorem C08_builder_shapes_ok : forall inp file k, parse_operation_document file inp <> PPanic k.
Proof. exact builder_shapes_ok. Qed.
Print Assumptions C08_builder_shapes_ok.

Theorem C08_builder_shapes_ok_ts : forall inp file k, parse_type_system_document file inp <> PPanic k.
Proof. exact builder_shapes_ok_ts. Qed.
Print Assumptions C08_builder_shapes_ok_ts.

(** with C07's fuel-sufficiency theorem: parsing terminates with Ok or Err *)
Theorem C08_parse_total : forall file inp,
  ((exists d, parse_operation_document file inp = POk d) \/ parse_operation_document file inp = PErr) /\
  ((exists d, parse_type_system_document file inp = POk d) \/ parse_type_system_document file inp = PErr).
Proof.
  intros file inp. split.
  - pose proof (C07.Fuel.parse_operation_document_never_fuel file inp) as Hf.
    pose proof (builder_shapes_ok inp file) as Hs.
    destruct (parse_operation_document file inp) as [d| |k|]; [left; eexists; reflexivity|right; reflexivity| |congruence].
    exfalso. exact (Hs k eq_refl).
  - pose proof (C07.Fuel.parse_type_system_document_never_fuel file inp) as Hf.
    pose proof (builder_shapes_ok_ts inp file) as Hs.
    destruct (parse_type_system_document file inp) as [d| |k|]; [left; eexists; reflexivity|right; reflexivity| |congruence].
    exfalso. exact (Hs k eq_refl).
Qed.
Print Assumptions C08_parse_total.

(** what a successful run of the PEG interpreter can produce (any grammar): the generic lemma behind it *)
Theorem C08_parse_forest_generated : forall (R : Type) (g : grammar R) inp fuel start ps,
  parse_with g fuel start inp = Ok ps -> exists t, gent g inp (fun _ => True) true ANon (Call start) t ps.
Proof. intros R g inp fuel start ps. apply parse_gent. Qed.
Print Assumptions C08_parse_forest_generated.

(** *** panic sites *)
Theorem C08_all_sites_accounted : forallb accounted scanned_sites = true.
Proof. exact all_sites_accounted. Qed.
Print Assumptions C08_all_sites_accounted.

Theorem C08_no_stale_entries : forallb still_scanned table = true.
Proof. exact no_stale_entries. Qed.
Print Assumptions C08_no_stale_entries.

(** *** stages modelled by other properties: the result types of their models *)

(** schema extension resolution (C11's model has no panic outcome; its tie is C11's correspondence) *)
Theorem C08_resolve_total : forall doc,
  (exists e, C11.Model.resolve doc = inl e) \/ (exists out, C11.Model.resolve doc = inr out).
Proof. intros doc. destruct (C11.Model.resolve doc) as [e|out]; [left|right]; eexists; reflexivity. Qed.
Print Assumptions C08_resolve_total.

(** import resolution: terminates; panics only through the named guard; the guard is necessary *)
Theorem C08_imports_terminate : forall st root_path root,
  C13.Model.resolve_imports st root_path root <> inl C13.Model.OutOfFuel.
Proof. exact C13.Properties.C13_imports_terminate. Qed.
Print Assumptions C08_imports_terminate.

(** since /repo 3dc6a57 the resolver has no panic site: its model's error type has no panic value *)
Theorem C08_imports_total : forall st root_path root,
  (exists ds, C13.Model.resolve_imports st root_path root = inr ds) \/
  (exists file p, C13.Model.resolve_imports st root_path root = inl (C13.Model.FileNotFound file p)) \/
  (exists n file p, C13.Model.resolve_imports st root_path root = inl (C13.Model.FragmentNotFound n file p)).
Proof.
  intros st root_path root. pose proof (C13.Properties.C13_imports_terminate st root_path root) as Ht.
  destruct (C13.Model.resolve_imports st root_path root) as [[f p|n f p|]|ds].
  - right; left; eauto.
  - right; right; eauto.
  - congruence.
  - left; eauto.
Qed.
Print Assumptions C08_imports_total.

(** runtime documents (print_js): total when every reachable fragment is defined -- check validates every
    fragment definition (c67e45e) and the loader tests the condition itself (539df4b) *)
Theorem C08_emit_total_partial : forall defs o,
  (forall n, C12.Spec.reach (C12.Model.get_frag defs) (op_sel o) n -> C12.Model.get_frag defs n <> None) ->
  exists ds, C12.Model.operation_runtime defs o = C12.Model.Ok ds.
Proof.
  intros defs o H. destruct (C12.Properties.C12_operation_runtime_exact defs o H) as [names [fs [E _]]].
  eexists; exact E.
Qed.
Print Assumptions C08_emit_total_partial.

(** check does not implement Field Selection Merging: it accepts two selections with one response key and
    different shapes, on which the type printer's deep merge panics (parser, checker and printer models
    evaluated on the witness texts) *)
Theorem C08_merge_unchecked_refuted :
  check_then_tree w_merge_schema w_merge_fields = Some ([], Some (C01.Model.Err C01.Model.EMergeFields)) /\
  check_then_tree w_merge_schema w_merge_trees = Some ([], Some (C01.Model.Err C01.Model.EMergeTrees)).
Proof. exact merge_unchecked_refuted. Qed.
Print Assumptions C08_merge_unchecked_refuted.

(** import resolution is linear: in the cost-instrumented copy of C13's model (same results: first conjunct) the
    number of files entered -- calls of the resolver / recursive calls -- is at most the number of files, for
    every import graph (shared files, diamonds, cycles).  The harness checks the same count on the implementation. *)
Theorem C08_imports_linear : forall st root_path root,
  fst (resolve_imports_c st root_path root) = C13.Model.resolve_imports st root_path root /\
  (snd (resolve_imports_c st root_path root) <= length st)%nat.
Proof. exact imports_linear. Qed.
Print Assumptions C08_imports_linear.

(** the type printer after a passing check, first family of lookups: selection_set_visitor.rs
    [fragment_definitions.get(name).expect("Type system error")] (C01.Model.visit_vars) never fails on a document
    C03's checker model accepts over a well-formed schema -- every definition, spread or not, every nested
    selection set (the guard [spreads_ok] is executable and passes to sub-selections: spreads_ok_sub) *)
Theorem C08_visitor_fragments_defined : forall S D,
  C03.Spec.schema_wf S = true -> C03.Model.check_operation_document S D = [] ->
  frags_closed (C01.Model.frag_defs D) = true /\
  (forall o, In o (C03.Spec.doc_ops D) -> spreads_ok (C01.Model.frag_defs D) (selset_sels (op_sel o)) = true) /\
  (forall sels, spreads_ok (C01.Model.frag_defs D) sels = true ->
     forall fuel st, C01.Model.visit_vars fuel (C01.Model.frag_defs D) sels st <> C01.Model.Err C01.Model.ETypeSystem).
Proof. exact visitor_fragments_defined. Qed.
Print Assumptions C08_visitor_fragments_defined.

(** the single-root-field rule of subscriptions (count_selection_set_fields.rs collect_response_keys) terminates on
    every document, fragment cycles included: on a copy of C03's model that reports fuel exhaustion (same result:
    second conjunct) the fuel check_operation_document uses is never exhausted -- the path of followed fragments
    grows with every spread, so the recursion depth is at most (fragments + 1) x (deepest definition) *)
Theorem C08_subscription_count_terminates : forall D o,
  In (DOp o) (od_defs D) ->
  snd (crk_c (C03.Model.doc_fuel D) (C03.Model.doc_frags D) [] (op_sel o) []) = false /\
  fst (crk_c (C03.Model.doc_fuel D) (C03.Model.doc_frags D) [] (op_sel o) []) =
  C03.Model.collect_response_keys (C03.Model.doc_fuel D) (C03.Model.doc_frags D) [] (op_sel o) [].
Proof. exact subscription_count_terminates. Qed.
Print Assumptions C08_subscription_count_terminates.
