(** C08 — count_selection_set_fields.rs collect_response_keys (the single-root-field rule of subscriptions) follows
    fragment spreads with a list of the fragments on the current path; it terminates because that list grows with
    every spread that is followed.  C03's model of it takes fuel and silently stops when the fuel is gone, so
    "terminates" reads: with the fuel the checker model uses ([doc_fuel]) the fuel is never exhausted.  Stated on
    a copy that additionally reports exhaustion; erasing the flag gives C03's function back. *)
From V Require Import Base.Util Gql.Ast.
From V Require C03.Model.
Import C03.Model.

Fixpoint crk_c (fuel : nat) (fm : list fragdef) (seen : list str) (ss : selset) (keys : list str) : list str * bool :=
  match fuel with
  | O => (keys, true)
  | Datatypes.S f =>
      fold_left (fun (acc : list str * bool) sel =>
        match sel with
        | SField alias name _ _ _ =>
            let k := match alias with Some a => iname a | None => iname name end in
            (if mem_str k (fst acc) then fst acc else fst acc ++ [k], snd acc)
        | SSpread _ name _ =>
            if mem_str (iname name) seen then acc
            else match frag_get fm (iname name) with
                 | None => acc
                 | Some fr => let r := crk_c f fm (seen ++ [iname name]) (fr_sel fr) (fst acc) in (fst r, snd acc || snd r)
                 end
        | SInline _ _ _ sub => let r := crk_c f fm seen sub (fst acc) in (fst r, snd acc || snd r)
        end) (selset_sels ss) (keys, false)
  end.

Lemma crk_c_erase : forall fuel fm seen ss keys,
  fst (crk_c fuel fm seen ss keys) = collect_response_keys fuel fm seen ss keys.
Proof.
  induction fuel as [|f IH]; intros fm seen ss keys; [reflexivity|].
  cbn [crk_c collect_response_keys].
  assert (H : forall l (acc : list str * bool) ks, fst acc = ks ->
    fst (fold_left (fun (acc : list str * bool) sel =>
        match sel with
        | SField alias name _ _ _ =>
            let k := match alias with Some a => iname a | None => iname name end in
            (if mem_str k (fst acc) then fst acc else fst acc ++ [k], snd acc)
        | SSpread _ name _ =>
            if mem_str (iname name) seen then acc
            else match frag_get fm (iname name) with
                 | None => acc
                 | Some fr => let r := crk_c f fm (seen ++ [iname name]) (fr_sel fr) (fst acc) in (fst r, snd acc || snd r)
                 end
        | SInline _ _ _ sub => let r := crk_c f fm seen sub (fst acc) in (fst r, snd acc || snd r)
        end) l acc) =
    fold_left (fun keys sel =>
        match sel with
        | SField alias name _ _ _ =>
            let k := match alias with Some a => iname a | None => iname name end in
            if mem_str k keys then keys else keys ++ [k]
        | SSpread _ name _ =>
            if mem_str (iname name) seen then keys
            else match frag_get fm (iname name) with
                 | None => keys
                 | Some fr => collect_response_keys f fm (seen ++ [iname name]) (fr_sel fr) keys
                 end
        | SInline _ _ _ sub => collect_response_keys f fm seen sub keys
        end) l ks).
  { induction l as [|x l IHl]; intros acc ks E; cbn [fold_left]; [exact E|]. apply IHl.
    destruct x as [a n ar d sub|p n d|p c d sub]; cbn [fst snd]; rewrite E.
    - reflexivity.
    - destruct (mem_str (iname n) seen); [exact E|]. destruct (frag_get fm (iname n)); [|exact E]. cbn [fst]. apply IH.
    - apply IH. }
  apply H. reflexivity.
Qed.

(** fragments whose name is not yet on the path *)
Definition unseen (fm : list fragdef) (seen : list str) : nat :=
  length (filter (fun f => negb (mem_str (iname (fr_name f)) seen)) fm).

Lemma filter_length_mono {A} (p q : A -> bool) l :
  (forall x, In x l -> p x = true -> q x = true) -> length (filter p l) <= length (filter q l).
Proof.
  induction l as [|a l IH]; intros H; cbn; [lia|].
  assert (IH' : length (filter p l) <= length (filter q l)) by (apply IH; intros; apply H; cbn; auto).
  destruct (p a) eqn:Hp.
  - rewrite (H a (or_introl eq_refl) Hp). cbn; lia.
  - destruct (q a); cbn; lia.
Qed.

Lemma filter_length_strict {A} (p q : A -> bool) l x :
  (forall x, In x l -> p x = true -> q x = true) -> In x l -> p x = false -> q x = true ->
  length (filter p l) < length (filter q l).
Proof.
  induction l as [|a l IH]; intros H Hin Hp Hq; cbn; [contradiction|].
  assert (Hmono : length (filter p l) <= length (filter q l))
    by (apply filter_length_mono; intros; apply H; cbn; auto).
  destruct Hin as [->|Hin].
  - rewrite Hp, Hq. cbn; lia.
  - assert (IH' : length (filter p l) < length (filter q l)) by (apply IH; auto; intros; apply H; cbn; auto).
    destruct (p a) eqn:Hpa.
    + rewrite (H a (or_introl eq_refl) Hpa). cbn; lia.
    + destruct (q a); cbn; lia.
Qed.

Lemma mem_str_app x a b : mem_str x (a ++ b) = mem_str x a || mem_str x b.
Proof. unfold mem_str. apply existsb_app. Qed.

Lemma frag_get_in fm n fr : frag_get fm n = Some fr -> In fr fm /\ str_eqb (iname (fr_name fr)) n = true.
Proof. unfold frag_get. intros H. apply find_some in H. destruct H as [Hi Hp]. split; [apply in_rev; exact Hi|exact Hp]. Qed.

Lemma unseen_spread fm seen n fr :
  frag_get fm n = Some fr -> mem_str n seen = false -> unseen fm (seen ++ [n]) < unseen fm seen.
Proof.
  intros Hg Hs. destruct (frag_get_in _ _ _ Hg) as [Hin Hn].
  destruct (str_eqb_spec (iname (fr_name fr)) n) as [E|]; [|discriminate].
  unfold unseen. apply (filter_length_strict _ _ fm fr).
  - intros x _ H. apply negb_true_iff in H. rewrite mem_str_app in H. apply orb_false_iff in H. destruct H as [H _].
    apply negb_true_iff. exact H.
  - exact Hin.
  - apply negb_false_iff. rewrite mem_str_app. apply orb_true_iff. right. rewrite E. cbn. rewrite str_eqb_refl. reflexivity.
  - apply negb_true_iff. rewrite E. exact Hs.
Qed.

Lemma sel_depth_in x p l : In x l -> sel_depth x < selset_depth (SelSet p l).
Proof.
  cbn [selset_depth]. induction l as [|y l IH]; intros H; [contradiction|].
  destruct H as [->|H]; [lia|]. specialize (IH H). lia.
Qed.

(** the fuel is not exhausted when it covers (unseen fragments) x (largest fragment depth) + own depth *)
Lemma crk_c_enough fm M : (forall fr, In fr fm -> selset_depth (fr_sel fr) <= M) ->
  forall fuel seen ss keys, unseen fm seen * M + selset_depth ss <= fuel ->
  snd (crk_c fuel fm seen ss keys) = false.
Proof.
  intros HM. induction fuel as [|f IH]; intros seen ss keys Hf.
  - destruct ss as [p l]. cbn [selset_depth] in Hf. lia.
  - cbn [crk_c]. destruct ss as [p l]. cbn [selset_sels].
    assert (Hd : forall x, In x l -> sel_depth x < selset_depth (SelSet p l)) by (intros; apply sel_depth_in; assumption).
    remember (selset_depth (SelSet p l)) as dep eqn:Edep. clear Edep.
    assert (H : forall l0 (acc : list str * bool), (forall x, In x l0 -> sel_depth x < dep) -> snd acc = false ->
      snd (fold_left (fun (acc : list str * bool) sel =>
        match sel with
        | SField alias name _ _ _ =>
            let k := match alias with Some a => iname a | None => iname name end in
            (if mem_str k (fst acc) then fst acc else fst acc ++ [k], snd acc)
        | SSpread _ name _ =>
            if mem_str (iname name) seen then acc
            else match frag_get fm (iname name) with
                 | None => acc
                 | Some fr => let r := crk_c f fm (seen ++ [iname name]) (fr_sel fr) (fst acc) in (fst r, snd acc || snd r)
                 end
        | SInline _ _ _ sub => let r := crk_c f fm seen sub (fst acc) in (fst r, snd acc || snd r)
        end) l0 acc) = false).
    { induction l0 as [|x l0 IHl]; intros acc Hx Ha; cbn [fold_left]; [exact Ha|].
      apply IHl; [intros; apply Hx; right; assumption|].
      pose proof (Hx x (or_introl eq_refl)) as Hdx.
      destruct x as [a n ar d sub|q n d|q c d sub]; cbn [fst snd].
      - exact Ha.
      - destruct (mem_str (iname n) seen) eqn:Es; [exact Ha|].
        destruct (frag_get fm (iname n)) as [fr|] eqn:Eg; [|exact Ha]. cbn [snd]. rewrite Ha. cbn [orb].
        apply IH. pose proof (unseen_spread fm seen (iname n) fr Eg Es) as Hu.
        pose proof (HM fr (proj1 (frag_get_in _ _ _ Eg))) as Hfr. nia.
      - cbn [snd]. rewrite Ha. cbn [orb]. apply IH. cbn [sel_depth] in Hdx. nia. }
    apply H; [exact Hd|reflexivity].
Qed.

Lemma max_depth_ge defs d : In d defs -> def_depth d <= fold_right (fun d a => Nat.max (def_depth d) a) 0 defs.
Proof.
  induction defs as [|x r IH]; intros H; [contradiction|]. cbn [fold_right].
  destruct H as [->|H]; [lia|]. specialize (IH H). lia.
Qed.

Lemma doc_frags_in D f : In f (doc_frags D) -> In (DFrag f) (od_defs D).
Proof.
  unfold doc_frags. intros H. apply in_flat_map in H. destruct H as [d [Hd Hf]].
  destruct d; cbn in Hf; try contradiction. destruct Hf as [->|[]]. exact Hd.
Qed.

(** for every operation of every document, with the fuel check_operation_document uses, the single-root-field
    count never runs out of fuel: its recursion depth is at most (fragments + 1) x (deepest definition) *)
Theorem subscription_count_terminates : forall D o,
  In (DOp o) (od_defs D) ->
  snd (crk_c (doc_fuel D) (doc_frags D) [] (op_sel o) []) = false /\
  fst (crk_c (doc_fuel D) (doc_frags D) [] (op_sel o) []) = collect_response_keys (doc_fuel D) (doc_frags D) [] (op_sel o) [].
Proof.
  intros D o Ho. split; [|apply crk_c_erase].
  set (M := fold_right (fun d a => Nat.max (def_depth d) a) 0 (od_defs D)).
  apply (crk_c_enough (doc_frags D) M).
  - intros fr Hfr. apply (max_depth_ge (od_defs D) (DFrag fr)). apply doc_frags_in. exact Hfr.
  - pose proof (max_depth_ge (od_defs D) (DOp o) Ho) as Hop. cbn [def_depth] in Hop. fold M in Hop.
    assert (Hu : unseen (doc_frags D) [] <= length (doc_frags D)) by (unfold unseen; generalize (doc_frags D); intros l0; induction l0 as [|a l0 IHl0]; cbn [filter length]; [lia|destruct (negb (mem_str (iname (fr_name a)) [])); cbn [length]; lia]).
    unfold doc_fuel. fold M. nia.
Qed.

(** a subscription whose root selection spreads a two-fragment cycle: the count comes back (both keys) *)
Definition w_cycle_doc : opdoc :=
  mkOpDoc pos0
    [DOp (mkOp pos0 Subscription (Some (mkId (s "S") pos0)) None [] (SelSet pos0 [SSpread pos0 (mkId (s "A") pos0) []]));
     DFrag (mkFrag pos0 (mkId (s "A") pos0) (mkId (s "Subscription") pos0) [] (SelSet pos0 [SField None (mkId (s "s") pos0) None [] None; SSpread pos0 (mkId (s "B") pos0) []]));
     DFrag (mkFrag pos0 (mkId (s "B") pos0) (mkId (s "Subscription") pos0) [] (SelSet pos0 [SField None (mkId (s "t") pos0) None [] None; SSpread pos0 (mkId (s "A") pos0) []]))].

Example subscription_cycle_counted :
  match od_defs w_cycle_doc with
  | DOp o :: _ => crk_c (doc_fuel w_cycle_doc) (doc_frags w_cycle_doc) [] (op_sel o) [] = ([s "s"; s "t"], false)
  | _ => False
  end.
Proof. vm_compute. reflexivity. Qed.
