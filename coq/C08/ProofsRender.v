(** C08 — the diagnostic renderer never panics (render_total). *)
From V Require Import Base.Util C08.Model C08.Spec.
Local Open Scope N_scope.

Lemma len_utf8_pos c : 1 <= len_utf8 c.
Proof. unfold len_utf8. destruct (c <? 128), (c <? 2048), (c <? 65536); lia. Qed.

(** the byte offset [skip_chars] computes is always a character boundary: splitting there returns the
    first [k] characters and the rest *)
Lemma split_at_bytes_firstn : forall l k,
  split_at_bytes l (utf8_len (firstn k l)) = Some (firstn k l, skipn k l).
Proof.
  induction l as [|c r IH]; intros k.
  - rewrite firstn_nil, skipn_nil. reflexivity.
  - destruct k as [|k]; cbn [firstn skipn utf8_len split_at_bytes].
    + reflexivity.
    + pose proof (len_utf8_pos c) as Hc.
      destruct (len_utf8 c + utf8_len (firstn k r) =? 0) eqn:E0; [apply N.eqb_eq in E0; lia|].
      destruct (len_utf8 c <=? len_utf8 c + utf8_len (firstn k r)) eqn:E1; [|apply N.leb_gt in E1; lia].
      replace (len_utf8 c + utf8_len (firstn k r) - len_utf8 c) with (utf8_len (firstn k r)) by lia.
      rewrite IH. reflexivity.
Qed.

Lemma skip_chars_total line k : skip_chars line k = ROk (skipn (N.to_nat k) line).
Proof. unfold skip_chars. rewrite split_at_bytes_firstn. reflexivity. Qed.

(** ... whereas an offset inside a multi-byte character is the panic of [str::split_at]: the model
    can tell the two apart (U+3000 is three bytes long) *)
Example split_inside_char_panics : split_at_bytes [12288; 113] 1 = None /\ split_at_bytes [12288; 113] 3 = Some ([12288], [113]).
Proof. split; reflexivity. Qed.

Lemma render_line_total line col msg additional mi p :
  exists t, render_line line col msg additional mi p = ROk t.
Proof.
  unfold render_line. rewrite skip_chars_total. cbn [rbind].
  destruct (negb (fst p =? line)); eexists; reflexivity.
Qed.

Lemma render_lines_total line col msg additional mi rel :
  exists t, render_lines line col msg additional mi rel = ROk t.
Proof.
  induction rel as [|p r [t IH]]; cbn [render_lines].
  - eexists; reflexivity.
  - destruct (render_line_total line col msg additional mi p) as [a ->]. cbn [rbind]. rewrite IH. cbn [rbind].
    eexists; reflexivity.
Qed.

Lemma message_for_line_total path src line col msg additional :
  line <? usize_max = true -> col <? usize_max = true ->
  exists t, message_for_line path src line col msg additional = ROk t.
Proof.
  intros Hl Hc. unfold message_for_line.
  destruct (usize_max <=? line) eqn:E1; [apply N.leb_le in E1; apply N.ltb_lt in Hl; lia|].
  destruct (usize_max <=? col) eqn:E2; [apply N.leb_le in E2; apply N.ltb_lt in Hc; lia|].
  cbn [orb].
  destruct (forallb _ _); [eexists; reflexivity|].
  destruct (minimum_indent _) as [mi|]; [|eexists; reflexivity].
  destruct (render_lines_total line col msg additional mi
              (firstn 5 (skipN (line - 2) (enumerate_from 0 (lines src))))) as [b ->].
  cbn [rbind]. eexists; reflexivity.
Qed.

Lemma nthN_in_range {A} : forall (l : list A) n, n <? N.of_nat (length l) = true -> exists x, nthN l n = Some x.
Proof.
  induction l as [|x r IH]; intros n H.
  - cbn in H. apply N.ltb_lt in H. lia.
  - cbn [nthN]. destruct (n =? 0) eqn:E; [eexists; reflexivity|].
    apply IH. apply N.ltb_lt in H. apply N.ltb_lt. apply N.eqb_neq in E. cbn [length] in H. lia.
Qed.

Lemma render_additional_total files : forall addl acc,
  forallb (fun a => pos_in_store files (fst a)) addl = true ->
  exists t, render_additional files addl acc = ROk t.
Proof.
  induction addl as [|[p m] r IH]; intros acc H; cbn [render_additional].
  - eexists; reflexivity.
  - cbn [forallb fst] in H. apply andb_true_iff in H. destruct H as [Hp Hr].
    destruct (rp_builtin p) eqn:Eb; [apply IH; exact Hr|].
    unfold pos_in_store in Hp. rewrite Eb in Hp. cbn [orb] in Hp. apply andb_true_iff in Hp. destruct Hp as [Hp Hc].
    apply andb_true_iff in Hp. destruct Hp as [Hf Hl].
    destruct (nthN_in_range files (rp_file p) Hf) as [[path src] ->].
    destruct (message_for_line_total path src (rp_line p) (rp_col p) m true Hl Hc) as [t ->]. cbn [rbind].
    apply IH. exact Hr.
Qed.

(** the renderer returns a string for any source text (any Unicode, any line terminators, any
    indentation), any message, any line and column inside or outside the text *)
Theorem render_total : forall files pos msg addl,
  render_guard files pos addl = true ->
  no_panic (print_positioned_error files pos msg addl).
Proof.
  intros files pos msg addl G. unfold no_panic, print_positioned_error.
  destruct pos as [p|]; [|eexists; reflexivity].
  cbn [render_guard] in G. apply andb_true_iff in G. destruct G as [Gp Ga].
  destruct (rp_builtin p) eqn:Eb; [eexists; reflexivity|].
  cbn [orb] in Ga.
  unfold pos_in_store in Gp. rewrite Eb in Gp. cbn [orb] in Gp. apply andb_true_iff in Gp. destruct Gp as [Gp Hc].
  apply andb_true_iff in Gp. destruct Gp as [Hf Hl].
  destruct (nthN_in_range files (rp_file p) Hf) as [[path src] ->].
  destruct (message_for_line_total path src (rp_line p) (rp_col p) msg false Hl Hc) as [t ->]. cbn [rbind].
  apply render_additional_total. exact Ga.
Qed.

(** the guard is necessary and nothing else is: outside it the model does panic *)
Lemma render_index_refuted :
  print_positioned_error [] (Some (mkRP 0 0 0 false)) (s "m") [] = RPanic P_index.
Proof. reflexivity. Qed.

(** a position after the last line: the location is still named *)
Example render_past_end :
  print_positioned_error [(s "a.graphql", s "query {")] (Some (mkRP 3 0 0 false)) (s "boom") []
  = ROk (s "a.graphql:4:1" ++ [10] ++ s "boom").
Proof. vm_compute. reflexivity. Qed.

(** non-vacuity: a diagnostic on a line indented with U+3000 (three bytes), position past the end
    of the line, with an additional note in a second file that uses CR LF and a lone CR *)
Example render_example :
  print_positioned_error
    [(s "a.graphql", [12288; 12288] ++ s "query {" ++ [10; 12288; 12288; 32; 32] ++ s "x" ++ [10; 12288; 12288] ++ s "}");
     (s "b.graphql", s "type A" ++ [13; 10] ++ s "  type B" ++ [13] ++ s "tail")]
    (Some (mkRP 1 9 0 false)) (s "boom")
    [(mkRP 1 7 1 false, s "note")]
  = ROk (s "a.graphql:2:10" ++ [10] ++ s "query {" ++ [10] ++ s "  x" ++ [10] ++ s "       ^" ++ [10] ++ s "       boom" ++ [10] ++ s "}" ++ [10]
         ++ [10; 10] ++ s "    b.graphql:2:8" ++ [10] ++ s "    type A" ++ [10] ++ s "      type B" ++ [13] ++ s "tail" ++ [10]
         ++ s "           ^" ++ [10] ++ s "           note" ++ [10]).
Proof. vm_compute. reflexivity. Qed.
