(** C08 — site accounting and the stage-level corollaries. *)
From V Require Import Base.Util C08.Model C08.Spec C08.SiteType Gen.C08_sites_gen C08.Sites.
Local Open Scope N_scope.

Definition accounted (x : site) : bool := existsb (fun e => site_eqb x (fst e)) table.
Definition still_scanned (e : site * status) : bool := existsb (site_eqb (fst e)) scanned_sites.

(** every syntactic panic site of the anchored files has a status in the table ... *)
Lemma all_sites_accounted : forallb accounted scanned_sites = true.
Proof. vm_compute. reflexivity. Qed.

(** ... and the table mentions no site that is not in the sources any more *)
Lemma no_stale_entries : forallb still_scanned table = true.
Proof. vm_compute. reflexivity. Qed.

Definition count_tag (t : N) : N := N.of_nat (length (filter (fun e => status_tag (snd e) =? t) table)).

(** how the sites are accounted for (kept as a lemma so that a silent downgrade of a status shows up) *)
Lemma site_status_counts :
  (count_tag 0, count_tag 1, count_tag 2, count_tag 3, count_tag 4, count_tag 5) = (35, 5, 2, 4, 6, 7).
Proof. vm_compute. reflexivity. Qed.
