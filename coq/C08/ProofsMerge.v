(** C08 — a panic of the operation type printer that a passing check does not exclude, through three models
    at once: the parser (C07), the checker (C03) and the type printer (C01).  "Field Selection Merging"
    (two selections with one response key must have the same shape) is not among the rules check implements;
    deep_merge.rs then meets a leaf and an object, or a list and a non-list, under one key. *)
From V Require Import Base.Util Gql.Ast C07.Model.
From V Require C03.Model C01.Model.

Definition w_merge_schema : str :=
  s "scalar Int scalar String scalar Boolean scalar ID scalar Float type Query { a: Query  l: [Query!]!  i: Int  s: String }".
Definition w_merge_fields : str := s "query Q { x: i x: a { i } }".
Definition w_merge_trees : str := s "query Q { x: l { i } x: a { i } }".

(** (diagnostics of check, outcome of the selection-tree construction for the first definition) *)
Definition check_then_tree (schema doc : str) : option (list C03.Model.err * option (C01.Model.res C01.Model.stree)) :=
  match parse_type_system_document 0 schema, parse_operation_document 1 doc with
  | POk sch, POk D =>
      Some (C03.Model.check_operation_document sch D,
            match od_defs D with d :: _ => Some (C01.Model.def_tree sch D d) | [] => None end)
  | _, _ => None
  end.

Lemma merge_unchecked_refuted :
  check_then_tree w_merge_schema w_merge_fields = Some ([], Some (C01.Model.Err C01.Model.EMergeFields)) /\
  check_then_tree w_merge_schema w_merge_trees = Some ([], Some (C01.Model.Err C01.Model.EMergeTrees)).
Proof. split; vm_compute; reflexivity. Qed.
