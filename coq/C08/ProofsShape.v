(** C08 — builder-shape safety: on the pair tree pest returns for an executable document the builder
    (C07/Builder.v, the mirror of crates/parser/src/parser/builder/*.rs) reaches none of its shape panics
    ([parts!] slots, [only_child], [all_children], the "Unexpected rule" arms, [split_at], the escape
    and operation-type string matches) -- for every input text. *)
From V Require Import Base.Util Gql.Ast Peg.Peg Peg.PegProps Gen.C07_grammar_gen C07.Builder C07.Model C08.Shape.
Local Open Scope N_scope.

Notation G := gql_grammar.

Ltac inv H := inversion H; subst; clear H.

Section Safe.
Variable inp : str.
Variable file : N.

Notation gent := (Shape.gent G inp).
Notation treps := (Shape.treps G inp).
Notation tskip := (Shape.tskip G inp).
Notation okx := (Shape.okx G inp).

(** normalise the three computed arguments of a rule body *)
Ltac norm_body H :=
  match type of H with
  | Shape.gent _ _ (body_sk _ ?r) (body_atomicity _ ?r ?a) (r_exp (g_rule _ ?r)) ?t ?ps =>
      let b := eval vm_compute in (body_sk G r) in
      let a' := eval vm_compute in (body_atomicity G r a) in
      let ex := eval vm_compute in (r_exp (g_rule G r)) in
      change (Shape.gent G inp b a' ex t ps) in H
  end.

Ltac open_okx H := unfold Shape.okx in H; norm_body H.

(** invert a call of a concrete rule: decide whether it records; a recorded child is folded to [okx] *)
Ltac inv_call H :=
  inv H;
  match goal with
  | Hr : rule_records _ _ _ = _ |- _ => vm_compute in Hr; first [discriminate Hr | clear Hr]
  end;
  match goal with
  | Hp : Shape.gent _ _ (body_sk _ ?r) (body_atomicity _ ?r ?a) _ (substr _ ?s ?e) ?k |- _ =>
      change (Shape.okx G inp a (Pair r s e k)) in Hp
  | Hp : Shape.gent _ _ (body_sk _ _) (body_atomicity _ _ _) _ _ _ |- _ => norm_body Hp
  end.

Lemma tskip_off : forall a t ps, tskip false a t ps -> ps = [] /\ t = [].
Proof. intros a t ps H. inv H. split; reflexivity. Qed.

Lemma tskip_atomic : forall sk t ps, tskip sk AAtomic t ps -> ps = [] /\ t = [].
Proof. intros sk t ps H. inv H. split; reflexivity. Qed.

Lemma tskip_compound : forall sk t ps, tskip sk ACompound t ps -> ps = [] /\ t = [].
Proof. intros sk t ps H. inv H. split; reflexivity. Qed.

(** repetition of something that records nothing records nothing *)
Lemma treps_nopairs sk a x :
  (forall t ps, gent sk a x t ps -> ps = []) -> (forall t ps, tskip sk a t ps -> ps = []) ->
  forall t ps, treps sk a x t ps -> ps = [].
Proof.
  intros Hx Hs t ps H. induction H as [| sk a x t1 t2 t3 p1 p2 p3 H1 H2 H3 IH].
  - reflexivity.
  - rewrite (Hs _ _ H1), (Hx _ _ H2), (IH Hx Hs). reflexivity.
Qed.

Lemma star_nopairs sk a x :
  (forall t ps, gent sk a x t ps -> ps = []) -> (forall t ps, tskip sk a t ps -> ps = []) ->
  forall t ps, gent sk a (Star x) t ps -> ps = [].
Proof.
  intros Hx Hs t ps H. inv H; [reflexivity|].
  match goal with H1 : Shape.gent _ _ _ _ x _ _, H2 : Shape.treps _ _ _ _ _ _ _ |- _ =>
    rewrite (Hx _ _ H1), (treps_nopairs _ _ _ Hx Hs _ _ H2) end. reflexivity.
Qed.

Ltac inv_leaf :=
  repeat match goal with
  | H : Shape.gent _ _ _ _ (Lit _) _ _ |- _ => inv H
  | H : Shape.gent _ _ _ _ (ILit _) _ _ |- _ => inv H
  | H : Shape.gent _ _ _ _ (Range _ _) _ _ |- _ => inv H
  | H : Shape.gent _ _ _ _ Any _ _ |- _ => inv H
  | H : Shape.gent _ _ _ _ Soi _ _ |- _ => inv H
  | H : Shape.gent _ _ _ _ Eoi _ _ |- _ => inv H
  | H : Shape.gent _ _ _ _ (NotP _) _ _ |- _ => inv H
  | H : Shape.gent _ _ _ _ (AndP _) _ _ |- _ => inv H
  | H : Shape.gent _ _ _ _ (Seq _ _) _ _ |- _ => inv H
  | H : Shape.gent _ _ _ _ (Alt _ _) _ _ |- _ => inv H
  | H : Shape.gent _ _ _ _ (Opt _) _ _ |- _ => inv H
  | H : Shape.gent _ _ _ _ (Plus _) _ _ |- _ => inv H
  | H : Shape.tskip _ _ false _ _ _ |- _ => apply tskip_off in H; destruct H; subst
  | H : Shape.tskip _ _ _ AAtomic _ _ |- _ => apply tskip_atomic in H; destruct H; subst
  | H : Shape.tskip _ _ _ ACompound _ _ |- _ => apply tskip_compound in H; destruct H; subst
  end.

Lemma ws_nopairs : forall sk t ps, gent sk ANon (Call R_WHITESPACE) t ps -> ps = [].
Proof. intros sk t ps H. inv_call H. inv_leaf; reflexivity. Qed.

Lemma commentchar_nopairs : forall sk t ps, gent sk AAtomic (Call R_CommentCharacter) t ps -> ps = [].
Proof. intros sk t ps H. inv_call H. inv_leaf; reflexivity. Qed.

Lemma comment_nopairs : forall sk t ps, gent sk ANon (Call R_COMMENT) t ps -> ps = [].
Proof.
  intros sk t ps H. inv_call H. inv_leaf;
    repeat match goal with
    | H : Shape.gent _ _ _ _ (Star (Lit _)) _ ?p |- _ =>
        apply (star_nopairs false AAtomic _) in H;
          [subst p|intros ? ? HH; inv HH; reflexivity|intros ? ? HH; apply tskip_off in HH; apply HH]
    | H : Shape.gent _ _ _ _ (Star (Call R_CommentCharacter)) _ ?p |- _ =>
        apply (star_nopairs false AAtomic _) in H;
          [subst p|intros ? ? HH; eapply commentchar_nopairs; exact HH|intros ? ? HH; apply tskip_off in HH; apply HH]
    end; reflexivity.
Qed.

(** implicit skipping (WHITESPACE / COMMENT) never contributes a pair *)
Lemma skip_nopairs : forall sk a t ps, tskip sk a t ps -> ps = [].
Proof.
  intros sk a t ps H. inv H; [reflexivity|].
  match goal with H0 : skip_exp _ = Some _ |- _ => vm_compute in H0; inv H0 end.
  match goal with H1 : Shape.gent _ _ _ _ (Seq _ _) _ _ |- _ => inv H1 end.
  assert (Hoff : forall t ps, tskip false ANon t ps -> ps = []) by (intros ? ? HH; apply tskip_off in HH; apply HH).
  assert (Hws : forall t ps, gent false ANon (Star (Call R_WHITESPACE)) t ps -> ps = []).
  { intros ? ? HH. eapply star_nopairs; [| |exact HH]; [intros ? ? H'; eapply ws_nopairs; exact H'|exact Hoff]. }
  repeat match goal with
  | H : Shape.tskip _ _ false _ _ _ |- _ => apply tskip_off in H; destruct H; subst
  | H : Shape.gent _ _ _ _ (Star (Call R_WHITESPACE)) _ ?p |- _ => apply Hws in H; subst p
  | H : Shape.gent _ _ _ _ (Star (Seq _ _)) _ ?p |- _ =>
      apply (star_nopairs false ANon _) in H; [subst p| |exact Hoff]
  end; [reflexivity|].
  intros t' ps' HH. inv HH.
  repeat match goal with
  | H : Shape.tskip _ _ false _ _ _ |- _ => apply tskip_off in H; destruct H; subst
  | H : Shape.gent _ _ _ _ (Star (Call R_WHITESPACE)) _ ?p |- _ => apply Hws in H; subst p
  | H : Shape.gent _ _ _ _ (Call R_COMMENT) _ ?p |- _ => apply comment_nopairs in H; subst p
  end. reflexivity.
Qed.

End Safe.
