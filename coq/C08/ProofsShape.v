(** C08 — builder-shape safety: on the pair tree pest returns for an executable document the builder
    (C07/Builder.v, the mirror of crates/parser/src/parser/builder/*.rs) reaches none of its shape panics
    ([parts!] slots, [only_child], [all_children], the "Unexpected rule" arms, [split_at], the escape
    and operation-type string matches) -- for every input text. *)
From V Require Import Base.Util Gql.Ast Peg.Peg Peg.PegProps Gen.C07_grammar_gen C07.Builder C07.Model C08.Shape.
Local Open Scope N_scope.

Notation G := gql_grammar.

Ltac inv H := inversion H; subst; clear H.

Section Safe.
Variable inp : str.
Variable file : N.
Variable Q : pr -> Prop.        (* what is known of every recorded pair (see Shape.gent) *)

Notation gent := (Shape.gent G inp Q).
Notation treps := (Shape.treps G inp Q).
Notation tskip := (Shape.tskip G inp Q).
Notation okx := (Shape.okx G inp Q).

(** normalise the three computed arguments of a rule body *)
Ltac norm_body H :=
  match type of H with
  | Shape.gent _ _ _ (body_sk _ ?r) (body_atomicity _ ?r ?a) (r_exp (g_rule _ ?r)) ?t ?ps =>
      let b := eval vm_compute in (body_sk G r) in
      let a' := eval vm_compute in (body_atomicity G r a) in
      let ex := eval vm_compute in (r_exp (g_rule G r)) in
      change (Shape.gent G inp Q b a' ex t ps) in H
  end.

Ltac open_okx H := unfold Shape.okx in H; norm_body H.

(** invert a call of a concrete rule: decide whether it records; a recorded child is folded to [okx] *)
Ltac inv_call H :=
  inv H;
  match goal with
  | Hr : rule_records _ _ _ = _ |- _ => vm_compute in Hr; first [discriminate Hr | clear Hr]
  end;
  match goal with
  | Hp : Shape.gent _ _ _ (body_sk _ ?r) (body_atomicity _ ?r ?a) _ (substr _ ?s ?e) ?k |- _ =>
      change (Shape.okx G inp Q a (Pair r s e k)) in Hp
  | Hp : Shape.gent _ _ _ (body_sk _ _) (body_atomicity _ _ _) _ _ _ |- _ => norm_body Hp
  end.

Lemma tskip_off : forall a t ps, tskip false a t ps -> ps = [] /\ t = [].
Proof. intros a t ps H. inv H. split; reflexivity. Qed.

Lemma tskip_atomic : forall sk t ps, tskip sk AAtomic t ps -> ps = [] /\ t = [].
Proof. intros sk t ps H. inv H. split; reflexivity. Qed.

Lemma tskip_compound : forall sk t ps, tskip sk ACompound t ps -> ps = [] /\ t = [].
Proof. intros sk t ps H. inv H. split; reflexivity. Qed.

(** repetition of something that records nothing records nothing *)
Lemma treps_nopairs sk a x :
  (forall t ps, gent sk a x t ps -> ps = []) -> (forall t ps, tskip sk a t ps -> ps = []) ->
  forall t ps, treps sk a x t ps -> ps = [].
Proof.
  intros Hx Hs t ps H. induction H as [| sk a x t1 t2 t3 p1 p2 p3 H1 H2 H3 IH].
  - reflexivity.
  - rewrite (Hs _ _ H1), (Hx _ _ H2), (IH Hx Hs). reflexivity.
Qed.

Lemma star_nopairs sk a x :
  (forall t ps, gent sk a x t ps -> ps = []) -> (forall t ps, tskip sk a t ps -> ps = []) ->
  forall t ps, gent sk a (Star x) t ps -> ps = [].
Proof.
  intros Hx Hs t ps H. inv H; [reflexivity|].
  match goal with H1 : Shape.gent _ _ _ _ _ x _ _, H2 : Shape.treps _ _ _ _ _ _ _ _ |- _ =>
    rewrite (Hx _ _ H1), (treps_nopairs _ _ _ Hx Hs _ _ H2) end. reflexivity.
Qed.

Ltac inv_leaf :=
  repeat match goal with
  | H : Shape.gent _ _ _ _ _ (Lit _) _ _ |- _ => inv H
  | H : Shape.gent _ _ _ _ _ (ILit _) _ _ |- _ => inv H
  | H : Shape.gent _ _ _ _ _ (Range _ _) _ _ |- _ => inv H
  | H : Shape.gent _ _ _ _ _ Any _ _ |- _ => inv H
  | H : Shape.gent _ _ _ _ _ Soi _ _ |- _ => inv H
  | H : Shape.gent _ _ _ _ _ Eoi _ _ |- _ => inv H
  | H : Shape.gent _ _ _ _ _ (NotP _) _ _ |- _ => inv H
  | H : Shape.gent _ _ _ _ _ (AndP _) _ _ |- _ => inv H
  | H : Shape.gent _ _ _ _ _ (Seq _ _) _ _ |- _ => inv H
  | H : Shape.gent _ _ _ _ _ (Alt _ _) _ _ |- _ => inv H
  | H : Shape.gent _ _ _ _ _ (Opt _) _ _ |- _ => inv H
  | H : Shape.gent _ _ _ _ _ (Plus _) _ _ |- _ => inv H
  | H : Shape.tskip _ _ _ false _ _ _ |- _ => apply tskip_off in H; destruct H; subst
  | H : Shape.tskip _ _ _ _ AAtomic _ _ |- _ => apply tskip_atomic in H; destruct H; subst
  | H : Shape.tskip _ _ _ _ ACompound _ _ |- _ => apply tskip_compound in H; destruct H; subst
  end.

Lemma ws_nopairs : forall sk t ps, gent sk ANon (Call R_WHITESPACE) t ps -> ps = [].
Proof. intros sk t ps H. inv_call H. inv_leaf; reflexivity. Qed.

Lemma commentchar_nopairs : forall sk t ps, gent sk AAtomic (Call R_CommentCharacter) t ps -> ps = [].
Proof. intros sk t ps H. inv_call H. inv_leaf; reflexivity. Qed.

Lemma comment_nopairs : forall sk t ps, gent sk ANon (Call R_COMMENT) t ps -> ps = [].
Proof.
  intros sk t ps H. inv_call H. inv_leaf;
    repeat match goal with
    | H : Shape.gent _ _ _ _ _ (Star (Lit _)) _ ?p |- _ =>
        apply (star_nopairs false AAtomic _) in H;
          [subst p|intros ? ? HH; inv HH; reflexivity|intros ? ? HH; apply tskip_off in HH; apply HH]
    | H : Shape.gent _ _ _ _ _ (Star (Call R_CommentCharacter)) _ ?p |- _ =>
        apply (star_nopairs false AAtomic _) in H;
          [subst p|intros ? ? HH; eapply commentchar_nopairs; exact HH|intros ? ? HH; apply tskip_off in HH; apply HH]
    end; reflexivity.
Qed.

(** implicit skipping (WHITESPACE / COMMENT) never contributes a pair *)
Lemma skip_nopairs : forall sk a t ps, tskip sk a t ps -> ps = [].
Proof.
  intros sk a t ps H. inv H; [reflexivity|].
  match goal with H0 : skip_exp _ = Some _ |- _ => vm_compute in H0; inv H0 end.
  match goal with H1 : Shape.gent _ _ _ _ _ (Seq _ _) _ _ |- _ => inv H1 end.
  assert (Hoff : forall t ps, tskip false ANon t ps -> ps = []) by (intros ? ? HH; apply tskip_off in HH; apply HH).
  assert (Hws : forall t ps, gent false ANon (Star (Call R_WHITESPACE)) t ps -> ps = []).
  { intros ? ? HH. eapply star_nopairs; [| |exact HH]; [intros ? ? H'; eapply ws_nopairs; exact H'|exact Hoff]. }
  assert (Hcw : forall t ps, gent false ANon (Seq (Call R_COMMENT) (Star (Call R_WHITESPACE))) t ps -> ps = []).
  { intros t' ps' HH. inv HH.
    repeat match goal with
    | H : Shape.tskip _ _ _ false _ _ _ |- _ => apply tskip_off in H; destruct H; subst
    | H : Shape.gent _ _ _ _ _ (Star (Call R_WHITESPACE)) _ ?p |- _ => apply Hws in H; subst p
    | H : Shape.gent _ _ _ _ _ (Call R_COMMENT) _ ?p |- _ => apply comment_nopairs in H; subst p
    end. reflexivity. }
  repeat match goal with
  | H : Shape.tskip _ _ _ false _ _ _ |- _ => apply tskip_off in H; destruct H; subst
  | H : Shape.gent _ _ _ _ _ (Star (Call R_WHITESPACE)) _ ?p |- _ => apply Hws in H; subst p
  | H : Shape.gent _ _ _ _ _ (Star (Seq _ _)) _ ?p |- _ =>
      apply (star_nopairs false ANon _ Hcw Hoff) in H; subst p
  end. reflexivity.
Qed.


(** ** the general inversion step (normal rules: skipping contributes no pair) *)
Ltac step :=
  match goal with
  | H : Shape.gent _ _ _ _ _ (Lit _) _ _ |- _ => inv H
  | H : Shape.gent _ _ _ _ _ (ILit _) _ _ |- _ => inv H
  | H : Shape.gent _ _ _ _ _ (Range _ _) _ _ |- _ => inv H
  | H : Shape.gent _ _ _ _ _ Any _ _ |- _ => inv H
  | H : Shape.gent _ _ _ _ _ Soi _ _ |- _ => inv H
  | H : Shape.gent _ _ _ _ _ Eoi _ _ |- _ => inv H
  | H : Shape.gent _ _ _ _ _ (NotP _) _ _ |- _ => inv H
  | H : Shape.gent _ _ _ _ _ (AndP _) _ _ |- _ => inv H
  | H : Shape.gent _ _ _ _ _ (Seq _ _) _ _ |- _ => inv H
  | H : Shape.gent _ _ _ _ _ (Alt _ _) _ _ |- _ => inv H
  | H : Shape.gent _ _ _ _ _ (Opt _) _ _ |- _ => inv H
  | H : Shape.gent _ _ _ _ _ (Call _) _ _ |- _ => inv_call H
  | H : Shape.tskip _ _ _ false _ _ _ |- _ => apply tskip_off in H; destruct H; subst
  | H : Shape.tskip _ _ _ _ AAtomic _ _ |- _ => apply tskip_atomic in H; destruct H; subst
  | H : Shape.tskip _ _ _ _ ACompound _ _ |- _ => apply tskip_compound in H; destruct H; subst
  | H : Shape.tskip _ _ _ _ _ _ ?p |- _ => apply skip_nopairs in H; subst p
  end.
Ltac steps := repeat step; cbn [app] in *; repeat rewrite app_nil_r in *.

Definition isok (r : rule) (a : atomicity) (p : pr) : Prop := pair_rule p = r /\ okx a p.

Lemma isok_intro r a s e k : okx a (Pair r s e k) -> isok r a (Pair r s e k).
Proof. intros H. split; [reflexivity|exact H]. Qed.

Lemma isok_is_rule r a p : isok r a p -> is_rule r p = true.
Proof.
  intros [H _]. unfold is_rule. rewrite H. destruct r; reflexivity.
Qed.

Lemma forall_isok_is_rule r a l : Forall (isok r a) l -> forallb (is_rule r) l = true.
Proof.
  induction 1 as [|x l Hx _ IH]; [reflexivity|]. cbn [forallb]. rewrite (isok_is_rule _ _ _ Hx), IH. reflexivity.
Qed.

(** repetition of a recorded call: every produced pair is a pair of that rule, well shaped *)
Lemma call_isok sk a r : rule_records G r a = true ->
  forall t ps, gent sk a (Call r) t ps -> Forall (isok r a) ps.
Proof.
  intros Hr t ps H. inv H.
  - constructor; [|constructor]. split; [reflexivity|assumption].
  - congruence.
Qed.

Lemma treps_forall (P : pr -> Prop) sk a x :
  (forall t ps, gent sk a x t ps -> Forall P ps) ->
  forall t ps, treps sk a x t ps -> Forall P ps.
Proof.
  intros Hx t ps H. induction H as [| sk a x t1 t2 t3 p1 p2 p3 H1 H2 H3 IH].
  - constructor.
  - rewrite (skip_nopairs _ _ _ _ H1). cbn [app]. apply Forall_app. split; [apply (Hx _ _ H2)|apply IH; exact Hx].
Qed.

Lemma star_forall (P : pr -> Prop) sk a x :
  (forall t ps, gent sk a x t ps -> Forall P ps) ->
  forall t ps, gent sk a (Star x) t ps -> Forall P ps.
Proof.
  intros Hx t ps H. inv H; [constructor|].
  apply Forall_app. split; [eapply Hx; eassumption|eapply treps_forall; eassumption].
Qed.

Lemma plus_forall (P : pr -> Prop) sk a x :
  (forall t ps, gent sk a x t ps -> Forall P ps) ->
  forall t ps, gent sk a (Plus x) t ps -> Forall P ps.
Proof.
  intros Hx t ps H. inv H.
  match goal with H1 : Shape.gent _ _ _ _ _ (Seq _ _) _ _ |- _ => inv H1 end.
  match goal with H1 : Shape.tskip _ _ _ _ _ _ _ |- _ => rewrite (skip_nopairs _ _ _ _ H1) end. cbn [app].
  apply Forall_app. split; [eapply Hx; eassumption|eapply star_forall; eassumption].
Qed.

Lemma plus_call_isok sk a r : rule_records G r a = true ->
  forall t ps, gent sk a (Plus (Call r)) t ps -> Forall (isok r a) ps.
Proof. intros Hr t ps H. eapply plus_forall; [|exact H]. apply call_isok. exact Hr. Qed.

(** ** results that are values (not a panic) *)
Definition safe {A} (r : bres A) : Prop :=
  match r with BOk _ => True | BPanic _ => False end.

Lemma safe_bind {A B} (x : bres A) (f : A -> bres B) :
  safe x -> (forall a, x = BOk a -> safe (f a)) -> safe (bbind x f).
Proof. destruct x as [a|k]; cbn [bbind safe]; intros Hx Hf; [apply Hf; reflexivity|exact Hx]. Qed.

Lemma safe_mapM {A B} (f : A -> bres B) l : Forall (fun x => safe (f x)) l -> safe (mapM f l).
Proof.
  induction 1 as [|x l Hx _ IH]; cbn [mapM]; [exact I|].
  destruct (f x) as [y|k]; [|exact Hx]. destruct (mapM f l) as [ys|k]; [exact I|exact IH].
Qed.

Lemma safe_omapM {A B} (f : A -> bres B) o : (forall x, o = Some x -> safe (f x)) -> safe (omapM f o).
Proof.
  destruct o as [x|]; cbn [omapM]; intros H; [|exact I].
  specialize (H x eq_refl). destruct (f x); [exact I|exact H].
Qed.

(** sizes, for the recursive builders *)
Fixpoint psize (p : pr) : nat :=
  match p with
  | Pair _ _ _ kids => S ((fix go (l : list pr) : nat := match l with [] => O | x :: r => (psize x + go r)%nat end) kids)
  end.
Definition lsize (l : list pr) : nat := (fix go (l : list pr) : nat := match l with [] => O | x :: r => (psize x + go r)%nat end) l.
Lemma psize_pair r s e kids : psize (Pair r s e kids) = S (lsize kids).
Proof. reflexivity. Qed.
Lemma lsize_cons x l : lsize (x :: l) = (psize x + lsize l)%nat.
Proof. reflexivity. Qed.
Lemma lsize_in x l : In x l -> (psize x <= lsize l)%nat.
Proof.
  induction l as [|y l IH]; intros H; [contradiction|]. rewrite lsize_cons. destruct H as [->|H]; [lia|].
  specialize (IH H). lia.
Qed.

Ltac open_pair p H :=
  destruct p as [?r ?s ?e ?kids]; destruct H as [?Hr H]; cbn [pair_rule] in *; subst; open_okx H.

(** *** base.rs build_variable *)
Lemma safe_variable p : isok R_Variable ANon p -> safe (build_variable inp file p).
Proof. intros H. open_pair p H. steps. exact I. Qed.

(** *** value.rs decode_string_characters: on a NormalStringValue pair of the tree it returns a string or the
    offending pair -- it reaches none of its panics ([only_child], "Unknown escape sequence", "Unexpected rule",
    [chars().next().unwrap()]) *)
Lemma dcons_np ch r : (forall k, r <> DPanic k) -> forall k, dcons ch r <> DPanic k.
Proof. intros H k. destruct r; cbn [dcons]; [discriminate|discriminate|apply H]. Qed.

Lemma decode_chars_no_panic kids : Forall (isok R_StringCharacter ACompound) kids ->
  forall leading k, decode_chars inp kids leading <> DPanic k.
Proof.
  induction 1 as [|x rest Hx _ IH]; intros leading k.
  - cbn [decode_chars]. destruct leading as [[? ?]|]; discriminate.
  - open_pair x Hx. steps; cbn [decode_chars pair_kids]; unfold escaped_unicode, plain_char; cbn [pair_rule].
    + (* \u{...} *)
      match goal with H : Shape.okx _ _ _ _ (Pair R_EscapedUnicodeBrace _ _ _) |- _ => open_okx H end. steps.
      cbn [only_child pair_kids].
      repeat first [apply IH | apply dcons_np; intros | discriminate
                   | match goal with
                     | |- (match ?x with _ => _ end) <> _ => destruct x eqn:?
                     | |- (if ?x then _ else _) <> _ => destruct x eqn:?
                     end].
    + repeat first [apply IH | apply dcons_np; intros | discriminate
                   | match goal with
                     | |- (match ?x with _ => _ end) <> _ => destruct x eqn:?
                     | |- (if ?x then _ else _) <> _ => destruct x eqn:?
                     end].
    + (* \x *)
      match goal with H : Shape.okx _ _ _ _ (Pair R_EscapedCharacter _ _ _) |- _ => open_okx H end.
      steps; unfold as_str; cbn [pair_start pair_end];
        match goal with H : _ = substr _ _ _ |- _ => rewrite <- H end; cbn [escaped_char N.eqb Pos.eqb];
        repeat first [apply IH | apply dcons_np; intros | discriminate
                     | match goal with
                       | |- (match ?x with _ => _ end) <> _ => destruct x eqn:?
                       | |- (if ?x then _ else _) <> _ => destruct x eqn:?
                       end].
    + match goal with H : Shape.okx _ _ _ _ (Pair R_NormalStringCharacter _ _ _) |- _ => open_okx H end.
      steps. unfold as_str; cbn [pair_start pair_end].
      match goal with H : _ = substr _ _ _ |- _ => rewrite <- H end.
      repeat first [apply IH | apply dcons_np; intros | discriminate
                   | match goal with
                     | |- (match ?x with _ => _ end) <> _ => destruct x eqn:?
                     | |- (if ?x then _ else _) <> _ => destruct x eqn:?
                     end].
Qed.

Lemma decode_no_panic a s e kids : okx a (Pair R_NormalStringValue s e kids) ->
  forall k, decode_string_characters inp (Pair R_NormalStringValue s e kids) <> DPanic k.
Proof.
  intros H k. open_okx H. steps.
  match goal with H : Shape.gent _ _ _ _ _ (Plus (Call R_StringCharacter)) _ _ |- _ =>
    apply (plus_call_isok false ACompound R_StringCharacter eq_refl) in H end.
  unfold decode_string_characters. cbn [pair_kids]. apply decode_chars_no_panic. assumption.
Qed.

(** what validation establishes for a NormalStringValue pair: it decodes *)
Definition decodes (q : pr) : Prop :=
  pair_rule q = R_NormalStringValue -> exists v, decode_string_characters inp q = DOk v.
Hypothesis QD : forall q, Q q -> decodes q.

Ltac open_kid r := match goal with H : Shape.okx _ _ _ _ (Pair r _ _ _) |- _ => open_okx H end.

(** *** value.rs build_string_value (StringValue is compound-atomic: its body runs under ACompound whatever the caller) *)
Lemma safe_string_value a p : isok R_StringValue a p -> safe (build_string_value inp file p).
Proof.
  intros H. open_pair p H. steps; unfold build_string_value; cbn [only_child pair_kids pair_rule].
  - exact I.
  - (* NormalStringValue: validated before building *)
    match goal with HQ : Q (Pair R_NormalStringValue _ _ _) |- _ => destruct (QD _ HQ eq_refl) as [v ->] end. exact I.
  - (* BlockStringValue: at least the two triple quotes *)
    open_kid R_BlockStringValue. steps.
    unfold as_str; cbn [pair_start pair_end].
    match goal with H : _ = substr _ _ _ |- _ => rewrite <- H end.
    match goal with |- context [(length ?l <? 6)%nat] => assert (Hl : (6 <= length l)%nat) by (cbn [length]; rewrite app_length; cbn [length]; lia) end.
    destruct (Nat.ltb_spec (length (34 :: 34 :: 34 :: t1 ++ [34; 34; 34])) 6); [lia|exact I].
Qed.

(** *** value.rs build_value *)
Lemma safe_value : forall n p, (psize p <= n)%nat -> isok R_Value ANon p -> safe (build_value inp file p).
Proof.
  induction n as [|n IH]; intros p Hn H; [destruct p; cbn in Hn; lia|].
  open_pair p H. steps; cbn [build_value].
  - apply safe_bind; [apply safe_variable; apply isok_intro; assumption|intros; exact I].
  - exact I.
  - exact I.
  - apply safe_bind; [eapply safe_string_value; apply isok_intro; eassumption|intros; exact I].
  - open_kid R_BooleanValue. steps; cbn [only_child pair_kids pair_rule]; exact I.
  - exact I.
  - exact I.
  - (* ListValue *)
    open_kid R_ListValue. steps.
    + cbn [forallb]. apply safe_bind; [exact I|intros; exact I].
    + match goal with H : Shape.gent _ _ _ _ _ (Plus (Call R_Value)) _ _ |- _ =>
        apply (plus_call_isok true ANon R_Value eq_refl) in H; rename H into Hk end.
      rewrite (forall_isok_is_rule _ _ _ Hk). apply safe_bind; [|intros; exact I].
      apply safe_mapM. rewrite Forall_forall in *. intros x Hx. apply IH; [|apply Hk; exact Hx].
      pose proof (lsize_in _ _ Hx). rewrite !psize_pair, !lsize_cons in Hn. cbn [lsize] in Hn. rewrite psize_pair in Hn. lia.
  - (* ObjectValue *)
    open_kid R_ObjectValue. steps.
    + cbn [forallb]. apply safe_bind; [exact I|intros; exact I].
    + match goal with H : Shape.gent _ _ _ _ _ (Plus (Call R_ObjectField)) _ _ |- _ =>
        apply (plus_call_isok true ANon R_ObjectField eq_refl) in H; rename H into Hk end.
      rewrite (forall_isok_is_rule _ _ _ Hk). apply safe_bind; [|intros; exact I].
      apply safe_mapM. rewrite Forall_forall in *. intros x Hx. pose proof (Hk x Hx) as Hf.
      pose proof (lsize_in _ _ Hx) as Hsz.
      open_pair x Hf. steps. cbn [slot_req is_rule pair_rule rule_eqb].
      apply safe_bind; [|intros; exact I].
      apply IH; [|apply isok_intro; assumption].
      rewrite !psize_pair, !lsize_cons in Hn. cbn [lsize] in Hn. rewrite !psize_pair in Hn.
      rewrite psize_pair, !lsize_cons in Hsz. cbn [lsize] in Hsz. lia.
Qed.


Lemma safe_value' p : isok R_Value ANon p -> safe (build_value inp file p).
Proof. intros H. eapply safe_value; [apply Nat.le_refl|exact H]. Qed.

Ltac by_isok := first [eassumption | apply isok_intro; eassumption].

(** *** value.rs build_arguments *)
Lemma safe_arguments p : isok R_Arguments ANon p -> safe (build_arguments inp file p).
Proof.
  intros H. open_pair p H. steps.
  match goal with H : Shape.gent _ _ _ _ _ (Plus (Call R_Argument)) _ _ |- _ =>
    apply (plus_call_isok true ANon R_Argument eq_refl) in H; rename H into Hk end.
  unfold build_arguments, all_children. cbn [pair_kids]. rewrite (forall_isok_is_rule _ _ _ Hk).
  apply safe_bind; [|intros; exact I].
  apply safe_mapM. eapply Forall_impl; [|exact Hk]. intros x Hf.
  open_pair x Hf. steps. cbn [pair_kids slot_req is_rule pair_rule rule_eqb].
  apply safe_bind; [apply safe_value'; by_isok|intros; exact I].
Qed.

(** *** directives.rs build_directives *)
Lemma safe_directives p : isok R_Directives ANon p -> safe (build_directives inp file p).
Proof.
  intros H. open_pair p H.
  match goal with H : Shape.gent _ _ _ _ _ (Plus (Call R_Directive)) _ _ |- _ =>
    apply (plus_call_isok true ANon R_Directive eq_refl) in H; rename H into Hk end.
  unfold build_directives, all_children. cbn [pair_kids]. rewrite (forall_isok_is_rule _ _ _ Hk).
  apply safe_mapM. eapply Forall_impl; [|exact Hk]. intros x Hf.
  open_pair x Hf. steps; cbn [pair_kids slot_req slot_opt is_rule pair_rule rule_eqb].
  - apply safe_bind; [|intros; exact I].
    apply safe_omapM. intros y Hy. inv Hy. apply safe_arguments. by_isok.
  - apply safe_bind; [exact I|intros; exact I].
Qed.

Lemma safe_directives_opt o : (forall d, o = Some d -> isok R_Directives ANon d) -> safe (build_directives_opt inp file o).
Proof. destruct o as [d|]; intros H; cbn [build_directives_opt]; [apply safe_directives; apply H; reflexivity|exact I]. Qed.

(** *** type.rs build_type_of / build_type *)
Lemma bto_nonnull s e c : (pair_rule c = R_NamedType \/ pair_rule c = R_ListType) ->
  build_type_of inp file (Pair R_NonNullType s e [c]) = bbind (build_type_of inp file c) (fun t => BOk (TNonNull t)).
Proof. intros [H|H]; cbn [build_type_of]; rewrite H; reflexivity. Qed.

Lemma bto_list s e r' s' e' c2 :
  build_type_of inp file (Pair R_ListType s e [Pair r' s' e' [c2]]) =
  bbind (build_type_of inp file c2) (fun t => BOk (TList (to_pos inp file (Pair R_ListType s e [Pair r' s' e' [c2]])) t)).
Proof. reflexivity. Qed.

Lemma safe_type_of : forall n p, (psize p <= n)%nat ->
  isok R_NonNullType ANon p \/ isok R_ListType ANon p \/ isok R_NamedType ANon p ->
  safe (build_type_of inp file p).
Proof.
  induction n as [|n IH]; intros p Hn H; [destruct p; cbn in Hn; lia|].
  destruct H as [H|[H|H]]; open_pair p H; steps.
  - rewrite bto_nonnull by (left; reflexivity).
    apply safe_bind; [|intros; exact I]. apply IH; [rewrite !psize_pair, !lsize_cons in Hn; lia|].
    right; right. by_isok.
  - rewrite bto_nonnull by (right; reflexivity).
    apply safe_bind; [|intros; exact I]. apply IH; [rewrite !psize_pair, !lsize_cons in Hn; lia|].
    right; left. by_isok.
  - (* ListType: the child is a Type pair with exactly one child *)
    open_kid R_Type. steps; rewrite bto_list; (apply safe_bind; [|intros; exact I]);
      (apply IH; [rewrite !psize_pair, !lsize_cons in Hn; cbn [lsize] in Hn; rewrite !psize_pair, !lsize_cons in Hn; lia|]).
    + left. by_isok.
    + right; right. by_isok.
    + right; left. by_isok.
  - cbn [build_type_of]. exact I.
Qed.

Lemma safe_type p : isok R_Type ANon p -> safe (build_type inp file p).
Proof.
  intros H. open_pair p H. steps; unfold build_type; cbn [only_child pair_kids];
    (eapply safe_type_of; [apply Nat.le_refl|]).
  - left. by_isok.
  - right; right. by_isok.
  - right; left. by_isok.
Qed.

Lemma safe_type_condition p : isok R_TypeCondition ANon p -> safe (build_type_condition inp file p).
Proof.
  intros H. open_pair p H. steps. unfold build_type_condition. cbn [pair_kids slot_req is_rule pair_rule rule_eqb]. exact I.
Qed.


(** *** selection_set.rs build_selection_set: one step of the recursion, with the recursive call abstracted *)
Definition sel_step (rec : pr -> bres selset) (sp : pr) : bres selection :=
  match sp with
  | Pair _ _ _ [c] =>
    match c with
    | Pair R_Field _ _ fk =>
        slot_opt R_Alias fk (fun alias fk =>
        slot_req R_Name fk (fun name fk =>
        slot_opt R_Arguments fk (fun args fk =>
        slot_opt R_Directives fk (fun dirs fk =>
        slot_opt R_SelectionSet fk (fun ss _ =>
          al <- omapM (fun a => only_child a (fun n => BOk (to_ident inp file n))) alias ;;
          ar <- omapM (build_arguments inp file) args ;;
          ds <- build_directives_opt inp file dirs ;;
          sub <- match ss with
                 | Some s => r <- rec s ;; BOk (Some r)
                 | None => BOk None
                 end ;;
          BOk (SField al (to_ident inp file name) ar ds sub))))))
    | Pair R_FragmentSpread _ _ fk =>
        let position := to_pos inp file c in
        slot_req R_FragmentName fk (fun name fk =>
        slot_opt R_Directives fk (fun dirs _ =>
          ds <- build_directives_opt inp file dirs ;;
          BOk (SSpread position (to_ident inp file name) ds)))
    | Pair R_InlineFragment _ _ fk =>
        let position := to_pos inp file c in
        slot_opt R_TypeCondition fk (fun tc fk =>
        slot_opt R_Directives fk (fun dirs fk =>
        slot_req R_SelectionSet fk (fun ss _ =>
          cond <- omapM (build_type_condition inp file) tc ;;
          ds <- build_directives_opt inp file dirs ;;
          sub <- rec ss ;;
          BOk (SInline position cond ds sub))))
    | _ => BPanic P_shape
    end
  | _ => BPanic P_shape
  end.

Lemma bss_unfold r s e kids :
  build_selection_set inp file (Pair r s e kids) =
  if forallb (is_rule R_Selection) kids then
    sels <- mapM (sel_step (build_selection_set inp file)) kids ;;
    BOk (SelSet (to_pos inp file (Pair r s e kids)) sels)
  else BPanic P_shape.
Proof. reflexivity. Qed.

(** run the [parts!] slots of a builder on a child list whose head rules are known *)
Ltac slots :=
  repeat (cbn [sel_step slot_opt slot_req only_child pair_kids all_children forallb andb];
          match goal with
          | |- context [is_rule ?r (Pair ?r' ?s ?e ?k)] =>
              let b := eval vm_compute in (rule_eqb r' r) in change (is_rule r (Pair r' s e k)) with b
          end);
  cbn [sel_step slot_opt slot_req only_child pair_kids all_children forallb andb].

Lemma safe_default_value p : isok R_DefaultValue ANon p -> safe (build_default_value inp file p).
Proof. intros H. open_pair p H. steps. unfold build_default_value. slots. apply safe_value'. by_isok. Qed.

Ltac solve_safe :=
  match goal with
  | |- safe (BOk _) => exact I
  | |- safe (bbind _ _) => apply safe_bind; [solve_safe|intros ? _; solve_safe]
  | |- safe (omapM _ None) => exact I
  | |- safe (omapM _ (Some _)) => apply safe_omapM; let y := fresh in let Hy := fresh in intros y Hy; inv Hy; solve_safe
  | |- safe (build_directives_opt _ _ None) => exact I
  | |- safe (build_directives_opt _ _ (Some _)) => cbn [build_directives_opt]; solve_safe
  | |- safe (build_arguments _ _ _) => apply safe_arguments; by_isok
  | |- safe (build_directives _ _ _) => apply safe_directives; by_isok
  | |- safe (build_type_condition _ _ _) => apply safe_type_condition; by_isok
  | |- safe (build_type _ _ _) => apply safe_type; by_isok
  | |- safe (build_value _ _ _) => apply safe_value'; by_isok
  | |- safe (build_default_value _ _ _) => apply safe_default_value; by_isok
  | |- safe (build_variable _ _ _) => apply safe_variable; by_isok
  | |- safe (build_string_value _ _ _) => eapply safe_string_value; by_isok
  | |- safe (only_child (Pair _ _ _ [_]) _) => cbn [only_child pair_kids]; solve_safe
  end.

Lemma safe_selection_set : forall n p, (psize p <= n)%nat -> isok R_SelectionSet ANon p ->
  safe (build_selection_set inp file p).
Proof.
  induction n as [|n IH]; intros p Hn H; [destruct p; cbn in Hn; lia|].
  open_pair p H. steps.
  match goal with H : Shape.gent _ _ _ _ _ (Plus (Call R_Selection)) _ _ |- _ =>
    apply (plus_call_isok true ANon R_Selection eq_refl) in H; rename H into Hk end.
  rewrite bss_unfold, (forall_isok_is_rule _ _ _ Hk). apply safe_bind; [|intros; exact I].
  apply safe_mapM. rewrite Forall_forall in *. intros x Hx. pose proof (Hk x Hx) as Hf.
  pose proof (lsize_in _ _ Hx) as Hsz. rewrite psize_pair in Hn.
  assert (Hrec : forall q, isok R_SelectionSet ANon q -> (psize q < psize x)%nat -> safe (build_selection_set inp file q)).
  { intros q Hq Hlt. apply IH; [lia|exact Hq]. }
  clear Hk Hx Hn Hsz IH.
  open_pair x Hf. steps.
  - (* Field *)
    open_kid R_Field.
    steps; try (open_kid R_Alias; steps); slots;
      repeat (apply safe_bind; [|intros ? _]); try solve_safe;
      try (apply Hrec; [by_isok|cbn [psize]; lia]).
  - (* FragmentSpread *)
    open_kid R_FragmentSpread.
    steps; slots; solve_safe.
  - (* InlineFragment *)
    open_kid R_InlineFragment.
    steps; slots;
      repeat (apply safe_bind; [|intros ? _]); try solve_safe;
      try (apply Hrec; [by_isok|cbn [psize]; lia]).
Qed.


Lemma safe_selection_set' p : isok R_SelectionSet ANon p -> safe (build_selection_set inp file p).
Proof. intros H. eapply safe_selection_set; [apply Nat.le_refl|exact H]. Qed.

(** *** operation.rs: variable definitions *)
Lemma safe_variable_definition p : isok R_VariableDefinition ANon p -> safe (build_variable_definition inp file p).
Proof.
  intros H. open_pair p H. steps; unfold build_variable_definition; slots;
    repeat (apply safe_bind; [|intros ? _]); solve_safe.
Qed.

Lemma safe_variables_definition p : isok R_VariablesDefinition ANon p -> safe (build_variables_definition inp file p).
Proof.
  intros H. open_pair p H. steps.
  match goal with H : Shape.gent _ _ _ _ _ (Plus (Call R_VariableDefinition)) _ _ |- _ =>
    apply (plus_call_isok true ANon R_VariableDefinition eq_refl) in H; rename H into Hk end.
  unfold build_variables_definition, all_children. cbn [pair_kids]. rewrite (forall_isok_is_rule _ _ _ Hk).
  apply safe_bind; [|intros; exact I].
  apply safe_mapM. eapply Forall_impl; [|exact Hk]. intros x Hf. apply safe_variable_definition. exact Hf.
Qed.

(** the text of an OperationType pair is one of the three keywords *)
Lemma operation_type_text s e kids : okx ANon (Pair R_OperationType s e kids) ->
  safe (str_to_operation_type (as_str inp (Pair R_OperationType s e kids))).
Proof.
  intros H. open_okx H. unfold as_str; cbn [pair_start pair_end].
  steps;
    match goal with
    | Hk : Shape.okx _ _ _ _ (Pair _ _ _ _) |- _ => open_okx Hk; steps
    end;
    repeat match goal with H : _ = substr _ _ _ |- _ => rewrite <- H; clear H end; exact I.
Qed.

Ltac solve_safe2 :=
  first [ solve_safe
        | apply safe_selection_set'; by_isok
        | apply safe_variables_definition; by_isok
        | apply operation_type_text; assumption
        | apply safe_omapM; let y := fresh in let Hy := fresh in intros y Hy; inv Hy; solve_safe2 ].

(** *** operation.rs build_executable_definition *)
Lemma safe_executable_definition p : isok R_ExecutableDefinition ANon p -> safe (build_executable_definition inp file p).
Proof.
  intros H. open_pair p H. steps; unfold build_executable_definition; cbn [only_child pair_kids pair_rule].
  - (* OperationDefinition *)
    open_kid R_OperationDefinition.
    steps; slots; repeat (apply safe_bind; [|intros ? _]); try solve_safe2.
  - (* FragmentDefinition *)
    open_kid R_FragmentDefinition.
    steps; slots; repeat (apply safe_bind; [|intros ? _]); try solve_safe2.
  - (* #import *)
    open_kid R_ext_ImportStatement. steps. slots.
    open_kid R_ext_ImportStatementContent. steps. slots.
    repeat (apply safe_bind; [|intros ? _]); try solve_safe2.
Qed.

Lemma forall_filter {A} (f : A -> bool) (P : A -> Prop) l :
  Forall (fun x => f x = true -> P x) l -> Forall P (filter f l).
Proof.
  induction 1 as [|x l Hx _ IH]; cbn [filter]; [constructor|].
  destruct (f x) eqn:E; [constructor; [apply Hx; reflexivity|exact IH]|exact IH].
Qed.

(** *** builder.rs build_operation_document, on the forest of a successful parse *)
Lemma safe_operation_document ps t :
  gent true ANon (Call R_ExecutableDocument) t ps -> safe (build_operation_document inp file ps).
Proof.
  intros H. inv_call H.
  match goal with H : Shape.okx _ _ _ _ (Pair R_ExecutableDocument _ _ _) |- _ => open_okx H end. steps.
  match goal with H : Shape.gent _ _ _ _ _ (Plus (Call R_ExecutableDefinition)) _ _ |- _ =>
    apply (plus_call_isok true ANon R_ExecutableDefinition eq_refl) in H; rename H into Hk end.
  unfold build_operation_document. cbn [pair_rule pair_kids].
  apply safe_bind; [|intros; exact I].
  apply safe_mapM. apply forall_filter. apply Forall_app. split.
  - eapply Forall_impl; [|exact Hk]. intros x Hx _. apply safe_executable_definition. exact Hx.
  - constructor; [|constructor]. intros Hf. vm_compute in Hf. discriminate Hf.
Qed.


(** ** the type-system half: builder/type_system/*.rs *)

Lemma safe_description p : isok R_Description ANon p -> safe (build_description inp file p).
Proof.
  intros H. open_pair p H. steps. unfold build_description. slots.
  apply safe_bind; [eapply safe_string_value; by_isok|intros; exact I].
Qed.

Lemma safe_description_opt o : (forall d, o = Some d -> isok R_Description ANon d) -> safe (build_description_opt inp file o).
Proof. intros H. unfold build_description_opt. apply safe_omapM. intros x Hx. apply safe_description. apply H. exact Hx. Qed.

Ltac solve_safe3 :=
  first [ solve_safe2
        | apply safe_description_opt; let d := fresh in let Hd := fresh in intros d Hd; inv Hd; by_isok
        | apply safe_description_opt; let d := fresh in let Hd := fresh in intros d Hd; discriminate Hd
        | apply safe_description; by_isok ].

Lemma safe_input_value_definition p : isok R_InputValueDefinition ANon p -> safe (build_input_value_definition inp file p).
Proof.
  intros H. open_pair p H. steps; unfold build_input_value_definition; slots;
    repeat (apply safe_bind; [|intros ? _]); solve_safe3.
Qed.

Lemma safe_ivd_list kids : Forall (isok R_InputValueDefinition ANon) kids ->
  safe (mapM (build_input_value_definition inp file) kids).
Proof. intros Hk. apply safe_mapM. eapply Forall_impl; [|exact Hk]. intros x Hx. apply safe_input_value_definition. exact Hx. Qed.

Lemma safe_arguments_definition p : isok R_ArgumentsDefinition ANon p -> safe (build_arguments_definition inp file p).
Proof.
  intros H. open_pair p H. steps.
  match goal with H : Shape.gent _ _ _ _ _ (Plus (Call R_InputValueDefinition)) _ _ |- _ =>
    apply (plus_call_isok true ANon R_InputValueDefinition eq_refl) in H; rename H into Hk end.
  unfold build_arguments_definition, all_children. cbn [pair_kids]. rewrite (forall_isok_is_rule _ _ _ Hk).
  apply safe_ivd_list. exact Hk.
Qed.

Lemma safe_input_fields_definition p : isok R_InputFieldsDefinition ANon p -> safe (build_input_fields_definition inp file p).
Proof.
  intros H. open_pair p H. steps.
  match goal with H : Shape.gent _ _ _ _ _ (Plus (Call R_InputValueDefinition)) _ _ |- _ =>
    apply (plus_call_isok true ANon R_InputValueDefinition eq_refl) in H; rename H into Hk end.
  unfold build_input_fields_definition, all_children. cbn [pair_kids]. rewrite (forall_isok_is_rule _ _ _ Hk).
  apply safe_ivd_list. exact Hk.
Qed.

Ltac solve_safe4 :=
  first [ solve_safe3
        | apply safe_arguments_definition; by_isok
        | apply safe_input_fields_definition; by_isok
        | apply safe_omapM; let y := fresh in let Hy := fresh in intros y Hy; inv Hy; solve_safe4 ].

Lemma safe_fields_definition p : isok R_FieldsDefinition ANon p -> safe (build_fields_definition inp file p).
Proof.
  intros H. open_pair p H. steps.
  match goal with H : Shape.gent _ _ _ _ _ (Plus (Call R_FieldDefinition)) _ _ |- _ =>
    apply (plus_call_isok true ANon R_FieldDefinition eq_refl) in H; rename H into Hk end.
  unfold build_fields_definition, all_children. cbn [pair_kids]. rewrite (forall_isok_is_rule _ _ _ Hk).
  apply safe_mapM. eapply Forall_impl; [|exact Hk]. intros x Hf.
  open_pair x Hf. steps; slots; repeat (apply safe_bind; [|intros ? _]); solve_safe4.
Qed.

Lemma safe_fields_definition_opt o : (forall d, o = Some d -> isok R_FieldsDefinition ANon d) ->
  safe (build_fields_definition_opt inp file o).
Proof. destruct o as [d|]; intros H; cbn [build_fields_definition_opt]; [apply safe_fields_definition; apply H; reflexivity|exact I]. Qed.

Lemma safe_enum_value_definition p : isok R_EnumValueDefinition ANon p -> safe (build_enum_value_definition inp file p).
Proof.
  intros H. open_pair p H. steps; unfold build_enum_value_definition; slots;
    repeat (apply safe_bind; [|intros ? _]); solve_safe3.
Qed.

Lemma safe_enum_values p : isok R_EnumValuesDefinition ANon p -> safe (build_enum_values_opt inp file (Some p)).
Proof.
  intros H. open_pair p H. steps.
  match goal with H : Shape.gent _ _ _ _ _ (Plus (Call R_EnumValueDefinition)) _ _ |- _ =>
    apply (plus_call_isok true ANon R_EnumValueDefinition eq_refl) in H; rename H into Hk end.
  unfold build_enum_values_opt, all_children. cbn [pair_kids]. rewrite (forall_isok_is_rule _ _ _ Hk).
  apply safe_mapM. eapply Forall_impl; [|exact Hk]. intros x Hx. apply safe_enum_value_definition. exact Hx.
Qed.

(** lists  X (sep X)*  : every recorded pair is an X *)
Lemma sep_list_isok sep r t ps :
  rule_records G r ANon = true ->
  gent true ANon (Star (Seq (Lit sep) (Call r))) t ps -> Forall (isok r ANon) ps.
Proof.
  intros Hr H. eapply star_forall; [|exact H].
  intros t' ps' H'. inv H'.
  repeat match goal with
  | H : Shape.gent _ _ _ _ _ (Lit _) _ _ |- _ => inv H
  | H : Shape.tskip _ _ _ _ _ _ ?p |- _ => apply skip_nopairs in H; subst p
  end. cbn [app]. eapply call_isok; eassumption.
Qed.

Lemma safe_implements p : isok R_ImplementsInterfaces ANon p -> safe (build_implements_interfaces inp file p).
Proof.
  intros H. open_pair p H. steps;
    match goal with H : Shape.gent _ _ _ _ _ (Star (Seq (Lit _) (Call R_NamedType))) _ _ |- _ =>
      apply (sep_list_isok _ R_NamedType _ _ eq_refl) in H; rename H into Hk end;
    unfold build_implements_interfaces; cbn [pair_kids]; slots;
    apply safe_mapM; constructor;
      try (match goal with |- safe (if is_rule _ _ then _ else _) => slots; exact I end);
      (eapply Forall_impl; [|exact Hk]); intros x Hx; rewrite (isok_is_rule _ _ _ Hx); exact I.
Qed.

Lemma safe_implements_opt o : (forall d, o = Some d -> isok R_ImplementsInterfaces ANon d) ->
  safe (build_implements_opt inp file o).
Proof. destruct o as [d|]; intros H; cbn [build_implements_opt]; [apply safe_implements; apply H; reflexivity|exact I]. Qed.

Lemma safe_union_members p : isok R_UnionMemberTypes ANon p -> safe (build_union_members_opt inp file (Some p)).
Proof.
  intros H. open_pair p H. steps;
    match goal with H : Shape.gent _ _ _ _ _ (Star (Seq (Lit _) (Call R_NamedType))) _ _ |- _ =>
      apply (sep_list_isok _ R_NamedType _ _ eq_refl) in H; rename H into Hk end;
    unfold build_union_members_opt, all_children; cbn [pair_kids forallb]; slots;
    rewrite (forall_isok_is_rule _ _ _ Hk); exact I.
Qed.

Ltac solve_safe5 :=
  first [ solve_safe4
        | exact I
        | apply safe_fields_definition_opt; let d := fresh in let Hd := fresh in intros d Hd; first [discriminate Hd | inv Hd; by_isok]
        | apply safe_implements_opt; let d := fresh in let Hd := fresh in intros d Hd; first [discriminate Hd | inv Hd; by_isok]
        | apply safe_enum_values; by_isok
        | apply safe_union_members; by_isok
        | apply safe_input_fields_definition; by_isok ].

Lemma safe_type_definition p : isok R_TypeDefinition ANon p -> safe (build_type_definition inp file p).
Proof.
  intros H. open_pair p H. steps; unfold build_type_definition; cbn [only_child pair_kids pair_rule].
  - open_kid R_ScalarTypeDefinition. steps; slots; repeat (apply safe_bind; [|intros ? _]); solve_safe5.
  - open_kid R_ObjectTypeDefinition. steps; slots; repeat (apply safe_bind; [|intros ? _]); solve_safe5.
  - open_kid R_InterfaceTypeDefinition. steps; slots; repeat (apply safe_bind; [|intros ? _]); solve_safe5.
  - open_kid R_UnionTypeDefinition. steps; slots; repeat (apply safe_bind; [|intros ? _]); solve_safe5.
  - open_kid R_EnumTypeDefinition. steps; slots; repeat (apply safe_bind; [|intros ? _]); solve_safe5.
  - open_kid R_InputObjectTypeDefinition. steps; slots; repeat (apply safe_bind; [|intros ? _]); solve_safe5.
Qed.

Lemma safe_type_extension p : isok R_TypeExtension ANon p -> safe (build_type_extension inp file p).
Proof.
  intros H. open_pair p H. steps; unfold build_type_extension; cbn [only_child pair_kids pair_rule].
  - open_kid R_ScalarTypeExtension. steps; slots; repeat (apply safe_bind; [|intros ? _]); solve_safe5.
  - open_kid R_ObjectTypeExtension. steps; slots; repeat (apply safe_bind; [|intros ? _]); solve_safe5.
  - open_kid R_InterfaceTypeExtension. steps; slots; repeat (apply safe_bind; [|intros ? _]); solve_safe5.
  - open_kid R_UnionTypeExtension. steps; slots; repeat (apply safe_bind; [|intros ? _]); solve_safe5.
  - open_kid R_EnumTypeExtension. steps; slots; repeat (apply safe_bind; [|intros ? _]); solve_safe5.
  - open_kid R_InputObjectTypeExtension. steps; slots; repeat (apply safe_bind; [|intros ? _]); solve_safe5.
Qed.

Lemma safe_root_operation_types p : isok R_RootOperationTypeDefinitions ANon p ->
  safe (build_root_operation_type_definitions inp file p).
Proof.
  intros H. open_pair p H. steps.
  match goal with H : Shape.gent _ _ _ _ _ (Plus (Call R_RootOperationTypeDefinition)) _ _ |- _ =>
    apply (plus_call_isok true ANon R_RootOperationTypeDefinition eq_refl) in H; rename H into Hk end.
  unfold build_root_operation_type_definitions, all_children. cbn [pair_kids]. rewrite (forall_isok_is_rule _ _ _ Hk).
  apply safe_mapM. eapply Forall_impl; [|exact Hk]. intros x Hf.
  open_pair x Hf. steps. slots. apply safe_bind; [apply operation_type_text; assumption|intros; exact I].
Qed.

Lemma safe_schema_definition p : isok R_SchemaDefinition ANon p -> safe (build_schema_definition inp file p).
Proof.
  intros H. open_pair p H. steps; unfold build_schema_definition; slots;
    repeat (apply safe_bind; [|intros ? _]); first [apply safe_root_operation_types; by_isok | solve_safe5].
Qed.

Lemma safe_schema_extension p : isok R_SchemaExtension ANon p -> safe (build_schema_extension inp file p).
Proof.
  intros H. open_pair p H. steps; unfold build_schema_extension; slots;
    repeat (apply safe_bind; [|intros ? _]); first [apply safe_root_operation_types; by_isok | solve_safe5].
Qed.

Lemma safe_directive_locations s e kids : okx ANon (Pair R_DirectiveLocations s e kids) ->
  forallb (is_rule R_DirectiveLocation) kids = true.
Proof.
  intros H. open_okx H. steps;
    match goal with H : Shape.gent _ _ _ _ _ (Star (Seq (Lit _) (Call R_DirectiveLocation))) _ _ |- _ =>
      apply (sep_list_isok _ R_DirectiveLocation _ _ eq_refl) in H; rename H into Hk end;
    cbn [forallb]; slots; apply (forall_isok_is_rule _ _ _ Hk).
Qed.

Lemma safe_directive_definition p : isok R_DirectiveDefinition ANon p -> safe (build_directive_definition inp file p).
Proof.
  intros H. open_pair p H. steps; unfold build_directive_definition; slots;
    repeat (apply safe_bind; [|intros ? _]);
    first [ solve_safe5
          | unfold all_children; cbn [pair_kids];
            match goal with H : Shape.okx _ _ _ _ (Pair R_DirectiveLocations _ _ _) |- _ => rewrite (safe_directive_locations _ _ _ H) end; exact I ].
Qed.

Lemma safe_ts_definition_or_extension p : isok R_TypeSystemDefinitionOrExtension ANon p ->
  safe (build_type_system_definition_or_extension inp file p).
Proof.
  intros H. open_pair p H. steps; unfold build_type_system_definition_or_extension; cbn [only_child pair_kids pair_rule].
  - open_kid R_TypeSystemDefinition. steps; cbn [only_child pair_kids pair_rule];
      (apply safe_bind; [|intros; exact I]);
      first [apply safe_schema_definition; by_isok | apply safe_type_definition; by_isok | apply safe_directive_definition; by_isok].
  - open_kid R_TypeSystemExtension. steps; cbn [only_child pair_kids pair_rule];
      (apply safe_bind; [|intros; exact I]);
      first [apply safe_schema_extension; by_isok | apply safe_type_extension; by_isok].
Qed.

Lemma safe_type_system_document ps t :
  gent true ANon (Call R_TypeSystemExtensionDocument) t ps -> safe (build_type_system_document inp file ps).
Proof.
  intros H. inv_call H.
  match goal with H : Shape.okx _ _ _ _ (Pair R_TypeSystemExtensionDocument _ _ _) |- _ => open_okx H end. steps.
  match goal with H : Shape.gent _ _ _ _ _ (Plus (Call R_TypeSystemDefinitionOrExtension)) _ _ |- _ =>
    apply (plus_call_isok true ANon R_TypeSystemDefinitionOrExtension eq_refl) in H; rename H into Hk end.
  unfold build_type_system_document. cbn [pair_rule pair_kids].
  apply safe_mapM. apply forall_filter. apply Forall_app. split.
  - eapply Forall_impl; [|exact Hk]. intros x Hx _. apply safe_ts_definition_or_extension. exact Hx.
  - constructor; [|constructor]. intros Hf. vm_compute in Hf. discriminate Hf.
Qed.

End Safe.

(** ** the validation pass (parser/mod.rs validate_string_values, C07.Model.validate_pair) *)
Section Validate.
Variable inp : str.
Notation T := (fun _ : pr => True).

Lemma vp_unfold r s e kids :
  validate_pair inp (Pair r s e kids) =
  match (match r with
         | R_NormalStringValue =>
             match decode_string_characters inp (Pair r s e kids) with DOk _ => VOk | DErr _ => VErr | DPanic k => VPanic k end
         | _ => VOk
         end) with
  | VOk => validate_string_values inp kids
  | e0 => e0
  end.
Proof.
  cbn [validate_pair].
  match goal with |- match ?x with _ => _ end = _ => destruct x; try reflexivity end.
  induction kids as [|x l IH]; [reflexivity|]. cbn [validate_string_values]. destruct (validate_pair inp x); try reflexivity. exact IH.
Qed.

(** validation accepted the forest: every NormalStringValue pair in it decodes *)
Lemma validate_list_ok n :
  (forall p, (psize p <= n)%nat -> validate_pair inp p = VOk -> allp (decodes inp) p) ->
  forall l, (lsize l <= n)%nat -> validate_string_values inp l = VOk -> Forall (allp (decodes inp)) l.
Proof.
  intros Hp. induction l as [|x l IH]; intros Hn Hv; [constructor|].
  cbn [validate_string_values] in Hv. rewrite lsize_cons in Hn.
  destruct (validate_pair inp x) eqn:Hx; try discriminate.
  constructor; [apply Hp; [lia|exact Hx]|apply IH; [lia|exact Hv]].
Qed.

Lemma validate_pair_ok : forall n p, (psize p <= n)%nat -> validate_pair inp p = VOk -> allp (decodes inp) p.
Proof.
  induction n as [|n IH]; intros [r s e kids] Hn Hv; [cbn in Hn; lia|].
  rewrite vp_unfold in Hv. rewrite psize_pair in Hn.
  constructor.
  - intros Hr. cbn [pair_rule] in Hr. subst r.
    destruct (decode_string_characters inp (Pair R_NormalStringValue s e kids)) as [v|b|k]; [eexists; reflexivity|discriminate|discriminate].
  - apply (validate_list_ok n IH); [lia|].
    destruct r; try exact Hv;
      destruct (decode_string_characters inp (Pair R_NormalStringValue s e kids)); try discriminate; exact Hv.
Qed.

Lemma validate_ok_allp l : validate_string_values inp l = VOk -> Forall (allp (decodes inp)) l.
Proof. apply (validate_list_ok (lsize l) (validate_pair_ok (lsize l))). apply Nat.le_refl. Qed.

(** ... and on the forest of a parse it never reaches a panic of the decoder *)
Notation shaped := (allp (fun q => exists a, Shape.okx G inp T a q)).

Lemma validate_list_np n :
  (forall p, (psize p <= n)%nat -> shaped p -> forall k, validate_pair inp p <> VPanic k) ->
  forall l, (lsize l <= n)%nat -> Forall shaped l -> forall k, validate_string_values inp l <> VPanic k.
Proof.
  intros Hp. induction l as [|x l IH]; intros Hn Ha k; [discriminate|].
  cbn [validate_string_values]. rewrite lsize_cons in Hn. inversion Ha as [|? ? Hx Hl]; subst.
  pose proof (Hp x ltac:(lia) Hx) as Hpx.
  destruct (validate_pair inp x) as [| |k'] eqn:E; [apply IH; [lia|exact Hl]|discriminate|].
  exfalso. exact (Hpx k' eq_refl).
Qed.

Lemma validate_pair_np : forall n p, (psize p <= n)%nat -> shaped p -> forall k, validate_pair inp p <> VPanic k.
Proof.
  induction n as [|n IH]; intros [r s e kids] Hn Ha k; [cbn in Hn; lia|].
  rewrite vp_unfold. rewrite psize_pair in Hn.
  inversion Ha as [? ? ? ? [a Hok] Hkids]; subst.
  assert (Hk : validate_string_values inp kids <> VPanic k) by (apply (validate_list_np n IH); [lia|exact Hkids]).
  destruct r; try exact Hk.
  pose proof (decode_no_panic inp T a s e kids Hok) as Hd.
  destruct (decode_string_characters inp (Pair R_NormalStringValue s e kids)) as [v|b|k']; [exact Hk|discriminate|].
  exfalso. exact (Hd k' eq_refl).
Qed.

Lemma validate_no_panic l : Forall shaped l -> forall k, validate_string_values inp l <> VPanic k.
Proof. apply (validate_list_np (lsize l) (validate_pair_np (lsize l))). apply Nat.le_refl. Qed.
End Validate.

Lemma pp_unfold start inp : parse_pairs start inp = parse_with G (default_fuel inp) start inp.
Proof. reflexivity. Qed.

Lemma pod_unfold file inp :
  parse_operation_document file inp =
  match parse_pairs R_ExecutableDocument inp with
  | Ok ps => after_validation inp ps (of_bres (build_operation_document inp file ps))
  | Fail => PErr
  | OutOfFuel => PFuel
  end.
Proof. reflexivity. Qed.

Lemma ptd_unfold file inp :
  parse_type_system_document file inp =
  match parse_pairs R_TypeSystemExtensionDocument inp with
  | Ok ps => after_validation inp ps (of_bres (build_type_system_document inp file ps))
  | Fail => PErr
  | OutOfFuel => PFuel
  end.
Proof. reflexivity. Qed.

Local Opaque parse_pairs parse_with.

(** validation + building on the forest of a successful parse never panic *)
Lemma after_validation_no_panic {A} inp start t ps (b : bres A) :
  Shape.gent G inp (fun _ => True) true ANon (Call start) t ps ->
  (Shape.gent G inp (decodes inp) true ANon (Call start) t ps -> safe b) ->
  forall k, after_validation inp ps (of_bres b) <> PPanic k.
Proof.
  intros Hg Hb k. unfold after_validation.
  destruct (validate_string_values inp ps) as [| |k'] eqn:V.
  - assert (Hall : Forall (allp (decodes inp)) ps) by (apply validate_ok_allp; exact V).
    pose proof (Hb (proj1 (gent_upgrade G inp (decodes inp)) _ _ _ _ _ Hg Hall)) as Hs.
    destruct b; [discriminate|contradiction].
  - discriminate.
  - exfalso. eapply validate_no_panic; [|exact V].
    exact (proj1 (gent_allp_okx G inp) _ _ _ _ _ Hg).
Qed.

(** for every text the parser model returns a document or a parse error: NO panic of the builder or of the
    string decoder is reachable (since /repo a4a3647 invalid unicode escapes are parse errors) *)
Theorem builder_shapes_ok : forall inp file k, parse_operation_document file inp <> PPanic k.
Proof.
  intros inp file k. rewrite pod_unfold.
  destruct (parse_pairs R_ExecutableDocument inp) as [ps| |] eqn:E; try discriminate.
  rewrite pp_unfold in E. destruct (parse_gent _ _ _ _ E) as [t Hg].
  apply (after_validation_no_panic inp R_ExecutableDocument t ps _ Hg).
  intros Hd. exact (safe_operation_document inp file (decodes inp) (fun q H => H) ps t Hd).
Qed.

Theorem builder_shapes_ok_ts : forall inp file k, parse_type_system_document file inp <> PPanic k.
Proof.
  intros inp file k. rewrite ptd_unfold.
  destruct (parse_pairs R_TypeSystemExtensionDocument inp) as [ps| |] eqn:E; try discriminate.
  rewrite pp_unfold in E. destruct (parse_gent _ _ _ _ E) as [t Hg].
  apply (after_validation_no_panic inp R_TypeSystemExtensionDocument t ps _ Hg).
  intros Hd. exact (safe_type_system_document inp file (decodes inp) (fun q H => H) ps t Hd).
Qed.
