(** C08 — unicode escapes in string values (builder/value.rs decode_string_characters + parser/mod.rs
    validate_string_values, since /repo a4a3647): an escape that does not denote a Unicode scalar value is a
    parse error, a surrogate pair of \uXXXX escapes is one character; nothing panics
    (the general statement is builder_shapes_ok in ProofsShape.v; here the witnesses that used to panic). *)
From V Require Import Base.Util Gql.Ast Peg.Peg Gen.C07_grammar_gen C07.Builder C07.Model C08.Model C08.Spec.
Local Open Scope N_scope.

Definition w_lone_surrogate : str := s "{ a(s: ""\uD800"") }".
Definition w_trailing_first : str := s "{ a(s: ""\uDC00\uD800"") }".
Definition w_above_max : str := s "{ a(s: ""\u{110000}"") }".
Definition w_overflow : str := s "{ a(s: ""\u{100000000}"") }".
Definition w_long_but_small : str := s "{ a(s: ""\u{0000000041}"") }".
Definition w_surrogate_pair : str := s "{ a(s: ""\uD83D\uDE00"") }".
Definition w_description : str := s """\uDFFF"" type Query { a: Int }".

(** the former panic witnesses are parse errors now (outcome class 1 = Err(ParseError)) *)
Lemma escape_errors_are_diagnostics :
  parse_class false w_lone_surrogate = 1 /\
  parse_class false w_trailing_first = 1 /\
  parse_class false w_above_max = 1 /\
  parse_class false w_overflow = 1 /\
  parse_class true w_description = 1.
Proof. repeat split; vm_compute; reflexivity. Qed.

(** ... and what denotes a character parses: many digits with a small value, a surrogate pair *)
Lemma escape_characters_parse :
  parse_class false w_long_but_small = 0 /\ parse_class false w_surrogate_pair = 0.
Proof. split; vm_compute; reflexivity. Qed.

(** the u32 subtractions of the surrogate-pair arithmetic ([leading - 0xd800], [trailing - 0xdc00]) are taken
    under the range tests on the same values *)
Lemma surrogate_sub_ok c :
  (is_leading_surrogate c = true -> 55296 <= c) /\ (is_trailing_surrogate c = true -> 56320 <= c).
Proof.
  unfold is_leading_surrogate, is_trailing_surrogate. split; intros H; apply andb_true_iff in H; destruct H as [H _];
    apply N.leb_le in H; exact H.
Qed.
