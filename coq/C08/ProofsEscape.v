(** C08 — the value-level panic sites of builder/value.rs: [char::from_u32(code).expect(..)] and
    [u32::from_str_radix(digits, 16).unwrap()], on C07's model of them ([code_to_char]). *)
From V Require Import Base.Util Gql.Ast Peg.Peg Gen.C07_grammar_gen C07.Builder C07.Model C08.Model C08.Spec.
Local Open Scope N_scope.

Definition is_hex (c : N) : bool := match hex_digit c with Some _ => true | None => false end.
Definition digit_of (c : N) : N := match hex_digit c with Some d => d | None => 0 end.

(** the number a digit string denotes, without any width limit *)
Definition hexval_from (l : str) (acc : N) : N := fold_left (fun a c => a * 16 + digit_of c) l acc.
Definition hexval (l : str) : N := hexval_from l 0.

Lemma hexval_from_ge : forall l acc, acc <= hexval_from l acc.
Proof.
  induction l as [|c r IH]; intros acc; cbn [hexval_from fold_left]; [lia|].
  etransitivity; [|apply IH]. lia.
Qed.

Lemma hexval_from_cons c r acc : hexval_from (c :: r) acc = hexval_from r (acc * 16 + digit_of c).
Proof. reflexivity. Qed.

Lemma hex_acc_spec : forall l acc, forallb is_hex l = true -> acc < 4294967296 ->
  hex_acc l acc = if hexval_from l acc <? 4294967296 then Some (hexval_from l acc) else None.
Proof.
  induction l as [|c r IH]; intros acc H Hacc.
  - cbn [hex_acc]. unfold hexval_from. cbn [fold_left].
    destruct (acc <? 4294967296) eqn:E; [reflexivity|apply N.ltb_ge in E; lia].
  - cbn [forallb] in H. apply andb_true_iff in H. destruct H as [Hc Hr].
    rewrite hexval_from_cons. cbn [hex_acc].
    unfold is_hex in Hc. unfold digit_of. destruct (hex_digit c) as [d|] eqn:Ed; [|discriminate].
    destruct (acc * 16 + d <? 4294967296) eqn:Ev.
    + apply IH; [exact Hr|apply N.ltb_lt in Ev; exact Ev].
    + pose proof (hexval_from_ge r (acc * 16 + d)) as Hge. apply N.ltb_ge in Ev.
      destruct (hexval_from r (acc * 16 + d) <? 4294967296) eqn:E2; [apply N.ltb_lt in E2; lia|reflexivity].
Qed.

(** u32::from_str_radix on a non-empty string of hex digits: Ok(value) iff the value fits 32 bits *)
Lemma u32_from_hex_spec ds : ds <> [] -> forallb is_hex ds = true ->
  u32_from_hex ds = if hexval ds <? 4294967296 then Some (hexval ds) else None.
Proof.
  intros Hne Hh. unfold u32_from_hex, hexval. destruct ds as [|c r]; [congruence|].
  apply hex_acc_spec; [exact Hh|lia].
Qed.

(** escapes that denote a Unicode scalar value are decoded to it *)
Theorem escape_total_partial : forall ds,
  ds <> [] -> forallb is_hex ds = true -> is_scalar_value (hexval ds) = true ->
  code_to_char ds = BOk (hexval ds).
Proof.
  intros ds Hne Hh Hs. unfold code_to_char. rewrite (u32_from_hex_spec ds Hne Hh).
  unfold is_scalar_value in Hs.
  assert (Hlt : hexval ds < 1114112).
  { apply orb_true_iff in Hs. destruct Hs as [H|H]; [apply N.ltb_lt in H; lia|].
    apply andb_true_iff in H. destruct H as [_ H]. apply N.ltb_lt in H. exact H. }
  destruct (hexval ds <? 4294967296) eqn:E; [|apply N.ltb_ge in E; lia].
  unfold char_from_u32.
  destruct (hexval ds <? 55296) eqn:E1; [reflexivity|].
  cbn [orb] in Hs. apply andb_true_iff in Hs. destruct Hs as [H2 H3].
  destruct (hexval ds <? 57344) eqn:E2; [apply N.ltb_lt in E2; apply N.leb_le in H2; lia|].
  rewrite H3. reflexivity.
Qed.

(** ... and every other escape the grammar admits panics: exactly which panic, for which values *)
Theorem escape_panic_iff : forall ds k,
  ds <> [] -> forallb is_hex ds = true ->
  (code_to_char ds = BPanic k <->
   (k = P_radix /\ 4294967296 <= hexval ds) \/
   (k = P_char /\ hexval ds < 4294967296 /\ is_scalar_value (hexval ds) = false)).
Proof.
  intros ds k Hne Hh. unfold code_to_char. rewrite (u32_from_hex_spec ds Hne Hh).
  destruct (hexval ds <? 4294967296) eqn:E.
  - apply N.ltb_lt in E. unfold char_from_u32, is_scalar_value.
    destruct (hexval ds <? 55296) eqn:E1; cbn [orb].
    + split; [discriminate|]. intros [[_ H]|[_ [_ H]]]; [lia|discriminate].
    + destruct (hexval ds <? 57344) eqn:E2.
      * assert (E3 : 57344 <=? hexval ds = false) by (apply N.leb_gt; apply N.ltb_lt in E2; exact E2).
        rewrite E3. cbn [andb]. split.
        -- intros H. inversion H. right. repeat split; auto.
        -- intros [[-> H]|[-> _]]; [lia|reflexivity].
      * assert (E3 : 57344 <=? hexval ds = true) by (apply N.leb_le; apply N.ltb_ge in E2; exact E2).
        rewrite E3. cbn [andb]. destruct (hexval ds <? 1114112) eqn:E4.
        -- split; [discriminate|]. intros [[_ H]|[_ [_ H]]]; [lia|discriminate].
        -- split.
           ++ intros H. inversion H. right. repeat split; auto.
           ++ intros [[-> H]|[-> _]]; [lia|reflexivity].
  - apply N.ltb_ge in E. split.
    + intros H. inversion H. left. split; [reflexivity|exact E].
    + intros [[-> _]|[_ [H _]]]; [reflexivity|lia].
Qed.

(** witnesses on whole documents, through the parser model: the escapes the property text names *)
Definition w_lone_surrogate : str := s "{ a(s: ""\uD800"") }".
Definition w_above_max : str := s "{ a(s: ""\u{110000}"") }".
Definition w_overflow : str := s "{ a(s: ""\u{100000000}"") }".
Definition w_long_but_small : str := s "{ a(s: ""\u{0000000041}"") }".
Definition w_description : str := s """\uDFFF"" type Query { a: Int }".

Lemma escape_total_refuted :
  parse_class false w_lone_surrogate = 10 + P_char /\
  parse_class false w_above_max = 10 + P_char /\
  parse_class false w_overflow = 10 + P_radix /\
  parse_class true w_description = 10 + P_char.
Proof. repeat split; vm_compute; reflexivity. Qed.

(** more than eight hex digits are fine as long as the value is small: the digit count is not the cause *)
Example escape_many_digits_ok : parse_class false w_long_but_small = 0.
Proof. vm_compute. reflexivity. Qed.

Example escape_total_partial_example :
  code_to_char (s "1F600") = BOk 128512 /\ is_scalar_value (hexval (s "1F600")) = true.
Proof. split; reflexivity. Qed.
