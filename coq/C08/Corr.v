(** C08 — correspondence cases and the spec-side predicate on the implementation's outputs. *)
From V Require Import Base.Util C08.Model C08.Spec.
Local Open Scope N_scope.

Inductive case :=
| CRender (files : list (str * str)) (pos : option rpos) (msg : str) (addl : list (rpos * str))
          (out : option str)                      (* print_positioned_error; None = it panicked *)
| CParse (type_system : bool) (text : str) (oc : N)   (* outcome class of the parser, see Model.class_of *)
| CWs (l : list N).                               (* every c with char::is_whitespace(c), ascending *)

Definition rres_eqb (a : rres str) (b : option str) : bool :=
  match a, b with
  | ROk x, Some y => str_eqb x y
  | RPanic _, None => true
  | _, _ => false
  end.

Definition agree (c : case) : bool :=
  match c with
  | CRender files pos msg addl out => rres_eqb (print_positioned_error files pos msg addl) out
  | CParse ts text oc => parse_class ts text =? oc
  | CWs l => list_eqb N.eqb ws_table l
  end.

(** the property, read on the implementation's own outputs: a stage returns a value or an error,
    never a panic *)
Definition holds (c : case) : bool :=
  match c with
  | CRender files pos _ addl out =>
      if render_guard files pos addl then match out with Some _ => true | None => false end else true
  | CParse _ _ oc => oc <? 10
  | CWs _ => true
  end.
