(** C08 — one family of the type printer's [expect("Type system error")] sites closed across two builders' models:
    selection_set_visitor.rs looks every spread fragment up in [fragment_definitions] while it collects the
    @skip/@include variables (C01.Model.visit_vars = get_boolean_variables).  On a document the checker model of C03
    accepts, that lookup never fails -- for every definition, spread or not, and every nested selection set.
    Route: C03_accepted_fields_and_fragments_defined (every StSpread site names a defined fragment) ->
    every spread name occurring in a selection is such a site ([spread_site]) -> executable guard [spreads_ok] /
    [frags_closed] -> induction on the visitor's fuel ([visit_vars_defined]). *)
From V Require Import Base.Util Gql.Ast.
From V Require C01.Model C03.Model C03.Spec C03.Properties C03.Witness.
Import C03.Spec.

(** ** induction on selections (nested through selset / list) *)
Section SelInd.
  Variable P : selection -> Prop.
  Hypothesis HF0 : forall a n ar d, P (SField a n ar d None).
  Hypothesis HF1 : forall a n ar d p l, Forall P l -> P (SField a n ar d (Some (SelSet p l))).
  Hypothesis HS : forall p n d, P (SSpread p n d).
  Hypothesis HI : forall p c d q l, Forall P l -> P (SInline p c d (SelSet q l)).
  Fixpoint sel_ind' (x : selection) : P x :=
    match x with
    | SField a n ar d None => HF0 a n ar d
    | SField a n ar d (Some (SelSet p l)) =>
        HF1 a n ar d p l ((fix go (l : list selection) : Forall P l :=
                             match l with [] => Forall_nil P | y :: r => Forall_cons y (sel_ind' y) (go r) end) l)
    | SSpread p n d => HS p n d
    | SInline p c d (SelSet q l) =>
        HI p c d q l ((fix go (l : list selection) : Forall P l :=
                         match l with [] => Forall_nil P | y :: r => Forall_cons y (sel_ind' y) (go r) end) l)
    end.
End SelInd.

(** every spread name of a selection is a StSpread site of it, whatever the parent type *)
Lemma spread_site S : forall x parent n, In n (spreads_sel x) ->
  exists p id, In (StSpread p id) (sites_sel S parent x) /\ iname id = n.
Proof.
  induction x as [a nm ar d|a nm ar d p l IH|p nm d|p c d q l IH] using sel_ind'; intros parent n Hn; cbn [spreads_sel] in Hn.
  - contradiction.
  - apply in_flat_map in Hn. destruct Hn as [y [Hy Hn]].
    rewrite Forall_forall in IH. destruct (IH y Hy (child_type S parent (iname nm)) n Hn) as [p' [id [Hs Hi]]].
    exists p', id. split; [|exact Hi]. cbn [sites_sel]. right; right. apply in_flat_map. exists y. split; assumption.
  - destruct Hn as [<-|[]]. exists parent, nm. split; [left; reflexivity|reflexivity].
  - apply in_flat_map in Hn. destruct Hn as [y [Hy Hn]]. rewrite Forall_forall in IH.
    destruct c as [c|]; cbn [sites_sel].
    + destruct (IH y Hy (sp_type S (iname c)) n Hn) as [p' [id [Hs Hi]]].
      exists p', id. split; [|exact Hi]. right; right. apply in_flat_map. exists y. split; assumption.
    + destruct (IH y Hy parent n Hn) as [p' [id [Hs Hi]]].
      exists p', id. split; [|exact Hi]. right. apply in_flat_map. exists y. split; assumption.
Qed.

(** ** the executable guard: every spread name below [sels] is defined in [F]; [F] is closed under it *)
Definition defined (F : list fragdef) (n : str) : bool :=
  match C01.Model.frag_get F n with Some _ => true | None => false end.
Definition spreads_ok (F : list fragdef) (sels : list selection) : bool :=
  forallb (defined F) (flat_map spreads_sel sels).
Definition frags_closed (F : list fragdef) : bool :=
  forallb (fun f => spreads_ok F (selset_sels (fr_sel f))) F.

Lemma spreads_ok_cons F x r : spreads_ok F (x :: r) = true -> forallb (defined F) (spreads_sel x) = true /\ spreads_ok F r = true.
Proof. unfold spreads_ok. cbn [flat_map]. rewrite forallb_app. intros H. apply andb_true_iff in H. exact H. Qed.

(** ** selection_set_visitor.rs: the lookup never fails *)
Lemma visit_vars_defined F : frags_closed F = true ->
  forall fuel sels st, spreads_ok F sels = true ->
  C01.Model.visit_vars fuel F sels st <> C01.Model.Err C01.Model.ETypeSystem.
Proof.
  intros HF. induction fuel as [|f IH]; intros sels st Hs; [cbn; discriminate|].
  cbn [C01.Model.visit_vars].
  (* the fold keeps "not a Type system error" *)
  assert (Hfold : forall sels acc, spreads_ok F sels = true -> acc <> C01.Model.Err C01.Model.ETypeSystem ->
            fold_left (fun acc x =>
              C01.Model.bind acc (fun st =>
                let st := (fst st ++ C01.Model.dirs_variables (C01.Model.sel_dirs x), snd st) in
                match x with
                | SField _ _ _ _ _ => C01.Model.Ok st
                | SSpread _ n _ =>
                    if C01.Model.mem (iname n) (snd st) then C01.Model.Ok st
                    else
                      let st := (fst st, snd st ++ [iname n]) in
                      match C01.Model.frag_get F (iname n) with
                      | None => C01.Model.Err C01.Model.ETypeSystem
                      | Some fd => C01.Model.visit_vars f F (selset_sels (fr_sel fd)) st
                      end
                | SInline _ _ _ ss => C01.Model.visit_vars f F (selset_sels ss) st
                end)) sels acc <> C01.Model.Err C01.Model.ETypeSystem).
  { induction sels0 as [|x r IHr]; intros acc Hok Hacc; cbn [fold_left]; [exact Hacc|].
    apply spreads_ok_cons in Hok. destruct Hok as [Hx Hr]. apply IHr; [exact Hr|].
    destruct acc as [st0|e]; cbn [C01.Model.bind]; [|exact Hacc].
    destruct x as [a nm ar d sub|p nm d|p c d [q l]].
    - discriminate.
    - cbn [spreads_sel forallb] in Hx. apply andb_true_iff in Hx. destruct Hx as [Hd _]. unfold defined in Hd.
      cbn [fst snd]. destruct (C01.Model.mem (iname nm) (snd st0)); [discriminate|].
      destruct (C01.Model.frag_get F (iname nm)) as [fd|] eqn:Eg; [|discriminate].
      apply IH.
      unfold C01.Model.frag_get in Eg. apply find_some in Eg. destruct Eg as [Hin _]. apply in_rev in Hin.
      unfold frags_closed in HF. rewrite forallb_forall in HF. apply HF. exact Hin.
    - cbn [spreads_sel] in Hx. apply IH. exact Hx. }
  apply Hfold; [exact Hs|discriminate].
Qed.

(** ** accepted documents satisfy the guard *)
Lemma find_rev_some {A} (p : A -> bool) l x : find p l = Some x -> find p (rev l) <> None.
Proof.
  intros H Hn. apply find_some in H. destruct H as [Hin Hp].
  pose proof (find_none _ _ Hn x (proj1 (in_rev l x) Hin)) as Hc. congruence.
Qed.

Lemma accepted_spreads_defined S D : schema_wf S = true -> C03.Model.check_operation_document S D = [] ->
  forall parent sels, incl (flat_map (sites_sel S parent) sels) (all_sites S D) ->
  spreads_ok (C01.Model.frag_defs D) sels = true.
Proof.
  intros Hwf Hck parent sels Hincl.
  pose proof (C03.Properties.C03_accepted_fields_and_fragments_defined S D Hwf Hck) as Hall.
  rewrite Forall_forall in Hall.
  unfold spreads_ok. apply forallb_forall. intros n Hn.
  apply in_flat_map in Hn. destruct Hn as [x [Hx Hn]].
  destruct (spread_site S x parent n Hn) as [p [id [Hs Hi]]].
  assert (Hsite : In (StSpread p id) (all_sites S D)) by (apply Hincl; apply in_flat_map; exists x; split; assumption).
  specialize (Hall _ Hsite). cbn in Hall. destruct Hall as [f [Hf _]]. rewrite Hi in Hf.
  unfold defined, C01.Model.frag_get.
  destruct (find (fun f0 => str_eqb (iname (fr_name f0)) n) (rev (C01.Model.frag_defs D))) eqn:E; [reflexivity|].
  exfalso. exact (find_rev_some _ _ _ Hf E).
Qed.

Lemma frag_sites_incl S D f : In f (doc_fragdefs D) ->
  incl (flat_map (sites_sel S (sp_type S (iname (fr_cond f)))) (selset_sels (fr_sel f))) (all_sites S D).
Proof.
  intros Hf x Hx. unfold all_sites. apply in_or_app. right. apply in_flat_map. exists f. split; [exact Hf|].
  unfold frag_sites, sites_selset. right. exact Hx.
Qed.

Lemma op_sites_incl S D o : In o (doc_ops D) ->
  incl (flat_map (sites_sel S (sp_root S (op_type o))) (selset_sels (op_sel o))) (all_sites S D).
Proof.
  intros Ho x Hx. unfold all_sites. apply in_or_app. left. apply in_flat_map. exists o. split; [exact Ho|].
  apply in_or_app. left. unfold op_sites, sites_selset. right. exact Hx.
Qed.

(** on a check-accepted document over a well-formed schema the visitor's fragment lookup never fails: for the
    selection set of every operation and of every fragment definition (spread or not), any fuel, any state *)
Theorem visitor_fragments_defined : forall S D,
  schema_wf S = true -> C03.Model.check_operation_document S D = [] ->
  frags_closed (C01.Model.frag_defs D) = true /\
  (forall o, In o (doc_ops D) -> spreads_ok (C01.Model.frag_defs D) (selset_sels (op_sel o)) = true) /\
  (forall sels, spreads_ok (C01.Model.frag_defs D) sels = true ->
     forall fuel st, C01.Model.visit_vars fuel (C01.Model.frag_defs D) sels st <> C01.Model.Err C01.Model.ETypeSystem).
Proof.
  intros S D Hwf Hck.
  assert (Hcl : frags_closed (C01.Model.frag_defs D) = true).
  { unfold frags_closed. apply forallb_forall. intros f Hf.
    eapply (accepted_spreads_defined S D Hwf Hck). apply frag_sites_incl. exact Hf. }
  split; [exact Hcl|]. split.
  - intros o Ho. eapply (accepted_spreads_defined S D Hwf Hck). apply op_sites_incl. exact Ho.
  - intros sels Hs fuel st. apply visit_vars_defined; assumption.
Qed.

(** the guard passes down to nested selection sets (get_boolean_variables is called for each of them) *)
Lemma spreads_ok_sub F sels a n ar d p l :
  spreads_ok F sels = true -> In (SField a n ar d (Some (SelSet p l))) sels -> spreads_ok F l = true.
Proof.
  unfold spreads_ok. rewrite !forallb_forall. intros H Hin x Hx. apply H.
  apply in_flat_map. eexists. split; [exact Hin|]. cbn [spreads_sel]. exact Hx.
Qed.

(** non-vacuity: the feature-rich valid document of C03's corpus is accepted, its fragments are closed, and its
    operations do spread fragments (so the lookups the theorem speaks about are actually performed) *)
Example visitor_guard_example :
  C03.Model.check_operation_document C03.Witness.w_schema_0 C03.Witness.w_doc_14 = [] /\
  frags_closed (C01.Model.frag_defs C03.Witness.w_doc_14) = true /\
  Nat.ltb 0 (length (flat_map (fun o => flat_map spreads_sel (selset_sels (op_sel o))) (doc_ops C03.Witness.w_doc_14))) = true /\
  forallb (fun o => match C01.Model.get_boolean_variables 50 (C01.Model.frag_defs C03.Witness.w_doc_14) (selset_sels (op_sel o)) with
                    | C01.Model.Ok _ => true | C01.Model.Err _ => false end) (doc_ops C03.Witness.w_doc_14) = true.
Proof. repeat split; vm_compute; reflexivity. Qed.
