(** Pinned statements of the C08 property theorems: compiled on every check, so a theorem cannot be
    weakened silently. *)
From V Require Import Base.Util Gql.Ast Peg.Peg Gen.C07_grammar_gen C07.Builder C07.Model.
From V Require Import C08.Model C08.Spec C08.SiteType Gen.C08_sites_gen C08.Sites C08.ProofsRender C08.ProofsEscape C08.Shape C08.ProofsShape C08.ProofsMerge C08.ImportsCost C08.ProofsVisitor C08.ProofsCount C08.Proofs C08.Properties.
From V Require C07.Fuel C11.Properties C12.Properties C13.Properties.
Local Open Scope N_scope.

Check (C08_render_total : forall files pos msg addl,
  render_guard files pos addl = true -> exists out, print_positioned_error files pos msg addl = ROk out).
Check (C08_skip_chars_total : forall line k, skip_chars line k = ROk (skipn (N.to_nat k) line)).
Check (C08_render_index_refuted : print_positioned_error [] (Some (mkRP 0 0 0 false)) (s "m") [] = RPanic P_index).
Check (C08_escape_errors_are_diagnostics :
  parse_class false w_lone_surrogate = 1 /\ parse_class false w_trailing_first = 1 /\
  parse_class false w_above_max = 1 /\ parse_class false w_overflow = 1 /\ parse_class true w_description = 1).
Check (C08_escape_characters_parse : parse_class false w_long_but_small = 0 /\ parse_class false w_surrogate_pair = 0).
Check (C08_builder_shapes_ok : forall inp file k, parse_operation_document file inp <> PPanic k).
Check (C08_builder_shapes_ok_ts : forall inp file k, parse_type_system_document file inp <> PPanic k).
Check (C08_parse_total : forall file inp,
  ((exists d, parse_operation_document file inp = POk d) \/ parse_operation_document file inp = PErr) /\
  ((exists d, parse_type_system_document file inp = POk d) \/ parse_type_system_document file inp = PErr)).
Check (C08_parse_forest_generated : forall (R : Type) (g : grammar R) inp fuel start ps,
  parse_with g fuel start inp = Ok ps -> exists t, gent g inp (fun _ => True) true ANon (Call start) t ps).
Check (C08_all_sites_accounted : forallb accounted scanned_sites = true).
Check (C08_no_stale_entries : forallb still_scanned table = true).
Check (C08_resolve_total : forall doc,
  (exists e, C11.Model.resolve doc = inl e) \/ (exists out, C11.Model.resolve doc = inr out)).
Check (C08_imports_terminate : forall st root_path root,
  C13.Model.resolve_imports st root_path root <> inl C13.Model.OutOfFuel).
Check (C08_imports_total : forall st root_path root,
  (exists ds, C13.Model.resolve_imports st root_path root = inr ds) \/
  (exists file p, C13.Model.resolve_imports st root_path root = inl (C13.Model.FileNotFound file p)) \/
  (exists n file p, C13.Model.resolve_imports st root_path root = inl (C13.Model.FragmentNotFound n file p))).
Check (C08_imports_linear : forall st root_path root,
  fst (resolve_imports_c st root_path root) = C13.Model.resolve_imports st root_path root /\
  (snd (resolve_imports_c st root_path root) <= length st)%nat).
Check (C08_emit_total_partial : forall defs o,
  (forall n, C12.Spec.reach (C12.Model.get_frag defs) (op_sel o) n -> C12.Model.get_frag defs n <> None) ->
  exists ds, C12.Model.operation_runtime defs o = C12.Model.Ok ds).
Check (C08_merge_unchecked_refuted :
  check_then_tree w_merge_schema w_merge_fields = Some ([], Some (C01.Model.Err C01.Model.EMergeFields)) /\
  check_then_tree w_merge_schema w_merge_trees = Some ([], Some (C01.Model.Err C01.Model.EMergeTrees))).
Check (C08_visitor_fragments_defined : forall S D,
  C03.Spec.schema_wf S = true -> C03.Model.check_operation_document S D = [] ->
  frags_closed (C01.Model.frag_defs D) = true /\
  (forall o, In o (C03.Spec.doc_ops D) -> spreads_ok (C01.Model.frag_defs D) (selset_sels (op_sel o)) = true) /\
  (forall sels, spreads_ok (C01.Model.frag_defs D) sels = true ->
     forall fuel st, C01.Model.visit_vars fuel (C01.Model.frag_defs D) sels st <> C01.Model.Err C01.Model.ETypeSystem)).
Check (C08_subscription_count_terminates : forall D o,
  In (DOp o) (od_defs D) ->
  snd (crk_c (C03.Model.doc_fuel D) (C03.Model.doc_frags D) [] (op_sel o) []) = false /\
  fst (crk_c (C03.Model.doc_fuel D) (C03.Model.doc_frags D) [] (op_sel o) []) =
  C03.Model.collect_response_keys (C03.Model.doc_fuel D) (C03.Model.doc_frags D) [] (op_sel o) []).

Print Assumptions C08_subscription_count_terminates.
Print Assumptions C08_visitor_fragments_defined.
Print Assumptions C08_render_total.
Print Assumptions C08_skip_chars_total.
Print Assumptions C08_render_index_refuted.
Print Assumptions C08_escape_errors_are_diagnostics.
Print Assumptions C08_escape_characters_parse.
Print Assumptions C08_builder_shapes_ok.
Print Assumptions C08_builder_shapes_ok_ts.
Print Assumptions C08_parse_total.
Print Assumptions C08_parse_forest_generated.
Print Assumptions C08_all_sites_accounted.
Print Assumptions C08_no_stale_entries.
Print Assumptions C08_resolve_total.
Print Assumptions C08_imports_terminate.
Print Assumptions C08_imports_total.
Print Assumptions C08_imports_linear.
Print Assumptions C08_emit_total_partial.
Print Assumptions C08_merge_unchecked_refuted.
