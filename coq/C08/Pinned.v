(** Pinned statements of the C08 property theorems: compiled on every check, so a theorem cannot be
    weakened silently. *)
From V Require Import Base.Util Gql.Ast Peg.Peg Gen.C07_grammar_gen C07.Builder C07.Model.
From V Require Import C08.Model C08.Spec C08.SiteType Gen.C08_sites_gen C08.Sites C08.ProofsRender C08.ProofsEscape C08.Shape C08.ProofsShape C08.ProofsMerge C08.ImportsCost C08.Proofs C08.Properties.
From V Require C03.Properties C07.Fuel C11.Properties C12.Properties C13.Properties.
Local Open Scope N_scope.

Check (C08_render_total : forall files pos msg addl,
  render_guard files pos addl = true -> exists out, print_positioned_error files pos msg addl = ROk out).
Check (C08_skip_chars_total : forall line k, skip_chars line k = ROk (skipn (N.to_nat k) line)).
Check (C08_render_index_refuted : print_positioned_error [] (Some (mkRP 0 0 0 false)) (s "m") [] = RPanic P_index).
Check (C08_escape_total_partial : forall ds,
  ds <> [] -> forallb is_hex ds = true -> is_scalar_value (hexval ds) = true -> code_to_char ds = BOk (hexval ds)).
Check (C08_escape_panic_iff : forall ds k,
  ds <> [] -> forallb is_hex ds = true ->
  (code_to_char ds = BPanic k <->
   (k = P_radix /\ 4294967296 <= hexval ds) \/
   (k = P_char /\ hexval ds < 4294967296 /\ is_scalar_value (hexval ds) = false))).
Check (C08_escape_total_refuted :
  parse_class false w_lone_surrogate = 10 + P_char /\ parse_class false w_above_max = 10 + P_char /\
  parse_class false w_overflow = 10 + P_radix /\ parse_class true w_description = 10 + P_char).
Check (C08_builder_shapes_ok : forall inp file k,
  parse_operation_document file inp = PPanic k -> k = P_char \/ k = P_radix).
Check (C08_builder_shapes_ok_ts : forall inp file k,
  parse_type_system_document file inp = PPanic k -> k = P_char \/ k = P_radix).
Check (C08_parse_total : forall file inp,
  ((exists d, parse_operation_document file inp = POk d) \/ parse_operation_document file inp = PErr \/
   parse_operation_document file inp = PPanic P_char \/ parse_operation_document file inp = PPanic P_radix) /\
  ((exists d, parse_type_system_document file inp = POk d) \/ parse_type_system_document file inp = PErr \/
   parse_type_system_document file inp = PPanic P_char \/ parse_type_system_document file inp = PPanic P_radix)).
Check (C08_parse_forest_generated : forall (R : Type) (g : grammar R) inp fuel start ps,
  parse_with g fuel start inp = Ok ps -> exists t, gent g inp true ANon (Call start) t ps).
Check (C08_all_sites_accounted : forallb accounted scanned_sites = true).
Check (C08_no_stale_entries : forallb still_scanned table = true).
Check (C08_resolve_total : forall doc,
  (exists e, C11.Model.resolve doc = inl e) \/ (exists out, C11.Model.resolve doc = inr out)).
Check (C08_imports_terminate : forall st root_path root,
  C13.Model.resolve_imports st root_path root <> inl C13.Model.OutOfFuel).
Check (C08_imports_total_partial : forall st root_path root ks,
  C13.Spec.closed_b st root_path root ks = true ->
  C13.Spec.names_guard_b st ks (C13.Spec.all_lines st root_path root ks) = true ->
  C13.Model.resolve_imports st root_path root <> inl C13.Model.PanicMissingTarget).
Check (C08_imports_total_refuted :
  exists root, C13.Model.resolve_extensions C13.Proofs.main_dup_items = inr root
               /\ C13.Model.resolve_imports C13.Proofs.st_dup C13.Proofs.k_main root = inl C13.Model.PanicMissingTarget
               /\ ~ C13.Spec.BadLine C13.Proofs.st_dup C13.Proofs.k_main (C13.Model.fimports root)).
Check (C08_emit_total_partial : forall defs o,
  (forall n, C12.Spec.reach (C12.Model.get_frag defs) (op_sel o) n -> C12.Model.get_frag defs n <> None) ->
  exists ds, C12.Model.operation_runtime defs o = C12.Model.Ok ds).
Check (C08_emit_total_refuted :
  exists defs f,
    In (DFrag f) defs
    /\ (forall o n, In (DOp o) defs -> ~ C12.Spec.reach (C12.Model.get_frag defs) (op_sel o) n)
    /\ C12.Model.runtime_defs defs (DFrag f) = C12.Model.Panic C12.Model.msg_fragment_not_found
    /\ C12.Model.document_runtime_texts (mkOpDoc pos0 defs) = C12.Model.Panic C12.Model.msg_fragment_not_found).
Check (C08_check_then_generate_refuted :
  exists S D, C03.Model.check_operation_document S D = [] /\ C03.Spec.rule_ok S D C03.Spec.R_fields_exist = false).
Check (C08_merge_unchecked_refuted :
  check_then_tree w_merge_schema w_merge_fields = Some ([], Some (C01.Model.Err C01.Model.EMergeFields)) /\
  check_then_tree w_merge_schema w_merge_trees = Some ([], Some (C01.Model.Err C01.Model.EMergeTrees))).
Check (C08_imports_linear : forall st root_path root,
  fst (resolve_imports_c st root_path root) = C13.Model.resolve_imports st root_path root /\
  (snd (resolve_imports_c st root_path root) <= length st)%nat).

Print Assumptions C08_imports_linear.
Print Assumptions C08_merge_unchecked_refuted.
Print Assumptions C08_render_total.
Print Assumptions C08_skip_chars_total.
Print Assumptions C08_render_index_refuted.
Print Assumptions C08_escape_total_partial.
Print Assumptions C08_escape_panic_iff.
Print Assumptions C08_escape_total_refuted.
Print Assumptions C08_builder_shapes_ok.
Print Assumptions C08_builder_shapes_ok_ts.
Print Assumptions C08_parse_total.
Print Assumptions C08_parse_forest_generated.
Print Assumptions C08_all_sites_accounted.
Print Assumptions C08_no_stale_entries.
Print Assumptions C08_resolve_total.
Print Assumptions C08_imports_terminate.
Print Assumptions C08_imports_total_partial.
Print Assumptions C08_imports_total_refuted.
Print Assumptions C08_emit_total_partial.
Print Assumptions C08_emit_total_refuted.
Print Assumptions C08_check_then_generate_refuted.
