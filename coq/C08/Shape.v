(** C08 — what a successful run of the PEG interpreter (Peg.v, any grammar) can produce: for an
    expression, the text it consumed together with the forest of pairs it recorded, as an inductive
    relation [gent] that mirrors [run] but forgets the input around the match.  [run_gent]: every
    successful run is an instance.  Inverting [gent] on the concrete expression of a grammar rule gives
    the possible child sequences of that rule's pairs (their rules, in order) and the text each pair
    spans -- the facts the builder's [parts!] / [only_child] / [all_children] / [as_str] rely on. *)
From V Require Import Base.Util Peg.Peg Peg.PegProps.
Set Implicit Arguments.

Section Shape.
Variable R : Type.
Variable g : grammar R.
Variable inp0 : str.            (* the whole input: pair offsets point into it *)
Variable Q : pair R -> Prop.    (* a property every recorded pair is known to have ([fun _ => True] for a raw run) *)
Local Open Scope N_scope.

Inductive gent : bool -> atomicity -> pexp R -> str -> list (pair R) -> Prop :=
| T_Lit sk a l : gent sk a (Lit l) l []
| T_ILit sk a l t : length t = length l -> gent sk a (ILit l) t []
| T_Range sk a lo hi c : (lo <=? c) && (c <=? hi) = true -> gent sk a (Range lo hi) [c] []
| T_Any sk a c : gent sk a Any [c] []
| T_Soi sk a : gent sk a Soi [] []
| T_Eoi sk a : gent sk a Eoi [] []
| T_Call_rec sk a r s e kids :
    rule_records g r a = true ->
    Q (Pair r s e kids) ->
    gent (body_sk g r) (body_atomicity g r a) (r_exp (g_rule g r)) (substr inp0 s e) kids ->
    gent sk a (Call r) (substr inp0 s e) [Pair r s e kids]
| T_Call_sil sk a r t ps :
    rule_records g r a = false ->
    gent (body_sk g r) (body_atomicity g r a) (r_exp (g_rule g r)) t ps ->
    gent sk a (Call r) t ps
| T_Seq sk a x y t1 t2 t3 p1 p2 p3 :
    gent sk a x t1 p1 -> tskip sk a t2 p2 -> gent sk a y t3 p3 ->
    gent sk a (Seq x y) (t1 ++ t2 ++ t3) (p1 ++ p2 ++ p3)
| T_Alt_l sk a x y t ps : gent sk a x t ps -> gent sk a (Alt x y) t ps
| T_Alt_r sk a x y t ps : gent sk a y t ps -> gent sk a (Alt x y) t ps
| T_Opt_s sk a x t ps : gent sk a x t ps -> gent sk a (Opt x) t ps
| T_Opt_n sk a x : gent sk a (Opt x) [] []
| T_Star_n sk a x : gent sk a (Star x) [] []
| T_Star_c sk a x t1 t2 p1 p2 :
    gent sk a x t1 p1 -> treps sk a x t2 p2 -> gent sk a (Star x) (t1 ++ t2) (p1 ++ p2)
| T_Plus sk a x t ps : gent sk a (Seq x (Star x)) t ps -> gent sk a (Plus x) t ps
| T_NotP sk a x : gent sk a (NotP x) [] []
| T_AndP sk a x : gent sk a (AndP x) [] []
with treps : bool -> atomicity -> pexp R -> str -> list (pair R) -> Prop :=
| TR_nil sk a x : treps sk a x [] []
| TR_cons sk a x t1 t2 t3 p1 p2 p3 :
    tskip sk a t1 p1 -> gent sk a x t2 p2 -> treps sk a x t3 p3 ->
    treps sk a x (t1 ++ t2 ++ t3) (p1 ++ p2 ++ p3)
with tskip : bool -> atomicity -> str -> list (pair R) -> Prop :=
| TS_none sk a : tskip sk a [] []
| TS_run se t ps : skip_exp g = Some se -> gent false ANon se t ps -> tskip true ANon t ps.

Scheme gent_mind := Minimality for gent Sort Prop
  with treps_mind := Minimality for treps Sort Prop
  with tskip_mind := Minimality for tskip Sort Prop.
Combined Scheme gent_mutind from gent_mind, treps_mind, tskip_mind.

(** a pair whose children and text are what its rule's body can produce when called under [a] *)
Definition okx (a : atomicity) (p : pair R) : Prop :=
  match p with
  | Pair r s e kids => gent (body_sk g r) (body_atomicity g r a) (r_exp (g_rule g r)) (substr inp0 s e) kids
  end.

End Shape.

(** every property [Q] of pairs, hereditarily *)
Inductive allp {R : Type} (Q : pair R -> Prop) : pair R -> Prop :=
| allp_intro r s e kids : Q (Pair r s e kids) -> Forall (allp Q) kids -> allp Q (Pair r s e kids).

Section Sound.
Variable R : Type.
Variable g : grammar R.
Variable inp0 : str.
Local Open Scope N_scope.
Notation T := (fun _ : pair R => True).
Notation gent := (gent g inp0 T).
Notation treps := (treps g inp0 T).
Notation tskip := (tskip g inp0 T).

Definition took (inp : str) (i : N) (t : str) (inp' : str) (i' : N) : Prop :=
  inp = t ++ inp' /\ i' = i + slen t.

Lemma took_consumed inp i t inp' i' : took inp i t inp' i' -> consumed inp i inp' i'.
Proof. intros [H1 H2]. exists t. split; [exact H1|exact H2]. Qed.

Lemma took_nil inp i : took inp i [] inp i.
Proof. split; [reflexivity|unfold slen; cbn; lia]. Qed.

Lemma took_app inp i t1 inp1 i1 t2 inp2 i2 :
  took inp i t1 inp1 i1 -> took inp1 i1 t2 inp2 i2 -> took inp i (t1 ++ t2) inp2 i2.
Proof.
  intros [A1 A2] [B1 B2]. split.
  - rewrite A1, B1, app_assoc. reflexivity.
  - unfold slen in *. rewrite app_length. lia.
Qed.

Lemma strip_prefix_took : forall l inp rest i, strip_prefix l inp = Some rest -> took inp i l rest (i + slen l).
Proof.
  induction l as [|c l IH]; intros inp rest i H; cbn [strip_prefix] in H.
  - inversion H; subst. split; [reflexivity|reflexivity].
  - destruct inp as [|d inp]; [discriminate|]. destruct (N.eqb_spec c d) as [->|]; [|discriminate].
    destruct (IH _ _ (i + 1) H) as [E _]. split; [cbn [app]; rewrite E; reflexivity|reflexivity].
Qed.

Lemma strip_prefix_ci_took : forall l inp rest i, strip_prefix_ci l inp = Some rest ->
  exists t, length t = length l /\ took inp i t rest (i + slen l).
Proof.
  assert (A : forall l inp rest, strip_prefix_ci l inp = Some rest -> exists t, length t = length l /\ inp = t ++ rest).
  { induction l as [|c l IH]; intros inp rest H; cbn [strip_prefix_ci] in H.
    - inversion H; subst. exists []. split; reflexivity.
    - destruct inp as [|d inp]; [discriminate|]. destruct (N.eqb (ascii_lower c) (ascii_lower d)); [|discriminate].
      destruct (IH _ _ H) as [t [Hl E]]. exists (d :: t). split; [cbn [length]; rewrite Hl; reflexivity|cbn [app]; rewrite E; reflexivity]. }
  intros l inp rest i H. destruct (A _ _ _ H) as [t [Hl E]]. exists t. split; [exact Hl|].
  split; [exact E|unfold slen; rewrite Hl; reflexivity].
Qed.

Lemma at_off_substr inp i t inp' :
  at_off inp0 inp i -> inp = t ++ inp' -> substr inp0 i (i + slen t) = t.
Proof.
  intros [Hs _] E. unfold substr, slen.
  replace (N.to_nat (i + N.of_nat (length t) - i)) with (length t) by lia.
  rewrite <- Hs, E. rewrite firstn_app, Nat.sub_diag, firstn_all. cbn [firstn]. apply app_nil_r.
Qed.

Lemma run_reps_gent : forall fuel,
  (forall sk a e inp i inp' i' ps, run g fuel sk a e inp i = Ok (inp', i', ps) -> at_off inp0 inp i ->
     exists t, took inp i t inp' i' /\ gent sk a e t ps) /\
  (forall sk a x inp i inp' i' ps, reps g fuel sk a x inp i = Ok (inp', i', ps) -> at_off inp0 inp i ->
     exists t, took inp i t inp' i' /\ treps sk a x t ps).
Proof.
  induction fuel as [|f [IHr IHp]]; [split; intros; discriminate|].
  assert (Hskip : forall sk a inp i inp' i' ps,
            match sk, a, skip_exp g with
            | true, ANon, Some se => run g f false ANon se inp i
            | _, _, _ => Ok (inp, i, [])
            end = Ok (inp', i', ps) -> at_off inp0 inp i ->
            exists t, took inp i t inp' i' /\ tskip sk a t ps).
  { intros sk a inp i inp' i' ps H Hat.
    destruct sk; [destruct a; [destruct (skip_exp g) as [se|] eqn:Ese|..]|];
      try (inversion H; subst; exists []; split; [apply took_nil|apply TS_none]).
    destruct (IHr _ _ _ _ _ _ _ _ H Hat) as [t [Ht Hg]]. exists t. split; [exact Ht|eapply TS_run; eauto]. }
  assert (Hnext : forall inp i t inp' i', at_off inp0 inp i -> took inp i t inp' i' -> at_off inp0 inp' i').
  { intros. eapply consumed_at_off; [eassumption|eapply took_consumed; eassumption]. }
  split.
  - intros sk a e inp i inp' i' ps H Hat. destruct e; cbn [run] in H.
    + destruct (strip_prefix l inp) eqn:E; [|discriminate]. inversion H; subst.
      exists l. split; [eapply strip_prefix_took; exact E|constructor].
    + destruct (strip_prefix_ci l inp) eqn:E; [|discriminate]. inversion H; subst.
      destruct (strip_prefix_ci_took _ _ i E) as [t [Hl Ht]]. exists t. split; [exact Ht|constructor; exact Hl].
    + destruct inp as [|c rest]; [discriminate|]. destruct ((lo <=? c)%N && (c <=? hi)%N) eqn:Ec; [|discriminate].
      inversion H; subst. exists [c]. split; [split; reflexivity|constructor; exact Ec].
    + destruct inp as [|c rest]; [discriminate|]. inversion H; subst. exists [c]. split; [split; reflexivity|constructor].
    + destruct (N.eqb i 0); [|discriminate]. inversion H; subst. exists []. split; [apply took_nil|constructor].
    + destruct inp; [|discriminate]. inversion H; subst. exists []. split; [apply took_nil|constructor].
    + dres H E. inversion H; subst. destruct (IHr _ _ _ _ _ _ _ _ E Hat) as [t [Ht Hg]]. exists t. split; [exact Ht|].
      destruct (rule_records g r a) eqn:Er.
      * destruct Ht as [Ht1 Ht2]. subst i'. pose proof (@at_off_substr _ _ _ _ Hat Ht1) as Hs.
        assert (G : gent sk a (Call r) (substr inp0 i (i + slen t)) [Pair r i (i + slen t) l]).
        { apply T_Call_rec; [exact Er|exact I|rewrite Hs; exact Hg]. }
        rewrite Hs in G. exact G.
      * apply T_Call_sil; assumption.
    + dres H E1. dres H E2. dres H E3. inversion H; subst.
      destruct (IHr _ _ _ _ _ _ _ _ E1 Hat) as [t1 [Ht1 Hg1]].
      pose proof (Hnext _ _ _ _ _ Hat Ht1) as Hat1.
      destruct (Hskip _ _ _ _ _ _ _ E2 Hat1) as [t2 [Ht2 Hg2]].
      pose proof (Hnext _ _ _ _ _ Hat1 Ht2) as Hat2.
      destruct (IHr _ _ _ _ _ _ _ _ E3 Hat2) as [t3 [Ht3 Hg3]].
      exists (t1 ++ t2 ++ t3). split; [eapply took_app; [exact Ht1|eapply took_app; eassumption]|apply T_Seq; assumption].
    + dres H E1.
      * inversion H; subst. destruct (IHr _ _ _ _ _ _ _ _ E1 Hat) as [t [Ht Hg]]. exists t. split; [exact Ht|apply T_Alt_l; exact Hg].
      * destruct (IHr _ _ _ _ _ _ _ _ H Hat) as [t [Ht Hg]]. exists t. split; [exact Ht|apply T_Alt_r; exact Hg].
    + dres H E1.
      * inversion H; subst. destruct (IHr _ _ _ _ _ _ _ _ E1 Hat) as [t [Ht Hg]]. exists t. split; [exact Ht|apply T_Opt_s; exact Hg].
      * inversion H; subst. exists []. split; [apply took_nil|apply T_Opt_n].
    + dres H E1.
      * dres H E2. inversion H; subst.
        destruct (IHr _ _ _ _ _ _ _ _ E1 Hat) as [t1 [Ht1 Hg1]].
        pose proof (Hnext _ _ _ _ _ Hat Ht1) as Hat1.
        destruct (IHp _ _ _ _ _ _ _ _ E2 Hat1) as [t2 [Ht2 Hg2]].
        exists (t1 ++ t2). split; [eapply took_app; eassumption|apply T_Star_c; assumption].
      * inversion H; subst. exists []. split; [apply took_nil|apply T_Star_n].
    + destruct (IHr _ _ _ _ _ _ _ _ H Hat) as [t [Ht Hg]]. exists t. split; [exact Ht|apply T_Plus; exact Hg].
    + dres H E1. inversion H; subst. exists []. split; [apply took_nil|apply T_NotP].
    + dres H E1. inversion H; subst. exists []. split; [apply took_nil|apply T_AndP].
  - intros sk a x inp i inp' i' ps H Hat. cbn [reps] in H.
    dres H E1.
    + destruct (Hskip _ _ _ _ _ _ _ E1 Hat) as [t1 [Ht1 Hg1]].
      pose proof (Hnext _ _ _ _ _ Hat Ht1) as Hat1.
      dres H E2.
      * dres H E3. inversion H; subst.
        destruct (IHr _ _ _ _ _ _ _ _ E2 Hat1) as [t2 [Ht2 Hg2]].
        pose proof (Hnext _ _ _ _ _ Hat1 Ht2) as Hat2.
        destruct (IHp _ _ _ _ _ _ _ _ E3 Hat2) as [t3 [Ht3 Hg3]].
        exists (t1 ++ t2 ++ t3). split; [eapply took_app; [exact Ht1|eapply took_app; eassumption]|apply TR_cons; assumption].
      * inversion H; subst. exists []. split; [apply took_nil|apply TR_nil].
    + inversion H; subst. exists []. split; [apply took_nil|apply TR_nil].
Qed.

(** the forest a successful parse returns is what the start rule can produce under NonAtomic *)
Theorem parse_gent fuel start ps :
  parse_with g fuel start inp0 = Ok ps -> exists t, gent true ANon (Call start) t ps.
Proof.
  unfold parse_with. intros H.
  destruct (run g fuel true ANon (Call start) inp0 0) as [[[inp' i'] ps']| |] eqn:E; try discriminate H.
  inversion H; subst.
  destruct (proj1 (run_reps_gent fuel) _ _ _ _ _ _ _ _ E) as [t [_ Hg]]; [split; [reflexivity|cbn; lia]|].
  exists t. exact Hg.
Qed.


(** a raw derivation whose pairs all have [Q] hereditarily is a [Q]-derivation *)
Lemma gent_upgrade (Q : pair R -> Prop) :
  (forall sk a e t ps, gent sk a e t ps -> Forall (allp Q) ps -> Shape.gent g inp0 Q sk a e t ps) /\
  (forall sk a x t ps, treps sk a x t ps -> Forall (allp Q) ps -> Shape.treps g inp0 Q sk a x t ps) /\
  (forall sk a t ps, tskip sk a t ps -> Forall (allp Q) ps -> Shape.tskip g inp0 Q sk a t ps).
Proof.
  apply (gent_mutind (g:=g) (inp0:=inp0) (Q:=T)
           (fun sk a e t ps => Forall (allp Q) ps -> Shape.gent g inp0 Q sk a e t ps)
           (fun sk a x t ps => Forall (allp Q) ps -> Shape.treps g inp0 Q sk a x t ps)
           (fun sk a t ps => Forall (allp Q) ps -> Shape.tskip g inp0 Q sk a t ps));
    intros; try (constructor; assumption);
    repeat match goal with
    | H : Forall _ (_ ++ _) |- _ => apply Forall_app in H; destruct H
    end.
  - (* recorded call *)
    match goal with H : Forall _ [_] |- _ => inversion H as [|? ? Hp _]; subst; inversion Hp; subst end.
    apply T_Call_rec; auto.
  - apply T_Call_sil; auto.
  - apply T_Seq; auto.
  - apply T_Alt_l; auto.
  - apply T_Alt_r; auto.
  - apply T_Opt_s; auto.
  - apply T_Star_c; auto.
  - apply T_Plus; auto.
  - apply TR_cons; auto.
  - eapply TS_run; eauto.
Qed.

(** every pair of a raw derivation's forest is, hereditarily, a pair its rule can produce *)
Lemma gent_allp_okx :
  (forall sk a e t ps, gent sk a e t ps -> Forall (allp (fun q => exists a', okx g inp0 T a' q)) ps) /\
  (forall sk a x t ps, treps sk a x t ps -> Forall (allp (fun q => exists a', okx g inp0 T a' q)) ps) /\
  (forall sk a t ps, tskip sk a t ps -> Forall (allp (fun q => exists a', okx g inp0 T a' q)) ps).
Proof.
  apply (gent_mutind (g:=g) (inp0:=inp0) (Q:=T)
           (fun sk a e t ps => Forall (allp (fun q => exists a', okx g inp0 T a' q)) ps)
           (fun sk a x t ps => Forall (allp (fun q => exists a', okx g inp0 T a' q)) ps)
           (fun sk a t ps => Forall (allp (fun q => exists a', okx g inp0 T a' q)) ps));
    intros; try (constructor; fail); try assumption;
    repeat (apply Forall_app; split); try assumption.
  constructor; [|constructor]. constructor; [|assumption].
  eexists. cbn [okx]. eassumption.
Qed.

End Sound.
