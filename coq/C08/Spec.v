(** C08 — spec-side definitions: what the property demands of a stage's result, and the guards under
    which it is demanded. *)
From V Require Import Base.Util C08.Model.
Local Open Scope N_scope.

(** a stage result is acceptable iff it is a value or an error value -- not a panic *)
Definition no_panic {A} (r : rres A) : Prop := exists x, r = ROk x.

(** the renderer is only ever handed positions whose file is in the store (the CLI's FileStore hands
    out the indices it later looks up) and whose line and column are machine integers that leave
    room for [+ 1] *)
Definition pos_in_store (files : list (str * str)) (p : rpos) : bool :=
  rp_builtin p || ((rp_file p <? N.of_nat (length files)) && (rp_line p <? usize_max) && (rp_col p <? usize_max)).

Definition render_guard (files : list (str * str)) (pos : option rpos) (addl : list (rpos * str)) : bool :=
  match pos with
  | None => true
  | Some p => pos_in_store files p && (rp_builtin p || forallb (fun a => pos_in_store files (fst a)) addl)
  end.

(** Unicode scalar values: what [char::from_u32] accepts *)
Definition is_scalar_value (v : N) : bool := (v <? 55296) || ((57344 <=? v) && (v <? 1114112)).
