(** C08 — models owned by this property.  Definitions only.

    1. The diagnostic renderer: crates/error/src/lib.rs [print_positioned_error] / [message_for_line]
       with crates/utils/src/chars.rs [first_non_space_byte_index] / [skip_chars], on strings of
       Unicode scalar values, with the UTF-8 byte arithmetic of [skip_chars] + [str::split_at] kept
       explicit (a split that is not on a character boundary, an out-of-range file index and an
       overflowing [column + 1] are explicit [RPanic] results).  Colours are off (the harness sets
       NO_COLOR, [colored] then prints the plain text).
    2. The outcome class of the two parsers, through C07's parser model (pest on the translated
       grammar + the builder with its explicit [BPanic] results).
    The panic-site table is in Sites.v, the child-sequence shapes of the grammar in Shape.v. *)
From V Require Import Base.Util Gql.Ast Peg.Peg Gen.C07_grammar_gen C07.Builder C07.Model.
Local Open Scope N_scope.

(** ** compact string literals of the generated case files: [q "..."] is printable ASCII in which a
    backslash introduces one byte as two lower-case hex digits; the bytes are UTF-8 (glue, not model) *)
Definition hexv (c : N) : N := if c <? 58 then c - 48 else c - 87.
Fixpoint unq (l : list N) : list N :=
  match l with
  | 92 :: a :: b :: r => (hexv a * 16 + hexv b) :: unq r
  | c :: r => c :: unq r
  | [] => []
  end.
Fixpoint utf8_decode (l : list N) : str :=
  match l with
  | [] => []
  | b0 :: r =>
      if b0 <? 128 then b0 :: utf8_decode r
      else if b0 <? 224 then
        match r with b1 :: r' => ((b0 - 192) * 64 + (b1 - 128)) :: utf8_decode r' | _ => [] end
      else if b0 <? 240 then
        match r with
        | b1 :: b2 :: r' => ((b0 - 224) * 4096 + (b1 - 128) * 64 + (b2 - 128)) :: utf8_decode r'
        | _ => []
        end
      else
        match r with
        | b1 :: b2 :: b3 :: r' =>
            ((b0 - 240) * 262144 + (b1 - 128) * 4096 + (b2 - 128) * 64 + (b3 - 128)) :: utf8_decode r'
        | _ => []
        end
  end.
Definition q (x : String.string) : str :=
  utf8_decode (unq (map (fun a => Ascii.N_of_ascii a) (String.list_ascii_of_string x))).
Arguments q x%string_scope.

(** ** results with explicit panics *)
Inductive rres (A : Type) := ROk (x : A) | RPanic (k : N).
Arguments ROk {A}. Arguments RPanic {A}.

Definition P_split : N := 1.      (* str::split_at: byte index not on a char boundary / past the end *)
Definition P_index : N := 2.      (* files[position.file]: index out of range *)
Definition P_overflow : N := 3.   (* pos.line + 1 / pos.column + 1 overflows usize (builds with overflow checks) *)

Definition rbind {A B} (x : rres A) (f : A -> rres B) : rres B :=
  match x with ROk a => f a | RPanic k => RPanic k end.

(** ** UTF-8 byte lengths (char::len_utf8) and str::split_at *)
Definition len_utf8 (c : N) : N :=
  if c <? 128 then 1 else if c <? 2048 then 2 else if c <? 65536 then 3 else 4.

Fixpoint utf8_len (l : str) : N :=
  match l with [] => 0 | c :: r => len_utf8 c + utf8_len r end.

(** [split_at_bytes l mid]: [Some (a, b)] iff byte offset [mid] is a character boundary of [l] (then
    [l = a ++ b] and [a] is [mid] bytes long); [None] is the panic of [str::split_at] *)
Fixpoint split_at_bytes (l : str) (mid : N) {struct l} : option (str * str) :=
  match l with
  | [] => if mid =? 0 then Some ([], []) else None
  | c :: r =>
      if mid =? 0 then Some ([], l)
      else if len_utf8 c <=? mid then
        match split_at_bytes r (mid - len_utf8 c) with
        | Some (a, b) => Some (c :: a, b)
        | None => None
        end
      else None
  end.

(** chars.rs skip_chars: the byte offset is the sum of the UTF-8 lengths of the first [chars]
    characters (all of them when the line is shorter) *)
Definition skip_chars (line : str) (chars : N) : rres str :=
  match split_at_bytes line (utf8_len (firstn (N.to_nat chars) line)) with
  | Some (_, rest) => ROk rest
  | None => RPanic P_split
  end.

(** char::is_whitespace: the code points with the Unicode property White_Space (compared
    exhaustively with the implementation's table by the correspondence run, case CWs) *)
Definition ws_table : list N :=
  [9; 10; 11; 12; 13; 32; 133; 160; 5760;
   8192; 8193; 8194; 8195; 8196; 8197; 8198; 8199; 8200; 8201; 8202;
   8232; 8233; 8239; 8287; 12288].
Definition is_whitespace (c : N) : bool := existsb (N.eqb c) ws_table.

(** chars.rs first_non_space_byte_index, first component (index in characters) *)
Fixpoint first_non_space_from (l : str) (i : N) : option N :=
  match l with
  | [] => None
  | c :: r => if is_whitespace c then first_non_space_from r (i + 1) else Some i
  end.
Definition first_non_space (l : str) : option N := first_non_space_from l 0.

(** str::lines: split after every '\n'; a piece that ends with '\n' loses it and then one '\r' before
    it; the last piece, when it has no '\n', is returned as it is; no empty last piece *)
Definition strip_cr_rev (cur : str) : str :=
  rev (match cur with 13 :: t => t | _ => cur end).
Fixpoint lines_from (cur : str) (l : str) : list str :=
  match l with
  | [] => match cur with [] => [] | _ => [rev cur] end
  | c :: r => if c =? 10 then strip_cr_rev cur :: lines_from [] r else lines_from (c :: cur) r
  end.
Definition lines (src : str) : list str := lines_from [] src.

Fixpoint enumerate_from {A} (i : N) (l : list A) : list (N * A) :=
  match l with [] => [] | x :: r => (i, x) :: enumerate_from (i + 1) r end.

(** Iterator::skip with a count that may be astronomically large *)
Fixpoint skipN {A} (n : N) (l : list A) : list A :=
  match l with
  | [] => []
  | _ :: r => if n =? 0 then l else skipN (N.pred n) r
  end.

(** decimal rendering of a number (Display for usize) *)
Fixpoint dec_digits (fuel : nat) (n : N) (acc : str) : str :=
  match fuel with
  | O => acc
  | S f => let acc' := (48 + n mod 10) :: acc in
           if n <? 10 then acc' else dec_digits f (n / 10) acc'
  end.
Definition dec (n : N) : str := dec_digits (S (N.to_nat (N.log2 n))) n [].

Definition min_opt (a : option N) (b : N) : option N :=
  match a with None => Some b | Some x => Some (N.min x b) end.

Definition minimum_indent (rel : list (N * str)) : option N :=
  fold_left (fun acc p => match first_non_space (snd p) with Some i => min_opt acc i | None => acc end) rel None.

Definition INDENT : str := [32; 32; 32; 32].
Definition usize_max : N := 18446744073709551615.

(** one relevant line *)
Definition render_line (line col : N) (msg : str) (additional : bool) (min_ind : N) (p : N * str) : rres str :=
  rbind (skip_chars (snd p) min_ind) (fun trimmed =>
    let spaces := repeat 32 (N.to_nat (col - min_ind)) in
    let ind := if additional then INDENT else [] in
    if negb (fst p =? line) then ROk (ind ++ trimmed ++ [10])
    else ROk (ind ++ trimmed ++ [10] ++ ind ++ spaces ++ [94; 10] ++ ind ++ spaces ++ msg ++ [10])).

Fixpoint render_lines (line col : N) (msg : str) (additional : bool) (min_ind : N) (rel : list (N * str)) : rres str :=
  match rel with
  | [] => ROk []
  | p :: r => rbind (render_line line col msg additional min_ind p) (fun a =>
              rbind (render_lines line col msg additional min_ind r) (fun b => ROk (a ++ b)))
  end.

(** lib.rs message_for_line.  [pos.line + 1] and [pos.column + 1] are formatted on every path (the two
    bare-message paths name file, line and column too), so an overflow of either is a panic in builds with
    overflow checks whatever the text. *)
Definition message_for_line (path src : str) (line col : N) (msg : str) (additional : bool) : rres str :=
  let rel := firstn 5 (skipN (line - 2) (enumerate_from 0 (lines src))) in
  if (usize_max <=? line) || (usize_max <=? col) then RPanic P_overflow
  else
    let head := path ++ [58] ++ dec (line + 1) ++ [58] ++ dec (col + 1) ++ [10] in
    if forallb (fun p => negb (fst p =? line)) rel then ROk (head ++ msg)
    else match minimum_indent rel with
         | None => ROk (head ++ msg)
         | Some mi =>
             rbind (render_lines line col msg additional mi rel) (fun body =>
               ROk ((if additional then INDENT else []) ++ head ++ body))
         end.

Record rpos := mkRP { rp_line : N; rp_col : N; rp_file : N; rp_builtin : bool }.

Fixpoint nthN {A} (l : list A) (n : N) : option A :=
  match l with [] => None | x :: r => if n =? 0 then Some x else nthN r (N.pred n) end.

Fixpoint render_additional (files : list (str * str)) (addl : list (rpos * str)) (acc : str) : rres str :=
  match addl with
  | [] => ROk acc
  | (p, m) :: r =>
      if rp_builtin p then render_additional files r acc
      else match nthN files (rp_file p) with
           | None => RPanic P_index
           | Some (path, src) =>
               rbind (message_for_line path src (rp_line p) (rp_col p) m true) (fun t =>
                 render_additional files r (acc ++ [10; 10] ++ t))
           end
  end.

(** lib.rs print_positioned_error: [files] = (path as displayed, source text) by file index *)
Definition print_positioned_error (files : list (str * str)) (pos : option rpos) (msg : str)
                                  (addl : list (rpos * str)) : rres str :=
  match pos with
  | None => ROk msg
  | Some p =>
      if rp_builtin p then ROk msg
      else match nthN files (rp_file p) with
           | None => RPanic P_index
           | Some (path, src) =>
               rbind (message_for_line path src (rp_line p) (rp_col p) msg false) (fun m =>
                 render_additional files addl m)
           end
  end.

(** ** outcome class of the parsers (crates/parser/src/parser/mod.rs), through C07's model:
    0 = Ok, 1 = Err(ParseError), 10 + k = panic of builder class k (C07.Builder: 1 P_char, 2 P_radix,
    3 P_shape, 4 P_empty), 98 = the interpreter ran out of fuel (never observed) *)
Definition class_of {A} (r : presult A) : N :=
  match r with POk _ => 0 | PErr => 1 | PPanic k => 10 + k | PFuel => 98 end.

Definition parse_class (type_system : bool) (text : str) : N :=
  if type_system then class_of (parse_type_system_document 0 text)
  else class_of (parse_operation_document 0 text).
