//! Structured generators: schemas valid by construction and operation documents valid by
//! construction over them (spec-valid, not merely nitrogql-valid), with a record of which
//! spec coercions / features each document relies on. All randomness from `Rng`.
use crate::Rng;
use std::collections::{BTreeMap, BTreeSet};
use std::fmt::Write as _;

#[derive(Clone, Debug, PartialEq)]
pub enum Ty {
    Named(String),
    List(Box<Ty>),
    NonNull(Box<Ty>),
}
impl Ty {
    pub fn named(&self) -> &str {
        match self { Ty::Named(n) => n, Ty::List(t) | Ty::NonNull(t) => t.named() }
    }
    pub fn render(&self) -> String {
        match self { Ty::Named(n) => n.clone(), Ty::List(t) => format!("[{}]", t.render()), Ty::NonNull(t) => format!("{}!", t.render()) }
    }
    pub fn is_nonnull(&self) -> bool { matches!(self, Ty::NonNull(_)) }
    pub fn nullable(&self) -> &Ty { match self { Ty::NonNull(t) => t, t => t } }
}

#[derive(Clone, Debug)]
pub struct Arg { pub name: String, pub ty: Ty, pub default: Option<String>, pub desc: Option<String> }
#[derive(Clone, Debug)]
pub struct Field { pub name: String, pub args: Vec<Arg>, pub ty: Ty, pub deprecated: bool, pub desc: Option<String> }
#[derive(Clone, Debug)]
pub enum Kind {
    Scalar,
    Object { implements: Vec<String>, fields: Vec<Field> },
    Interface { implements: Vec<String>, fields: Vec<Field> },
    Union { members: Vec<String> },
    Enum { values: Vec<String> },
    Input { fields: Vec<Arg> },
}
#[derive(Clone, Debug)]
pub struct TypeDef { pub name: String, pub kind: Kind, pub desc: Option<String> }
#[derive(Clone, Debug)]
pub struct DirDef { pub name: String, pub args: Vec<Arg>, pub repeatable: bool, pub locations: Vec<String> }
#[derive(Clone, Debug)]
pub struct Schema {
    pub types: Vec<TypeDef>,
    pub directives: Vec<DirDef>,
    pub query: String,
    pub mutation: Option<String>,
    pub subscription: Option<String>,
    pub explicit_schema_def: bool,
}

pub const BUILTIN_SCALARS: &[&str] = &["Int", "Float", "String", "Boolean", "ID"];

impl Schema {
    pub fn get(&self, name: &str) -> Option<&TypeDef> { self.types.iter().find(|t| t.name == name) }
    pub fn is_leaf(&self, name: &str) -> bool {
        BUILTIN_SCALARS.contains(&name) || matches!(self.get(name).map(|t| &t.kind), Some(Kind::Scalar) | Some(Kind::Enum { .. }))
    }
    pub fn is_composite(&self, name: &str) -> bool {
        matches!(self.get(name).map(|t| &t.kind), Some(Kind::Object { .. }) | Some(Kind::Interface { .. }) | Some(Kind::Union { .. }))
    }
    pub fn fields_of(&self, name: &str) -> &[Field] {
        match self.get(name).map(|t| &t.kind) {
            Some(Kind::Object { fields, .. }) | Some(Kind::Interface { fields, .. }) => fields,
            _ => &[],
        }
    }
    /// object types that can be the runtime type of a value of type `name`
    pub fn possible(&self, name: &str) -> BTreeSet<String> {
        let mut s = BTreeSet::new();
        match self.get(name).map(|t| &t.kind) {
            Some(Kind::Object { .. }) => { s.insert(name.to_string()); }
            Some(Kind::Union { members }) => { for m in members { s.insert(m.clone()); } }
            Some(Kind::Interface { .. }) => {
                for t in &self.types {
                    if let Kind::Object { implements, .. } = &t.kind { if implements.iter().any(|i| i == name) { s.insert(t.name.clone()); } }
                }
            }
            _ => {}
        }
        s
    }
    /// the object `parent` declares field `fname` with a type that differs from (= is narrower than) the type an interface it
    /// implements declares for it (covariant narrowing: non-null, a concrete object / sub-interface / union member, non-null items)
    pub fn is_narrowed(&self, parent: &str, fname: &str) -> bool {
        let Some(TypeDef { kind: Kind::Object { implements, fields }, .. }) = self.get(parent) else { return false };
        let Some(f) = fields.iter().find(|f| f.name == fname) else { return false };
        implements.iter().any(|i| self.fields_of(i).iter().any(|g| g.name == fname && g.ty != f.ty))
    }
    pub fn composites(&self) -> Vec<String> { self.types.iter().filter(|t| self.is_composite(&t.name)).map(|t| t.name.clone()).collect() }
    /// composite types whose possible types intersect those of `parent`
    pub fn applicable(&self, parent: &str) -> Vec<String> {
        let p = self.possible(parent);
        self.composites().into_iter().filter(|c| !self.possible(c).is_disjoint(&p)).collect()
    }
    pub fn render(&self) -> String { render_schema(self, None) }
}

fn desc_str(d: &Option<String>, indent: &str, out: &mut String) {
    if let Some(d) = d {
        if d.contains('\n') { let _ = writeln!(out, "{indent}\"\"\"\n{indent}{}\n{indent}\"\"\"", d.replace('\n', &format!("\n{indent}"))); }
        else { let _ = writeln!(out, "{indent}\"{}\"", d.replace('\\', "\\\\").replace('"', "\\\"")); }
    }
}
fn render_args(args: &[Arg]) -> String {
    if args.is_empty() { return String::new(); }
    let parts: Vec<String> = args.iter().map(|a| format!("{}: {}{}", a.name, a.ty.render(), a.default.as_ref().map(|d| format!(" = {d}")).unwrap_or_default())).collect();
    format!("({})", parts.join(", "))
}
fn render_fields(fields: &[Field], out: &mut String) {
    out.push_str(" {\n");
    for f in fields {
        desc_str(&f.desc, "  ", out);
        let _ = writeln!(out, "  {}{}: {}{}", f.name, render_args(&f.args), f.ty.render(), if f.deprecated { " @deprecated(reason: \"old\")" } else { "" });
    }
    out.push_str("}\n");
}
/// `only`: render just the types whose index is in the set (used to split a schema over files)
pub fn render_schema(s: &Schema, only: Option<&BTreeSet<usize>>) -> String {
    let mut out = String::new();
    let all = only.is_none();
    if all || only.unwrap().contains(&usize::MAX) {
        if s.explicit_schema_def {
            let _ = writeln!(out, "schema {{\n  query: {}", s.query);
            if let Some(m) = &s.mutation { let _ = writeln!(out, "  mutation: {m}"); }
            if let Some(m) = &s.subscription { let _ = writeln!(out, "  subscription: {m}"); }
            out.push_str("}\n");
        }
        for d in &s.directives {
            let _ = writeln!(out, "directive @{}{}{} on {}", d.name, render_args(&d.args), if d.repeatable { " repeatable" } else { "" }, d.locations.join(" | "));
        }
    }
    for (i, t) in s.types.iter().enumerate() {
        if !all && !only.unwrap().contains(&i) { continue; }
        desc_str(&t.desc, "", &mut out);
        match &t.kind {
            Kind::Scalar => { let _ = writeln!(out, "scalar {}", t.name); }
            Kind::Object { implements, fields } => {
                let _ = write!(out, "type {}{}", t.name, if implements.is_empty() { String::new() } else { format!(" implements {}", implements.join(" & ")) });
                render_fields(fields, &mut out);
            }
            Kind::Interface { implements, fields } => {
                let _ = write!(out, "interface {}{}", t.name, if implements.is_empty() { String::new() } else { format!(" implements {}", implements.join(" & ")) });
                render_fields(fields, &mut out);
            }
            Kind::Union { members } => { let _ = writeln!(out, "union {} = {}", t.name, members.join(" | ")); }
            Kind::Enum { values } => { let _ = writeln!(out, "enum {} {{\n  {}\n}}", t.name, values.join("\n  ")); }
            Kind::Input { fields } => {
                let _ = writeln!(out, "input {} {{", t.name);
                for f in fields { desc_str(&f.desc, "  ", &mut out); let _ = writeln!(out, "  {}: {}{}", f.name, f.ty.render(), f.default.as_ref().map(|d| format!(" = {d}")).unwrap_or_default()); }
                out.push_str("}\n");
            }
        }
    }
    out
}

fn wrap(rng: &mut Rng, base: &str) -> Ty {
    let mut t = Ty::Named(base.to_string());
    if rng.chance(1, 2) { t = Ty::NonNull(Box::new(t)); }
    let lists = match rng.below(10) { 0..=5 => 0, 6..=8 => 1, _ => 2 };
    for _ in 0..lists {
        t = Ty::List(Box::new(t));
        if rng.chance(1, 2) { t = Ty::NonNull(Box::new(t)); }
    }
    t
}

pub struct SchemaCfg { pub descriptions: bool, pub custom_directives: bool }
impl Default for SchemaCfg { fn default() -> Self { SchemaCfg { descriptions: true, custom_directives: true } } }

pub fn gen_schema(rng: &mut Rng, cfg: &SchemaCfg) -> Schema {
    let mut types: Vec<TypeDef> = vec![];
    let desc = |rng: &mut Rng| -> Option<String> {
        if !cfg.descriptions || !rng.chance(1, 5) { return None; }
        Some((*rng.pick(&["a description", "multi\nline", "with \"quotes\"", "back\\slash", "tick ` and ${x}", "unicode é 日本"])).to_string())
    };
    // scalars, enums
    let n_scalar = rng.below(3);
    for i in 0..n_scalar { types.push(TypeDef { name: ["Date", "JSON", "Url"][i].into(), kind: Kind::Scalar, desc: desc(rng) }); }
    let n_enum = rng.range(1, 2);
    for i in 0..n_enum {
        let n = rng.range(2, 4);
        types.push(TypeDef { name: format!("E{i}"), kind: Kind::Enum { values: (0..n).map(|k| format!("V{i}{k}")).collect() }, desc: desc(rng) });
    }
    let leafs: Vec<String> = BUILTIN_SCALARS.iter().map(|s| s.to_string()).chain(types.iter().map(|t| t.name.clone())).collect();
    // input objects
    let n_input = rng.range(1, 3);
    let input_names: Vec<String> = (0..n_input).map(|i| format!("In{i}")).collect();
    for i in 0..n_input {
        let nf = rng.range(1, 4);
        let mut fields = vec![];
        for k in 0..nf {
            let (ty, default) = if rng.chance(1, 4) {
                // reference to an input object: nullable or list to keep finite inhabitants
                let target = rng.pick(&input_names).clone();
                (if rng.chance(1, 2) { Ty::Named(target) } else { Ty::List(Box::new(Ty::NonNull(Box::new(Ty::Named(target))))) }, None)
            } else {
                let base = rng.pick(&leafs).clone();
                let ty = wrap(rng, &base);
                let default = if rng.chance(1, 4) { Some(literal_for(rng, &ty, &types, &mut vec![], false)) } else { None };
                (ty, default)
            };
            fields.push(Arg { name: format!("i{k}"), ty, default, desc: desc(rng) });
        }
        types.push(TypeDef { name: format!("In{i}"), kind: Kind::Input { fields }, desc: desc(rng) });
    }
    let input_types: Vec<String> = leafs.iter().cloned().chain(input_names.iter().cloned()).collect();
    // composite names
    let n_iface = rng.below(3);
    let n_obj = rng.range(2, 4);
    let n_union = rng.below(3);
    let iface_names: Vec<String> = (0..n_iface).map(|i| format!("I{i}")).collect();
    let obj_names: Vec<String> = (0..n_obj).map(|i| format!("O{i}")).collect();
    let union_names: Vec<String> = (0..n_union).map(|i| format!("U{i}")).collect();
    let out_types: Vec<String> = leafs.iter().cloned().chain(iface_names.iter().cloned()).chain(obj_names.iter().cloned()).chain(union_names.iter().cloned()).collect();
    // global field pool: a field name determines its type and arguments everywhere
    let n_pool = rng.range(5, 9);
    let mut pool: Vec<Field> = vec![];
    for k in 0..n_pool {
        let base = if k < 2 { rng.pick(&leafs).clone() } else { rng.pick(&out_types).clone() };
        let ty = wrap(rng, &base);
        let mut args = vec![];
        if rng.chance(2, 5) {
            for a in 0..rng.range(1, 3) {
                let base = rng.pick(&input_types).clone();
                let ty = wrap(rng, &base);
                let default = if rng.chance(1, 4) { Some(literal_for(rng, &ty, &types, &mut vec![], false)) } else { None };
                args.push(Arg { name: format!("a{a}"), ty, default, desc: None });
            }
        }
        pool.push(Field { name: format!("f{k}"), args, ty, deprecated: rng.chance(1, 10), desc: desc(rng) });
    }
    // interfaces: Ik may implement earlier interfaces; fields include theirs
    let mut iface_fields: BTreeMap<String, Vec<Field>> = BTreeMap::new();
    let mut iface_impls: BTreeMap<String, Vec<String>> = BTreeMap::new();
    for (i, name) in iface_names.iter().enumerate() {
        let mut impls: Vec<String> = vec![];
        if i > 0 && rng.chance(1, 2) {
            let parent = iface_names[rng.below(i)].clone();
            for p in iface_impls[&parent].clone() { if !impls.contains(&p) { impls.push(p); } }
            impls.push(parent);
        }
        let mut fields: Vec<Field> = vec![];
        for p in &impls { for f in &iface_fields[p] { if !fields.iter().any(|g| g.name == f.name) { fields.push(f.clone()); } } }
        for _ in 0..rng.range(1, 3) { let f = rng.pick(&pool).clone(); if !fields.iter().any(|g| g.name == f.name) { fields.push(f); } }
        iface_fields.insert(name.clone(), fields.clone());
        iface_impls.insert(name.clone(), impls.clone());
        types.push(TypeDef { name: name.clone(), kind: Kind::Interface { implements: impls, fields }, desc: desc(rng) });
    }
    for name in &obj_names {
        let mut impls: Vec<String> = vec![];
        for i in &iface_names {
            if rng.chance(1, 2) {
                for p in iface_impls[i].clone() { if !impls.contains(&p) { impls.push(p); } }
                if !impls.contains(i) { impls.push(i.clone()); }
            }
        }
        let mut fields: Vec<Field> = vec![];
        for p in &impls { for f in &iface_fields[p] { if !fields.iter().any(|g| g.name == f.name) { fields.push(f.clone()); } } }
        for _ in 0..rng.range(1, 4) { let f = rng.pick(&pool).clone(); if !fields.iter().any(|g| g.name == f.name) { fields.push(f); } }
        types.push(TypeDef { name: name.clone(), kind: Kind::Object { implements: impls, fields }, desc: desc(rng) });
    }
    // every interface gets at least one implementing object (a spread on it is otherwise never applicable)
    for i in &iface_names {
        let has = types.iter().any(|t| matches!(&t.kind, Kind::Object { implements, .. } if implements.contains(i)));
        if has { continue; }
        let target = rng.pick(&obj_names).clone();
        let mut need: Vec<String> = iface_impls[i].clone();
        need.push(i.clone());
        for t in types.iter_mut() {
            if t.name != target { continue; }
            if let Kind::Object { implements, fields } = &mut t.kind {
                for n in &need {
                    if !implements.contains(n) { implements.push(n.clone()); }
                    for f in &iface_fields[n] { if !fields.iter().any(|g| g.name == f.name) { fields.push(f.clone()); } }
                }
            }
        }
    }
    for name in &union_names {
        let mut members: Vec<String> = vec![];
        for o in &obj_names { if rng.chance(1, 2) { members.push(o.clone()); } }
        if members.is_empty() { members.push(obj_names[0].clone()); }
        types.push(TypeDef { name: name.clone(), kind: Kind::Union { members }, desc: desc(rng) });
    }
    // covariant narrowing: about a quarter of the fields an object inherits from an interface get a narrower type
    // (non-null where the interface is nullable; an implementing object / sub-interface / union member where the interface
    // field has an interface or union type; non-null list items). The interface keeps the pool type, so a field name still
    // determines its type everywhere EXCEPT on such objects; gen_doc gives a narrowed field a fresh alias whenever it selects
    // it on the object, so same-key selections keep one response shape (documents stay spec-valid).
    {
        let snapshot = types.clone();
        let impls_of = |n: &str| -> Vec<String> { match snapshot.iter().find(|t| t.name == n).map(|t| &t.kind) {
            Some(Kind::Object { implements, .. }) | Some(Kind::Interface { implements, .. }) => implements.clone(), _ => vec![] } };
        for t in types.iter_mut() {
            let Kind::Object { implements, fields } = &mut t.kind else { continue };
            if implements.is_empty() { continue; }
            for f in fields.iter_mut() {
                let inherited = implements.iter().any(|i| iface_fields.get(i).map_or(false, |fs| fs.iter().any(|g| g.name == f.name)));
                if !inherited || !rng.chance(1, 4) { continue; }
                let named = f.ty.named().to_string();
                // candidates for a narrower named type
                let mut cands: Vec<String> = vec![];
                match snapshot.iter().find(|x| x.name == named).map(|x| &x.kind) {
                    Some(Kind::Interface { .. }) => { for x in &snapshot { if matches!(x.kind, Kind::Object { .. } | Kind::Interface { .. }) && impls_of(&x.name).contains(&named) { cands.push(x.name.clone()); } } }
                    Some(Kind::Union { members }) => cands = members.clone(),
                    _ => {}
                }
                fn has_nullable_item(t: &Ty) -> bool { match t { Ty::Named(_) => false, Ty::NonNull(i) => has_nullable_item(i), Ty::List(i) => !i.is_nonnull() || has_nullable_item(i) } }
                fn nonnull_items(t: &Ty) -> Ty { match t { Ty::Named(_) => t.clone(), Ty::NonNull(i) => Ty::NonNull(Box::new(nonnull_items(i))),
                    Ty::List(i) => { let j = nonnull_items(i); Ty::List(Box::new(if j.is_nonnull() { j } else { Ty::NonNull(Box::new(j)) })) } } }
                fn rename(t: &Ty, to: &str) -> Ty { match t { Ty::Named(_) => Ty::Named(to.to_string()), Ty::NonNull(i) => Ty::NonNull(Box::new(rename(i, to))), Ty::List(i) => Ty::List(Box::new(rename(i, to))) } }
                let mut kinds: Vec<u8> = vec![];
                if !f.ty.is_nonnull() { kinds.push(0); }
                if !cands.is_empty() { kinds.push(1); kinds.push(1); }
                if has_nullable_item(&f.ty) { kinds.push(2); }
                if kinds.is_empty() { continue; }
                let n_steps = if rng.chance(1, 3) { 2 } else { 1 };
                for _ in 0..n_steps {
                    match *rng.pick(&kinds) {
                        0 => { if !f.ty.is_nonnull() { f.ty = Ty::NonNull(Box::new(f.ty.clone())); } }
                        1 => { let to = rng.pick(&cands).clone(); f.ty = rename(&f.ty, &to); }
                        _ => { f.ty = nonnull_items(&f.ty); }
                    }
                }
            }
        }
    }
    // roots
    let explicit = rng.chance(1, 2);
    let qname = if explicit && rng.chance(1, 2) { "RootQ" } else { "Query" }.to_string();
    let mut root_fields: Vec<Field> = pool.clone();
    root_fields.truncate(rng.range(3, pool.len()));
    // make sure every composite type is reachable from the query root
    for (k, c) in iface_names.iter().chain(obj_names.iter()).chain(union_names.iter()).enumerate() {
        root_fields.push(Field { name: format!("r{k}"), args: vec![], ty: wrap(rng, c), deprecated: false, desc: None });
    }
    types.push(TypeDef { name: qname.clone(), kind: Kind::Object { implements: vec![], fields: root_fields }, desc: None });
    let mutation = if rng.chance(1, 2) {
        let n = if explicit && rng.chance(1, 2) { "RootM" } else { "Mutation" }.to_string();
        let mut fs: Vec<Field> = vec![];
        for _ in 0..rng.range(1, 3) { let f = rng.pick(&pool).clone(); if !fs.iter().any(|g| g.name == f.name) { fs.push(f); } }
        types.push(TypeDef { name: n.clone(), kind: Kind::Object { implements: vec![], fields: fs }, desc: None });
        Some(n)
    } else { None };
    let subscription = if rng.chance(1, 3) {
        let n = if explicit && rng.chance(1, 2) { "RootS" } else { "Subscription" }.to_string();
        let mut fs: Vec<Field> = vec![];
        for _ in 0..rng.range(1, 2) { let f = rng.pick(&pool).clone(); if !fs.iter().any(|g| g.name == f.name) { fs.push(f); } }
        types.push(TypeDef { name: n.clone(), kind: Kind::Object { implements: vec![], fields: fs }, desc: None });
        Some(n)
    } else { None };
    let explicit = explicit || qname != "Query" || mutation.as_deref().map_or(false, |m| m != "Mutation") || subscription.as_deref().map_or(false, |m| m != "Subscription");
    let mut directives = vec![];
    if cfg.custom_directives {
        directives.push(DirDef { name: "tag".into(), args: vec![Arg { name: "name".into(), ty: Ty::NonNull(Box::new(Ty::Named("String".into()))), default: None, desc: None }],
            repeatable: true, locations: ["QUERY", "MUTATION", "SUBSCRIPTION", "FIELD", "FRAGMENT_DEFINITION", "FRAGMENT_SPREAD", "INLINE_FRAGMENT", "VARIABLE_DEFINITION"].iter().map(|s| s.to_string()).collect() });
        directives.push(DirDef { name: "once".into(), args: vec![Arg { name: "n".into(), ty: Ty::Named("Int".into()), default: Some("1".into()), desc: None }],
            repeatable: false, locations: ["FIELD", "QUERY"].iter().map(|s| s.to_string()).collect() });
    }
    Schema { types, directives, query: qname, mutation, subscription, explicit_schema_def: explicit }
}

/// A literal of (input) type `ty`. `features` records the spec coercions relied upon when
/// `coercions` is true: "int-for-float", "int-for-id", "single-for-list".
pub fn literal_for(rng: &mut Rng, ty: &Ty, types: &[TypeDef], features: &mut Vec<&'static str>, coercions: bool) -> String {
    lit(rng, ty, types, features, coercions, 0)
}
fn lit(rng: &mut Rng, ty: &Ty, types: &[TypeDef], features: &mut Vec<&'static str>, co: bool, depth: usize) -> String {
    match ty {
        Ty::NonNull(t) => lit_nn(rng, t, types, features, co, depth),
        t => if rng.chance(1, 8) { "null".into() } else { lit_nn(rng, t, types, features, co, depth) },
    }
}
fn lit_nn(rng: &mut Rng, ty: &Ty, types: &[TypeDef], features: &mut Vec<&'static str>, co: bool, depth: usize) -> String {
    match ty {
        Ty::NonNull(t) => lit_nn(rng, t, types, features, co, depth),
        Ty::List(t) => {
            if co && rng.chance(1, 10) && !matches!(**t, Ty::List(_)) && !matches!(t.nullable(), Ty::List(_)) {
                features.push("single-for-list");
                return lit_nn(rng, t, types, features, co, depth);
            }
            let n = rng.below(3);
            let items: Vec<String> = (0..n).map(|_| lit(rng, t, types, features, co, depth)).collect();
            format!("[{}]", items.join(", "))
        }
        Ty::Named(n) => match n.as_str() {
            "Int" => (*rng.pick(&["0", "1", "-7", "42"])).to_string(),
            "Float" => if co && rng.chance(1, 6) { features.push("int-for-float"); "3".into() } else { (*rng.pick(&["1.5", "-0.25", "2e3", "1.0E-2"])).to_string() },
            "String" => (*rng.pick(&["\"\"", "\"s\"", "\"a b\"", "\"q\\\"q\"", "\"\\u00e9\""])).to_string(),
            "Boolean" => (*rng.pick(&["true", "false"])).to_string(),
            "ID" => if co && rng.chance(1, 6) { features.push("int-for-id"); "5".into() } else { "\"id1\"".into() },
            other => match types.iter().find(|t| t.name == other).map(|t| &t.kind) {
                Some(Kind::Enum { values }) => rng.pick(values).clone(),
                Some(Kind::Scalar) => (*rng.pick(&["\"x\"", "1", "true", "{k: 1}", "[1, \"a\"]"])).to_string(),
                Some(Kind::Input { fields }) => {
                    let mut parts = vec![];
                    for f in fields {
                        let required = f.ty.is_nonnull() && f.default.is_none();
                        if required || (depth < 2 && rng.chance(1, 2)) {
                            if depth >= 2 && !required { continue; }
                            if depth >= 3 { if required { parts.push(format!("{}: {}", f.name, lit(rng, &f.ty, types, features, co, depth + 1))); } continue; }
                            parts.push(format!("{}: {}", f.name, lit(rng, &f.ty, types, features, co, depth + 1)));
                        }
                    }
                    format!("{{{}}}", parts.join(", "))
                }
                _ => "null".into(),
            },
        },
    }
}

// ---------------------------------------------------------------- operation documents

#[derive(Clone, Debug)]
pub enum Sel {
    Field { alias: Option<String>, name: String, args: Vec<(String, String)>, dirs: Vec<String>, sub: Option<Vec<Sel>> },
    Spread { name: String, dirs: Vec<String> },
    Inline { cond: Option<String>, dirs: Vec<String>, sub: Vec<Sel> },
}
#[derive(Clone, Debug)]
pub struct VarDef { pub name: String, pub ty: String, pub default: Option<String>, pub dirs: Vec<String> }
#[derive(Clone, Debug)]
pub struct Op { pub kind: String, pub name: Option<String>, pub vars: Vec<VarDef>, pub dirs: Vec<String>, pub sel: Vec<Sel>, pub shorthand: bool }
#[derive(Clone, Debug)]
pub struct Frag { pub name: String, pub cond: String, pub dirs: Vec<String>, pub sel: Vec<Sel> }
#[derive(Clone, Debug, Default)]
pub struct Doc { pub ops: Vec<Op>, pub frags: Vec<Frag>, pub features: Vec<&'static str> }

pub fn render_sels(sels: &[Sel], ind: usize, out: &mut String) {
    out.push_str("{\n");
    for s in sels {
        for _ in 0..ind + 1 { out.push_str("  "); }
        match s {
            Sel::Field { alias, name, args, dirs, sub } => {
                if let Some(a) = alias { let _ = write!(out, "{a}: "); }
                out.push_str(name);
                if !args.is_empty() { let _ = write!(out, "({})", args.iter().map(|(k, v)| format!("{k}: {v}")).collect::<Vec<_>>().join(", ")); }
                for d in dirs { let _ = write!(out, " {d}"); }
                if let Some(sub) = sub { out.push(' '); render_sels(sub, ind + 1, out); } else { out.push('\n'); }
            }
            Sel::Spread { name, dirs } => { let _ = write!(out, "...{name}"); for d in dirs { let _ = write!(out, " {d}"); } out.push('\n'); }
            Sel::Inline { cond, dirs, sub } => {
                out.push_str("...");
                if let Some(c) = cond { let _ = write!(out, " on {c}"); }
                for d in dirs { let _ = write!(out, " {d}"); }
                out.push(' ');
                render_sels(sub, ind + 1, out);
            }
        }
    }
    for _ in 0..ind { out.push_str("  "); }
    out.push_str("}\n");
}
impl Doc {
    pub fn render(&self) -> String {
        let mut out = String::new();
        for o in &self.ops {
            if !(o.shorthand && o.kind == "query" && o.name.is_none() && o.vars.is_empty() && o.dirs.is_empty()) {
                out.push_str(&o.kind);
                if let Some(n) = &o.name { let _ = write!(out, " {n}"); }
                if !o.vars.is_empty() {
                    let vs: Vec<String> = o.vars.iter().map(|v| format!("${}: {}{}{}", v.name, v.ty, v.default.as_ref().map(|d| format!(" = {d}")).unwrap_or_default(),
                        v.dirs.iter().map(|d| format!(" {d}")).collect::<String>())).collect();
                    let _ = write!(out, "({})", vs.join(", "));
                }
                for d in &o.dirs { let _ = write!(out, " {d}"); }
                out.push(' ');
            }
            render_sels(&o.sel, 0, &mut out);
        }
        for f in &self.frags {
            let _ = write!(out, "fragment {} on {}", f.name, f.cond);
            for d in &f.dirs { let _ = write!(out, " {d}"); }
            out.push(' ');
            render_sels(&f.sel, 0, &mut out);
        }
        out
    }
}

pub struct DocCfg {
    pub max_depth: usize,
    pub coercions: bool,       // rely on spec input coercions (int for float/ID, single value for list)
    pub variables: bool,
    pub fragments: bool,
    pub skip_include: bool,
    pub custom_directives: bool,
    pub typename: bool,
    pub shorthand: bool,
    pub duplicates: bool,      // repeated response keys (identical field) whose sub-selections must merge
}
impl Default for DocCfg {
    fn default() -> Self { DocCfg { max_depth: 4, coercions: false, variables: true, fragments: true, skip_include: true, custom_directives: true, typename: true, shorthand: false, duplicates: true } }
}

struct G<'a> {
    s: &'a Schema, cfg: &'a DocCfg,
    vars: Vec<VarDef>,            // variables of the operation being generated (None when inside a shared fragment)
    allow_vars: bool,
    bool_vars: Vec<String>,
    frags: Vec<Frag>, pending: Vec<(String, String)>, frag_counter: usize,
    alias_counter: usize, var_counter: usize,
    features: Vec<&'static str>,
}

impl<'a> G<'a> {
    fn cond_dirs(&mut self, rng: &mut Rng, loc: &str) -> Vec<String> {
        let mut ds = vec![];
        if self.cfg.skip_include && rng.chance(1, 5) {
            let which = if rng.chance(1, 2) { "skip" } else { "include" };
            let cond = if self.allow_vars && self.cfg.variables && rng.chance(1, 2) {
                let v = if !self.bool_vars.is_empty() && rng.chance(2, 3) { rng.pick(&self.bool_vars).clone() } else {
                    let n = format!("b{}", self.bool_vars.len());
                    self.bool_vars.push(n.clone());
                    self.vars.push(VarDef { name: n.clone(), ty: "Boolean!".into(), default: None, dirs: vec![] });
                    n
                };
                format!("${v}")
            } else { (*rng.pick(&["true", "false"])).to_string() };
            ds.push(format!("@{which}(if: {cond})"));
            if rng.chance(1, 6) { let other = if which == "skip" { "include" } else { "skip" }; ds.push(format!("@{other}(if: {})", rng.pick(&["true", "false"]))); }
        }
        if self.cfg.custom_directives && !self.s.directives.is_empty() && rng.chance(1, 12) {
            if let Some(tag) = self.s.directives.iter().find(|d| d.name == "tag") {
                if tag.locations.iter().any(|l| l == loc) {
                    ds.push("@tag(name: \"t\")".into());
                    if rng.chance(1, 3) { ds.push("@tag(name: \"u\")".into()); }
                }
            }
        }
        ds
    }
    fn arg_value(&mut self, rng: &mut Rng, ty: &Ty) -> String {
        if self.allow_vars && self.cfg.variables && rng.chance(1, 3) {
            let n = format!("v{}", self.var_counter);
            self.var_counter += 1;
            // declared with exactly the argument type (always compatible), sometimes stricter
            let decl = if !ty.is_nonnull() && rng.chance(1, 4) { Ty::NonNull(Box::new(ty.clone())) } else { ty.clone() };
            // defaults are legal on nullable and on non-null variables alike
            let default = if rng.chance(1, 4) { Some(literal_for(rng, &decl, &self.s.types, &mut vec![], false)) } else { None };
            self.vars.push(VarDef { name: n.clone(), ty: decl.render(), default, dirs: vec![] });
            return format!("${n}");
        }
        let mut f = vec![];
        let v = literal_for(rng, ty, &self.s.types, &mut f, self.cfg.coercions);
        self.features.extend(f);
        v
    }
    fn field_sel(&mut self, rng: &mut Rng, f: &Field, depth: usize, force_alias: bool) -> Sel {
        let mut args = vec![];
        for a in &f.args {
            let required = a.ty.is_nonnull() && a.default.is_none();
            if required || rng.chance(1, 2) { let v = self.arg_value(rng, &a.ty); args.push((a.name.clone(), v)); }
        }
        let alias = if !args.is_empty() || force_alias || rng.chance(1, 6) { self.alias_counter += 1; Some(format!("k{}", self.alias_counter)) } else { None };
        let dirs = self.cond_dirs(rng, "FIELD");
        let base = f.ty.named().to_string();
        let sub = if self.s.is_composite(&base) { Some(self.selset(rng, &base, depth + 1)) } else { None };
        Sel::Field { alias, name: f.name.clone(), args, dirs, sub }
    }
    fn selset(&mut self, rng: &mut Rng, parent: &str, depth: usize) -> Vec<Sel> {
        let mut sels: Vec<Sel> = vec![];
        let fields: Vec<Field> = self.s.fields_of(parent).to_vec();
        let deep = depth >= self.cfg.max_depth;
        let n = rng.range(1, 4);
        for _ in 0..n {
            let r = rng.below(10);
            if self.cfg.typename && r == 0 {
                let alias = if rng.chance(1, 5) { self.alias_counter += 1; Some(format!("k{}", self.alias_counter)) } else { None };
                sels.push(Sel::Field { alias, name: "__typename".into(), args: vec![], dirs: vec![], sub: None });
            } else if self.cfg.fragments && !deep && r <= 2 {
                // inline fragment
                let cond = if rng.chance(1, 5) { None } else { Some(rng.pick(&self.s.applicable(parent)).clone()) };
                let target = cond.clone().unwrap_or(parent.to_string());
                let dirs = self.cond_dirs(rng, "INLINE_FRAGMENT");
                let sub = self.selset(rng, &target, depth + 1);
                sels.push(Sel::Inline { cond, dirs, sub });
            } else if self.cfg.fragments && !deep && r == 3 {
                let target = rng.pick(&self.s.applicable(parent)).clone();
                // reuse an existing pending/newer fragment on an applicable type, or make a new one
                self.frag_counter += 1;
                let name = format!("F{}", self.frag_counter);
                self.pending.push((name.clone(), target));
                let dirs = self.cond_dirs(rng, "FRAGMENT_SPREAD");
                sels.push(Sel::Spread { name: name.clone(), dirs });
                // the same fragment spread a second time in the same scope (directly or inside an
                // inline fragment), usually under different conditions
                if rng.chance(1, 4) {
                    let dirs2 = self.cond_dirs(rng, "FRAGMENT_SPREAD");
                    if rng.chance(1, 2) {
                        sels.push(Sel::Spread { name, dirs: dirs2 });
                    } else {
                        let idirs = self.cond_dirs(rng, "INLINE_FRAGMENT");
                        sels.push(Sel::Inline { cond: None, dirs: idirs, sub: vec![Sel::Spread { name, dirs: dirs2 }] });
                    }
                }
            } else if !fields.is_empty() {
                let leafs: Vec<&Field> = fields.iter().filter(|f| self.s.is_leaf(f.ty.named())).collect();
                let f = if deep && !leafs.is_empty() { (*rng.pick(&leafs)).clone() } else { rng.pick(&fields).clone() };
                if deep && self.s.is_composite(f.ty.named()) { continue; }
                let narrowed = self.s.is_narrowed(parent, &f.name);
                let sel = self.field_sel(rng, &f, depth, narrowed);
                // deliberate duplicate of a composite field without arguments: sub-selections must merge
                if self.cfg.duplicates && rng.chance(1, 6) {
                    if let Sel::Field { alias: None, name, args, sub: Some(_), .. } = &sel {
                        if args.is_empty() {
                            let base = f.ty.named().to_string();
                            let mut sub2 = self.selset(rng, &base, depth + 1);
                            // re-select one aliased field of the first occurrence under the SAME alias
                            // (same field, same arguments): sub-selections / conditions must merge per key
                            if let Sel::Field { sub: Some(first_sub), .. } = &sel {
                                let aliased: Vec<&Sel> = first_sub.iter().filter(|x| matches!(x, Sel::Field { alias: Some(_), name, .. } if name != "__typename")).collect();
                                if !aliased.is_empty() && rng.chance(1, 2) {
                                    if let Sel::Field { alias, name: n2, args: a2, sub: s2, .. } = (*rng.pick(&aliased)).clone() {
                                        let fdef = self.s.fields_of(&base).iter().find(|g| g.name == n2).cloned();
                                        if let Some(fdef) = fdef {
                                            let tbase = fdef.ty.named().to_string();
                                            let nsub = if s2.is_some() { Some(self.selset(rng, &tbase, depth + 2)) } else { None };
                                            let d2 = self.cond_dirs(rng, "FIELD");
                                            sub2.push(Sel::Field { alias, name: n2, args: a2, dirs: d2, sub: nsub });
                                        }
                                    }
                                }
                            }
                            let dirs = self.cond_dirs(rng, "FIELD");
                            sels.push(Sel::Field { alias: None, name: name.clone(), args: vec![], dirs, sub: Some(sub2) });
                        }
                    }
                }
                sels.push(sel);
            }
        }
        if sels.is_empty() {
            // unions / empty: __typename is always selectable
            sels.push(Sel::Field { alias: None, name: "__typename".into(), args: vec![], dirs: vec![], sub: None });
        }
        sels
    }
    fn drain_pending(&mut self, rng: &mut Rng) {
        while let Some((name, target)) = self.pending.pop() {
            let sel = self.selset(rng, &target, 2);
            let dirs = if self.cfg.custom_directives && self.s.directives.iter().any(|d| d.name == "tag") && rng.chance(1, 10) { vec!["@tag(name: \"f\")".into()] } else { vec![] };
            self.frags.push(Frag { name, cond: target, dirs, sel });
        }
    }
}

/// ensure unaliased duplicate response keys are safe: the generator aliases every field with
/// arguments, and field names determine types, so remaining duplicates are mergeable by construction.
pub fn gen_doc(rng: &mut Rng, s: &Schema, cfg: &DocCfg) -> Doc {
    let n_ops = match rng.below(10) { 0..=6 => 1, 7..=8 => 2, _ => 3 };
    let mut g = G { s, cfg, vars: vec![], allow_vars: true, bool_vars: vec![], frags: vec![], pending: vec![], frag_counter: 0, alias_counter: 0, var_counter: 0, features: vec![] };
    let mut ops = vec![];
    for i in 0..n_ops {
        let mut kinds = vec![("query", s.query.clone())];
        if let Some(m) = &s.mutation { kinds.push(("mutation", m.clone())); }
        if let Some(m) = &s.subscription { kinds.push(("subscription", m.clone())); }
        let (kind, root) = rng.pick(&kinds).clone();
        g.vars = vec![]; g.bool_vars = vec![]; g.var_counter = i * 100;
        // variables may be used inside fragments only when the document has a single operation
        g.allow_vars = true;
        let sel = if kind == "subscription" {
            let fs = s.fields_of(&root).to_vec();
            let f = rng.pick(&fs).clone();
            let save = g.cfg.skip_include;
            let _ = save;
            let mut sel = g.field_sel(rng, &f, 1, false);
            if let Sel::Field { dirs, .. } = &mut sel { dirs.retain(|d| !d.starts_with("@skip") && !d.starts_with("@include")); }
            vec![sel]
        } else { g.selset(rng, &root, 1) };
        // fragments reached from this operation: generated now, with variables allowed only if single-op document
        g.allow_vars = n_ops == 1;
        g.drain_pending(rng);
        g.allow_vars = true;
        let name = if n_ops == 1 && rng.chance(1, 4) { None } else { Some(format!("Op{i}")) };
        let mut dirs = vec![];
        if cfg.custom_directives && kind == "query" && s.directives.iter().any(|d| d.name == "once") && rng.chance(1, 10) { dirs.push("@once".into()); }
        let mut vars = std::mem::take(&mut g.vars);
        if cfg.custom_directives && s.directives.iter().any(|d| d.name == "tag") { for v in vars.iter_mut() { if rng.chance(1, 10) { v.dirs.push("@tag(name: \"v\")".into()); } } }
        ops.push(Op { kind: kind.to_string(), name, vars, dirs, sel, shorthand: cfg.shorthand && rng.chance(1, 3) });
    }
    let mut doc = Doc { ops, frags: g.frags, features: g.features };
    // operations and fragments live in separate name spaces: sometimes give a fragment the name of an operation
    if !doc.frags.is_empty() && rng.chance(1, 8) {
        let op_names: Vec<String> = doc.ops.iter().filter_map(|o| o.name.clone()).collect();
        if !op_names.is_empty() {
            let new_name = rng.pick(&op_names).clone();
            let fi = rng.below(doc.frags.len());
            let old_name = doc.frags[fi].name.clone();
            if !doc.frags.iter().any(|f| f.name == new_name) {
                fn rename(sels: &mut Vec<Sel>, old: &str, new: &str) {
                    for s in sels.iter_mut() {
                        match s {
                            Sel::Spread { name, .. } => { if name == old { *name = new.to_string(); } }
                            Sel::Field { sub: Some(sub), .. } => rename(sub, old, new),
                            Sel::Inline { sub, .. } => rename(sub, old, new),
                            _ => {}
                        }
                    }
                }
                doc.frags[fi].name = new_name.clone();
                for o in doc.ops.iter_mut() { rename(&mut o.sel, &old_name, &new_name); }
                for f in doc.frags.iter_mut() { rename(&mut f.sel, &old_name, &new_name); }
            }
        }
    }
    doc
}
