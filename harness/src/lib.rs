//! Shared pieces of the correspondence harness: PRNG, Coq term printing, case-file writer.
pub mod ast_coq;
pub mod gen;
pub mod pipeline;
pub mod rec;
pub mod ts_coq;

use std::fmt::Write as _;
use std::fs;
use std::path::{Path, PathBuf};

/// SplitMix64: every random choice of a run derives from one state seeded by VERIF_SEED.
#[derive(Clone)]
pub struct Rng(pub u64);
impl Rng {
    pub fn new(seed: u64) -> Self {
        Rng(seed ^ 0x9E3779B97F4A7C15)
    }
    pub fn next(&mut self) -> u64 {
        self.0 = self.0.wrapping_add(0x9E3779B97F4A7C15);
        let mut z = self.0;
        z = (z ^ (z >> 30)).wrapping_mul(0xBF58476D1CE4E5B9);
        z = (z ^ (z >> 27)).wrapping_mul(0x94D049BB133111EB);
        z ^ (z >> 31)
    }
    pub fn below(&mut self, n: usize) -> usize {
        if n == 0 { 0 } else { (self.next() % n as u64) as usize }
    }
    pub fn range(&mut self, lo: usize, hi: usize) -> usize {
        lo + self.below(hi - lo + 1)
    }
    pub fn chance(&mut self, num: usize, den: usize) -> bool {
        self.below(den) < num
    }
    pub fn pick<'a, T>(&mut self, xs: &'a [T]) -> &'a T {
        &xs[self.below(xs.len())]
    }
    pub fn shuffle<T>(&mut self, xs: &mut [T]) {
        for i in (1..xs.len()).rev() {
            let j = self.below(i + 1);
            xs.swap(i, j);
        }
    }
}

/// A Coq term of type `str` (= list N of Unicode scalar values).
pub fn coq_str(s: &str) -> String {
    if s.chars().all(|c| (' '..='~').contains(&c)) && s.len() < 2000 {
        let mut o = String::from("(s \"");
        for c in s.chars() {
            if c == '"' { o.push_str("\"\""); } else { o.push(c); }
        }
        o.push_str("\")");
        o
    } else {
        let mut o = String::from("[");
        for (i, c) in s.chars().enumerate() {
            if i > 0 { o.push(';'); }
            let _ = write!(o, "{}", c as u32);
        }
        o.push_str("]%N");
        o
    }
}
pub fn coq_opt<T>(x: &Option<T>, f: impl Fn(&T) -> String) -> String {
    match x { None => "None".into(), Some(v) => format!("(Some {})", f(v)) }
}
pub fn coq_list<T>(xs: &[T], f: impl Fn(&T) -> String) -> String {
    let mut o = String::from("[");
    for (i, x) in xs.iter().enumerate() {
        if i > 0 { o.push_str("; "); }
        o.push_str(&f(x));
    }
    o.push(']');
    o
}
pub fn coq_bool(b: bool) -> &'static str { if b { "true" } else { "false" } }
pub fn coq_n(n: u64) -> String { format!("{}%N", n) }
pub fn coq_z(n: i128) -> String { if n < 0 { format!("({})%Z", n) } else { format!("{}%Z", n) } }

pub fn json_str(s: &str) -> String { serde_json::to_string(s).unwrap() }

pub struct Args { pub seed: u64, pub tier: String, pub out: PathBuf, pub extra: Vec<String> }
pub fn parse_args() -> Args {
    let mut seed = 1u64; let mut tier = "quick".to_string(); let mut out = PathBuf::from("."); let mut extra = vec![];
    let a: Vec<String> = std::env::args().skip(1).collect();
    let mut i = 0;
    while i < a.len() {
        match a[i].as_str() {
            "--seed" => { seed = a[i+1].parse().unwrap_or(1); i += 2; }
            "--tier" => { tier = a[i+1].clone(); i += 2; }
            "--out" => { out = PathBuf::from(&a[i+1]); i += 2; }
            _ => { extra.push(a[i].clone()); i += 1; }
        }
    }
    Args { seed, tier, out, extra }
}

/// Collects cases: a Coq term (for the model side) and a JSON description (for replay files).
pub struct Cases {
    pub imports: String,      // e.g. "From V Require Import Base.Util C20.Model C20.Corr."
    pub case_type: String,    // Coq type of one case
    pub agree_fn: String,     // case -> bool : model output = implementation output
    pub holds_fn: String,     // case -> bool : the property's spec-side predicate on the implementation's output
    pub terms: Vec<String>,
    pub descr: Vec<serde_json::Value>,
    pub shard_size: usize,
}
impl Cases {
    pub fn new(imports: &str, case_type: &str, agree_fn: &str, holds_fn: &str, shard_size: usize) -> Self {
        Cases { imports: imports.into(), case_type: case_type.into(), agree_fn: agree_fn.into(),
                holds_fn: holds_fn.into(), terms: vec![], descr: vec![], shard_size }
    }
    pub fn push(&mut self, term: String, descr: serde_json::Value) {
        self.terms.push(term); self.descr.push(descr);
    }
    pub fn len(&self) -> usize { self.terms.len() }
    /// Writes cases_<k>.v and cases.json into `out`.
    pub fn write(&self, out: &Path) {
        fs::create_dir_all(out).unwrap();
        let mut k = 0;
        for chunk in self.terms.chunks(self.shard_size.max(1)) {
            let mut v = String::new();
            let _ = writeln!(v, "{}", self.imports);
            let _ = writeln!(v, "Definition cases : list ({}) := [", self.case_type);
            for (i, t) in chunk.iter().enumerate() {
                let _ = writeln!(v, "  {}{}", t, if i + 1 < chunk.len() { ";" } else { "" });
            }
            let _ = writeln!(v, "].");
            let _ = writeln!(v, "Definition corr_fail := Eval vm_compute in (failing {} cases).", self.agree_fn);
            let _ = writeln!(v, "Definition prop_fail := Eval vm_compute in (failing {} cases).", self.holds_fn);
            let _ = writeln!(v, "Print corr_fail.\nPrint prop_fail.");
            fs::write(out.join(format!("cases_{}.v", k)), v).unwrap();
            k += 1;
        }
        let meta = serde_json::json!({ "shards": k, "shard_size": self.shard_size, "n": self.terms.len() });
        fs::write(out.join("shards.json"), serde_json::to_string(&meta).unwrap()).unwrap();
        fs::write(out.join("cases.json"), serde_json::to_string(&self.descr).unwrap()).unwrap();
    }
}

pub fn write_meta(out: &Path, meta: &serde_json::Value) {
    fs::create_dir_all(out).unwrap();
    fs::write(out.join("meta.json"), serde_json::to_string_pretty(meta).unwrap()).unwrap();
}

/// Runs `f`, turning a panic into Err(message).
pub fn catch<T>(f: impl FnOnce() -> T + std::panic::UnwindSafe) -> Result<T, String> {
    std::panic::catch_unwind(f).map_err(|e| {
        if let Some(s) = e.downcast_ref::<&str>() { s.to_string() }
        else if let Some(s) = e.downcast_ref::<String>() { s.clone() }
        else { "panic".to_string() }
    })
}
pub fn silence_panics() { std::panic::set_hook(Box::new(|_| {})); }
