//! Prints nitrogql AST values as Coq terms of the types in /verif/coq/Gql/Ast.v.
use crate::{coq_bool, coq_list, coq_opt, coq_str};
use nitrogql_ast::base::{Ident, Keyword, Pos};
use nitrogql_ast::directive::Directive;
use nitrogql_ast::operation::{ExecutableDefinition, FragmentDefinition, OperationDefinition, OperationType};
use nitrogql_ast::operation_ext::{ExecutableDefinitionExt, ImportDefinition, ImportTarget};
use nitrogql_ast::r#type::Type;
use nitrogql_ast::selection_set::{Selection, SelectionSet};
use nitrogql_ast::type_system::*;
use nitrogql_ast::value::{Arguments, StringValue, Value};
use nitrogql_ast::variable::{VariableDefinition, VariablesDefinition};
use nitrogql_ast::{OperationDocument, OperationDocumentExt, TypeSystemDocument, TypeSystemOrExtensionDocument};

pub fn pos(p: &Pos) -> String {
    format!("(mkPos {} {} {} {})", p.line, p.column, p.file, coq_bool(p.builtin))
}
pub fn ident(i: &Ident) -> String {
    format!("(mkId {} {})", coq_str(i.name), pos(&i.position))
}
pub fn keyword(k: &Keyword) -> String {
    format!("(mkKw {} {})", coq_str(k.name), pos(&k.position))
}
pub fn ty(t: &Type) -> String {
    match t {
        Type::Named(n) => format!("(TNamed {})", ident(&n.name)),
        Type::NonNull(i) => format!("(TNonNull {})", ty(&i.r#type)),
        Type::List(l) => format!("(TList {} {})", pos(&l.position), ty(&l.r#type)),
    }
}
pub fn value(v: &Value) -> String {
    match v {
        Value::Variable(x) => format!("(VVar {} {})", coq_str(x.name), pos(&x.position)),
        Value::IntValue(x) => format!("(VInt {} {})", pos(&x.position), coq_str(x.value)),
        Value::FloatValue(x) => format!("(VFloat {} {})", pos(&x.position), coq_str(x.value)),
        Value::StringValue(x) => format!("(VString {} {})", pos(&x.position), coq_str(&x.value)),
        Value::BooleanValue(x) => format!("(VBool {} {})", pos(&x.position), coq_bool(x.value)),
        Value::NullValue(x) => format!("(VNull {})", pos(&x.position)),
        Value::EnumValue(x) => format!("(VEnum {} {})", pos(&x.position), coq_str(x.value)),
        Value::ListValue(x) => format!("(VList {} {})", pos(&x.position), coq_list(&x.values, value)),
        Value::ObjectValue(x) => format!(
            "(VObject {} {})",
            pos(&x.position),
            coq_list(&x.fields, |(k, v)| format!("({}, {})", ident(k), value(v)))
        ),
    }
}
pub fn arguments(a: &Arguments) -> String {
    format!(
        "(mkArgs {} {})",
        pos(&a.position),
        coq_list(&a.arguments, |(k, v)| format!("({}, {})", ident(k), value(v)))
    )
}
pub fn directive(d: &Directive) -> String {
    format!("(mkDir {} {} {})", pos(&d.position), ident(&d.name), coq_opt(&d.arguments, arguments))
}
pub fn directives(ds: &[Directive]) -> String {
    coq_list(ds, directive)
}
pub fn selection(s: &Selection) -> String {
    match s {
        Selection::Field(f) => format!(
            "(SField {} {} {} {} {})",
            coq_opt(&f.alias, ident),
            ident(&f.name),
            coq_opt(&f.arguments, arguments),
            directives(&f.directives),
            coq_opt(&f.selection_set, selset)
        ),
        Selection::FragmentSpread(f) => format!(
            "(SSpread {} {} {})",
            pos(&f.position),
            ident(&f.fragment_name),
            directives(&f.directives)
        ),
        Selection::InlineFragment(f) => format!(
            "(SInline {} {} {} {})",
            pos(&f.position),
            coq_opt(&f.type_condition, ident),
            directives(&f.directives),
            selset(&f.selection_set)
        ),
    }
}
pub fn selset(s: &SelectionSet) -> String {
    format!("(SelSet {} {})", pos(&s.position), coq_list(&s.selections, selection))
}
pub fn optype(t: &OperationType) -> &'static str {
    match t {
        OperationType::Query => "Query",
        OperationType::Mutation => "Mutation",
        OperationType::Subscription => "Subscription",
    }
}
pub fn vardef(v: &VariableDefinition) -> String {
    format!(
        "(mkVarDef {} {} {} {} {} {})",
        pos(&v.pos),
        coq_str(v.name.name),
        pos(&v.name.position),
        ty(&v.r#type),
        coq_opt(&v.default_value, value),
        directives(&v.directives)
    )
}
pub fn vardefs(v: &VariablesDefinition) -> String {
    format!("(mkVarDefs {} {})", pos(&v.position), coq_list(&v.definitions, vardef))
}
pub fn opdef(o: &OperationDefinition) -> String {
    format!(
        "(mkOp {} {} {} {} {} {})",
        pos(&o.position),
        optype(&o.operation_type),
        coq_opt(&o.name, ident),
        coq_opt(&o.variables_definition, vardefs),
        directives(&o.directives),
        selset(&o.selection_set)
    )
}
pub fn fragdef(f: &FragmentDefinition) -> String {
    format!(
        "(mkFrag {} {} {} {} {})",
        pos(&f.position),
        ident(&f.name),
        ident(&f.type_condition),
        directives(&f.directives),
        selset(&f.selection_set)
    )
}
pub fn importdef(i: &ImportDefinition) -> String {
    format!(
        "(mkImport {} {} {} {})",
        pos(&i.position),
        coq_list(&i.targets, |t| match t {
            ImportTarget::Wildcard => "ImpWildcard".to_string(),
            ImportTarget::Name(n) => format!("(ImpName {})", ident(n)),
        }),
        coq_str(&i.path.value),
        pos(&i.path.position)
    )
}
pub fn opdoc(d: &OperationDocument) -> String {
    format!(
        "(mkOpDoc {} {})",
        pos(&d.position),
        coq_list(&d.definitions, |x| match x {
            ExecutableDefinition::OperationDefinition(o) => format!("(DOp {})", opdef(o)),
            ExecutableDefinition::FragmentDefinition(f) => format!("(DFrag {})", fragdef(f)),
        })
    )
}
pub fn opdoc_ext(d: &OperationDocumentExt) -> String {
    format!(
        "(mkOpDoc {} {})",
        pos(&d.position),
        coq_list(&d.definitions, |x| match x {
            ExecutableDefinitionExt::OperationDefinition(o) => format!("(DOp {})", opdef(o)),
            ExecutableDefinitionExt::FragmentDefinition(f) => format!("(DFrag {})", fragdef(f)),
            ExecutableDefinitionExt::Import(i) => format!("(DImport {})", importdef(i)),
        })
    )
}
pub fn desc(d: &StringValue) -> String {
    format!("(mkDesc {} {})", pos(&d.position), coq_str(&d.value))
}
pub fn inputval(i: &InputValueDefinition) -> String {
    format!(
        "(mkInputVal {} {} {} {} {} {})",
        coq_opt(&i.description, desc),
        pos(&i.position),
        ident(&i.name),
        ty(&i.r#type),
        coq_opt(&i.default_value, value),
        directives(&i.directives)
    )
}
pub fn argsdef(a: &ArgumentsDefinition) -> String {
    coq_list(&a.input_values, inputval)
}
pub fn fielddef(f: &FieldDefinition) -> String {
    format!(
        "(mkFieldDef {} {} {} {} {})",
        coq_opt(&f.description, desc),
        ident(&f.name),
        coq_opt(&f.arguments, argsdef),
        ty(&f.r#type),
        directives(&f.directives)
    )
}
pub fn enumval(e: &EnumValueDefinition) -> String {
    format!("(mkEnumVal {} {} {})", coq_opt(&e.description, desc), ident(&e.name), directives(&e.directives))
}
fn idents(xs: &[Ident]) -> String {
    coq_list(xs, ident)
}
pub fn typedef(t: &TypeDefinition) -> String {
    match t {
        TypeDefinition::Scalar(d) => format!(
            "(TDScalar {} {} {} {} {})",
            coq_opt(&d.description, desc), pos(&d.position), ident(&d.name), directives(&d.directives), keyword(&d.scalar_keyword)
        ),
        TypeDefinition::Object(d) => format!(
            "(TDObject {} {} {} {} {} {} {})",
            coq_opt(&d.description, desc), pos(&d.position), ident(&d.name), idents(&d.implements),
            directives(&d.directives), coq_list(&d.fields, fielddef), keyword(&d.type_keyword)
        ),
        TypeDefinition::Interface(d) => format!(
            "(TDInterface {} {} {} {} {} {} {})",
            coq_opt(&d.description, desc), pos(&d.position), ident(&d.name), idents(&d.implements),
            directives(&d.directives), coq_list(&d.fields, fielddef), keyword(&d.interface_keyword)
        ),
        TypeDefinition::Union(d) => format!(
            "(TDUnion {} {} {} {} {} {})",
            coq_opt(&d.description, desc), pos(&d.position), ident(&d.name), directives(&d.directives),
            idents(&d.members), keyword(&d.union_keyword)
        ),
        TypeDefinition::Enum(d) => format!(
            "(TDEnum {} {} {} {} {} {})",
            coq_opt(&d.description, desc), pos(&d.position), ident(&d.name), directives(&d.directives),
            coq_list(&d.values, enumval), keyword(&d.enum_keyword)
        ),
        TypeDefinition::InputObject(d) => format!(
            "(TDInput {} {} {} {} {} {})",
            coq_opt(&d.description, desc), pos(&d.position), ident(&d.name), directives(&d.directives),
            coq_list(&d.fields, inputval), keyword(&d.input_keyword)
        ),
    }
}
pub fn typeext(t: &TypeExtension) -> String {
    match t {
        TypeExtension::Scalar(d) => format!("(TEScalar {} {} {})", pos(&d.position), ident(&d.name), directives(&d.directives)),
        TypeExtension::Object(d) => format!(
            "(TEObject {} {} {} {} {})",
            pos(&d.position), ident(&d.name), idents(&d.implements), directives(&d.directives), coq_list(&d.fields, fielddef)
        ),
        TypeExtension::Interface(d) => format!(
            "(TEInterface {} {} {} {} {})",
            pos(&d.position), ident(&d.name), idents(&d.implements), directives(&d.directives), coq_list(&d.fields, fielddef)
        ),
        TypeExtension::Union(d) => format!(
            "(TEUnion {} {} {} {})",
            pos(&d.position), ident(&d.name), directives(&d.directives), idents(&d.members)
        ),
        TypeExtension::Enum(d) => format!(
            "(TEEnum {} {} {} {})",
            pos(&d.position), ident(&d.name), directives(&d.directives), coq_list(&d.values, enumval)
        ),
        TypeExtension::InputObject(d) => format!(
            "(TEInput {} {} {} {})",
            pos(&d.position), ident(&d.name), directives(&d.directives), coq_list(&d.fields, inputval)
        ),
    }
}
fn rootops(xs: &[(OperationType, Ident)]) -> String {
    coq_list(xs, |(t, i)| format!("({}, {})", optype(t), ident(i)))
}
pub fn schemadef(s: &SchemaDefinition) -> String {
    format!(
        "(mkSchemaDef {} {} {} {})",
        coq_opt(&s.description, desc), pos(&s.position), directives(&s.directives), rootops(&s.definitions)
    )
}
pub fn schemaext(s: &SchemaExtension) -> String {
    format!("(mkSchemaExt {} {} {})", pos(&s.position), directives(&s.directives), rootops(&s.definitions))
}
pub fn directivedef(d: &DirectiveDefinition) -> String {
    format!(
        "(mkDirDef {} {} {} {} {} {} {})",
        coq_opt(&d.description, desc), pos(&d.position), ident(&d.name), coq_opt(&d.arguments, argsdef),
        coq_opt(&d.repeatable, ident), idents(&d.locations), keyword(&d.directive_keyword)
    )
}
pub fn tsdoc(d: &TypeSystemDocument) -> String {
    coq_list(&d.definitions, |x| match x {
        TypeSystemDefinition::SchemaDefinition(s) => format!("(TSSchema {})", schemadef(s)),
        TypeSystemDefinition::TypeDefinition(t) => format!("(TSType {})", typedef(t)),
        TypeSystemDefinition::DirectiveDefinition(d) => format!("(TSDirective {})", directivedef(d)),
    })
}
pub fn tsdoc_ext(d: &TypeSystemOrExtensionDocument) -> String {
    coq_list(&d.definitions, |x| match x {
        TypeSystemDefinitionOrExtension::SchemaDefinition(s) => format!("(TSSchema {})", schemadef(s)),
        TypeSystemDefinitionOrExtension::TypeDefinition(t) => format!("(TSType {})", typedef(t)),
        TypeSystemDefinitionOrExtension::DirectiveDefinition(d) => format!("(TSDirective {})", directivedef(d)),
        TypeSystemDefinitionOrExtension::SchemaExtension(s) => format!("(TSSchemaExt {})", schemaext(s)),
        TypeSystemDefinitionOrExtension::TypeExtension(t) => format!("(TSTypeExt {})", typeext(t)),
    })
}
