//! Prints `nitrogql_printer::ts_types::TSType` as a Coq term of type `tstype` (coq/Ts/TsType.v).
use crate::{ast_coq, coq_bool, coq_list, coq_opt, coq_str};
use nitrogql_ast::base::HasPos;
use nitrogql_printer::ts_types::TSType;

pub fn tstype(t: &TSType) -> String {
    match t {
        TSType::TypeVariable(v) => format!("(TVar {} {})", coq_str(v.name().unwrap_or("")), ast_coq::pos(v.position())),
        TSType::TypeFunc(f, args) => format!("(TFunc {} {})", tstype(f), coq_list(args, tstype)),
        TSType::StringLiteral(s) => format!("(TStrLit {})", coq_str(s)),
        TSType::NamespaceMember(a, b) => format!("(TNs {} {})", coq_str(a), coq_str(b)),
        TSType::NamespaceMember3(a, b, c) => format!("(TNs3 {} {} {})", coq_str(a), coq_str(b), coq_str(c)),
        TSType::Object(fs) => format!(
            "(TObject {})",
            coq_list(fs, |f| format!(
                "(mkField {} {} {} {} {} {})",
                coq_str(&f.key.name), ast_coq::pos(&f.key.pos), tstype(&f.r#type), coq_bool(f.readonly), coq_bool(f.optional),
                coq_opt(&f.description, |d| coq_str(d))
            ))
        ),
        TSType::Array(t) => format!("(TArray {})", tstype(t)),
        TSType::ReadonlyArray(t) => format!("(TRoArray {})", tstype(t)),
        TSType::Union(ts) => format!("(TUnion {})", coq_list(ts, tstype)),
        TSType::Intersection(ts) => format!("(TInter {})", coq_list(ts, tstype)),
        TSType::Undefined => "TUndefined".into(),
        TSType::Null => "TNull".into(),
        TSType::Never => "TNever".into(),
        TSType::Unknown => "TUnknown".into(),
        TSType::Raw(s) => format!("(TRaw {})", coq_str(s)),
    }
}
