//! C13: runs the real parser, resolve_operation_extensions and resolve_operation_imports of /repo on
//! generated import graphs (files with `#import` lines) and writes the case files the Coq model and the
//! reference closure are evaluated on.
//!
//! The resolver handed to resolve_operation_imports is a HashMap<PathBuf, (document, extension)> — the
//! same container (and therefore the same key equality: Path components) as `Operations` in
//! crates/cli/src/check.rs and `Task::loaded_files` behind `TaskOperationResolver` in the loader.
use nitrogql_ast::base::Pos;
use nitrogql_ast::set_current_file_of_pos;
use nitrogql_ast::operation::ExecutableDefinition;
use nitrogql_ast::operation_ext::{ExecutableDefinitionExt, ImportTarget};
use nitrogql_ast::selection_set::{Selection, SelectionSet};
use nitrogql_ast::{OperationDocument, OperationDocumentExt};
use nitrogql_error::PositionedError;
use nitrogql_parser::parse_operation_document;
use nitrogql_semantics::{
    resolve_operation_extensions, resolve_operation_imports, ImportTargets, OperationExtension,
    OperationResolver,
};
use nitrogql_utils::{relative_path, resolve_relative_path};
use serde_json::{json, Value};
use std::collections::{BTreeMap, BTreeSet, HashMap, HashSet};
use std::panic::AssertUnwindSafe;
use std::path::{Path, PathBuf};
use verif_harness::*;

// ------------------------------------------------------------------ generated inputs

#[derive(Clone, Debug)]
struct GFile {
    path: String,
    text: String,
}
#[derive(Clone, Debug)]
struct GCase {
    files: Vec<GFile>, // the resolver's content
    root_path: String,
    root_text: String,
    label: String,
}

// ------------------------------------------------------------------ interned Coq terms
//
// coqc spends its time elaborating the case terms, not evaluating the model, and the same strings,
// positions, definitions and whole files recur in thousands of cases; every such sub-term is therefore
// given a name (`t<N>`) once and each shard file defines the names its cases use.
thread_local! { static INTERN: std::cell::RefCell<Interner> = std::cell::RefCell::new(Interner::default()); }
#[derive(Default)]
struct Interner {
    map: HashMap<(&'static str, String), usize>,
    defs: Vec<(&'static str, String)>,
}
fn intern(ty: &'static str, text: String) -> String {
    INTERN.with(|i| {
        let mut i = i.borrow_mut();
        let key = (ty, text);
        if let Some(k) = i.map.get(&key) { return format!("t{}", k); }
        let k = i.defs.len();
        i.defs.push((key.0, key.1.clone()));
        i.map.insert(key, k);
        format!("t{}", k)
    })
}
/// indices of the interned names a term mentions
fn mentioned(text: &str, out: &mut BTreeSet<usize>) {
    let b = text.as_bytes();
    let mut i = 0;
    while i < b.len() {
        if b[i] == b'"' {
            // skip string literals ("" is an escaped quote and simply re-enters)
            i += 1;
            while i < b.len() && b[i] != b'"' { i += 1; }
            i += 1;
            continue;
        }
        if b[i] == b't' && (i == 0 || !(b[i - 1].is_ascii_alphanumeric() || b[i - 1] == b'_')) {
            let mut j = i + 1;
            while j < b.len() && b[j].is_ascii_digit() { j += 1; }
            if j > i + 1 && (j == b.len() || !(b[j].is_ascii_alphanumeric() || b[j] == b'_')) {
                out.insert(text[i + 1..j].parse().unwrap());
            }
            i = j;
            continue;
        }
        i += 1;
    }
}
/// Streams cases to disk: a shard file is written as soon as it is full, descriptions are appended to
/// cases.json one by one (the thorough tier has half a million cases; nothing but the intern table and
/// the current shard stays in memory).
struct Out {
    dir: PathBuf,
    shard_size: usize,
    cur: Vec<String>,
    shards: usize,
    n: usize,
    descr: std::io::BufWriter<std::fs::File>,
}
const IMPORTS: &str = "From V Require Import Base.Util C20.Model C13.Model C13.Corr.";
impl Out {
    fn new(dir: &Path, shard_size: usize) -> Out {
        std::fs::create_dir_all(dir).unwrap();
        let mut descr = std::io::BufWriter::new(std::fs::File::create(dir.join("cases.json")).unwrap());
        use std::io::Write;
        descr.write_all(b"[").unwrap();
        Out { dir: dir.to_path_buf(), shard_size, cur: vec![], shards: 0, n: 0, descr }
    }
    fn len(&self) -> usize { self.n }
    fn push(&mut self, term: String, descr: &Value) {
        use std::io::Write;
        if self.n > 0 { self.descr.write_all(b",\n").unwrap(); }
        serde_json::to_writer(&mut self.descr, descr).unwrap();
        self.n += 1;
        self.cur.push(term);
        if self.cur.len() >= self.shard_size { self.flush_shard(); }
    }
    fn flush_shard(&mut self) {
        if self.cur.is_empty() { return; }
        let chunk = std::mem::take(&mut self.cur);
        let v = INTERN.with(|it| {
            let it = it.borrow();
            let mut need: BTreeSet<usize> = BTreeSet::new();
            for t in &chunk { mentioned(t, &mut need); }
            // transitive closure (a name only mentions smaller names)
            let mut todo: Vec<usize> = need.iter().copied().collect();
            while let Some(x) = todo.pop() {
                let mut m = BTreeSet::new();
                mentioned(&it.defs[x].1, &mut m);
                for y in m { if need.insert(y) { todo.push(y); } }
            }
            let mut v = String::new();
            v.push_str(IMPORTS); v.push('\n');
            for x in &need {
                let (ty, text) = &it.defs[*x];
                if *ty == "str" { v.push_str(&format!("Definition t{} : str := Eval vm_compute in {}.\n", x, text)); }
                else { v.push_str(&format!("Definition t{} : {} := {}.\n", x, ty, text)); }
            }
            for (i, t) in chunk.iter().enumerate() { v.push_str(&format!("Definition c{} : case := {}.\n", i, t)); }
            v.push_str("Definition cases : list case := [");
            for i in 0..chunk.len() { if i > 0 { v.push_str("; "); } v.push_str(&format!("c{}", i)); if i % 20 == 19 { v.push('\n'); } }
            v.push_str("].\n");
            v.push_str("Definition corr_fail := Eval vm_compute in (failing agree cases).\n");
            v.push_str("Definition prop_fail := Eval vm_compute in (failing holds cases).\n");
            v.push_str("Print corr_fail.\nPrint prop_fail.\n");
            v
        });
        std::fs::write(self.dir.join(format!("cases_{}.v", self.shards)), v).unwrap();
        self.shards += 1;
    }
    fn finish(&mut self) {
        use std::io::Write;
        self.flush_shard();
        self.descr.write_all(b"]").unwrap();
        self.descr.flush().unwrap();
        let meta = json!({ "shards": self.shards, "shard_size": self.shard_size, "n": self.n });
        std::fs::write(self.dir.join("shards.json"), serde_json::to_string(&meta).unwrap()).unwrap();
    }
}
fn istr(x: &str) -> String { intern("str", coq_str(x)) }

// ------------------------------------------------------------------ what the parser produced

type P = (u64, u64, u64);
fn p_of(p: &Pos) -> P {
    (p.line as u64, p.column as u64, p.file as u64)
}
fn coq_pos(p: &P) -> String {
    intern("pos", format!("Pos {} {} {}", coq_n(p.0), coq_n(p.1), coq_n(p.2)))
}

#[derive(Clone, Debug, PartialEq, Eq)]
struct RDef {
    frag: bool,
    name: String,
    id: u64,
}
#[derive(Clone, Debug)]
enum RItem {
    Def(RDef),
    Import { pos: P, targets: Vec<Option<(String, P)>>, path: String, ppos: P },
}

/// the identity of a definition is carried by the name of the first field of its selection set: d<ID>
fn id_of(ss: &SelectionSet) -> u64 {
    match ss.selections.first() {
        Some(Selection::Field(f)) => f.alias.map(|a| a.name).unwrap_or(f.name.name).trim_start_matches('d').parse().unwrap_or(999_999),
        _ => 999_999,
    }
}
fn rdef_of(d: &ExecutableDefinition) -> RDef {
    match d {
        ExecutableDefinition::OperationDefinition(o) => RDef {
            frag: false,
            name: o.name.map(|n| n.name.to_string()).unwrap_or_default(),
            id: id_of(&o.selection_set),
        },
        ExecutableDefinition::FragmentDefinition(f) => RDef { frag: true, name: f.name.name.to_string(), id: id_of(&f.selection_set) },
    }
}
fn items_of(doc: &OperationDocumentExt) -> Vec<RItem> {
    doc.definitions
        .iter()
        .map(|d| match d {
            ExecutableDefinitionExt::OperationDefinition(o) => RItem::Def(rdef_of(&ExecutableDefinition::OperationDefinition(o.clone()))),
            ExecutableDefinitionExt::FragmentDefinition(f) => RItem::Def(rdef_of(&ExecutableDefinition::FragmentDefinition(f.clone()))),
            ExecutableDefinitionExt::Import(i) => RItem::Import {
                pos: p_of(&i.position),
                targets: i
                    .targets
                    .iter()
                    .map(|t| match t {
                        ImportTarget::Wildcard => None,
                        ImportTarget::Name(id) => Some((id.name.to_string(), p_of(&id.position))),
                    })
                    .collect(),
                path: i.path.value.clone(),
                ppos: p_of(&i.path.position),
            },
        })
        .collect()
}
fn coq_def(d: &RDef) -> String {
    intern("def", format!("Def {} {} {}", coq_bool(d.frag), istr(&d.name), coq_n(d.id)))
}
fn coq_items(items: &[RItem]) -> String {
    intern("(list item)", coq_items_raw(items))
}
fn coq_items_raw(items: &[RItem]) -> String {
    coq_list(items, |it| match it {
        RItem::Def(d) => format!("IDef {}", coq_def(d)),
        RItem::Import { pos, targets, path, ppos } => format!(
            "IImport {} {} {} {}",
            coq_pos(pos),
            coq_list(targets, |t| match t {
                None => "TWild".to_string(),
                Some((n, p)) => format!("TName {} {}", istr(n), coq_pos(p)),
            }),
            istr(path),
            coq_pos(ppos)
        ),
    })
}
fn coq_ext(ext: &OperationExtension) -> String {
    coq_list(&ext.imports, |i| {
        format!(
            "{{| ipath := {}; ipos := {}; itargets := {} |}}",
            istr(&i.path.value),
            coq_pos(&p_of(&i.path.position)),
            match &i.targets {
                ImportTargets::Wildcard => "Wildcard".to_string(),
                ImportTargets::Specific(ids) => format!(
                    "Specific {}",
                    coq_list(ids, |id| format!("({}, {})", istr(id.name), coq_pos(&p_of(&id.position))))
                ),
            }
        )
    })
}

// ------------------------------------------------------------------ running the implementation

struct MapResolver<'a, 'src>(&'a HashMap<PathBuf, (OperationDocument<'src>, OperationExtension<'src>)>);
impl<'a, 'src> OperationResolver<'src> for MapResolver<'a, 'src> {
    fn resolve(&self, path: &Path) -> Option<(&OperationDocument<'src>, &OperationExtension<'src>)> {
        self.0.get(path).map(|(d, e)| (d, e))
    }
}

#[derive(Clone, Debug)]
enum Outcome {
    Ok(Vec<RDef>),
    Err(String, P),
    Panic(String),
}

struct Ran {
    term: String,
    descr: Value,
    kind: &'static str,
}

/// resolve_operation_extensions alone, on one text
fn run_ext(text: &str, file_idx: usize, label: &str) -> Option<Ran> {
    set_current_file_of_pos(file_idx);
    let doc = parse_operation_document(text).ok()?;
    let items = items_of(&doc);
    let (out_term, out_json) = match resolve_operation_extensions(doc) {
        Ok((d, e)) => {
            let defs: Vec<RDef> = d.definitions.iter().map(rdef_of).collect();
            (
                format!("(XOk {} {})", coq_list(&defs, coq_def), coq_ext(&e)),
                json!({"ok": {"defs": defs.iter().map(|d| d.id).collect::<Vec<_>>(), "imports": e.imports.len()}}),
            )
        }
        Err(e) => {
            let pe: PositionedError = e.into();
            let pos = pe.position().map(|p| p_of(&p)).unwrap_or((0, 0, 0));
            let msg = pe.into_inner().to_string();
            (format!("(XErr {} {})", istr(&msg), coq_pos(&pos)), json!({"err": msg, "pos": [pos.0, pos.1]}))
        }
    };
    Some(Ran {
        term: format!("CExt {} {}", coq_items(&items), out_term),
        descr: if label.starts_with("exhaustive") { json!({"kind": "ext", "label": label, "file": file_idx, "out": out_json, "classes": []}) }
               else { json!({"kind": "ext", "label": label, "text": text, "out": out_json, "classes": []}) },
        kind: "ext",
    })
}

/// the whole import resolution of one generated graph; None if some text does not parse;
/// a file that fails resolve_operation_extensions turns the case into a CExt case for that file.
fn run_case(c: &GCase) -> Option<Ran> {
    let n = c.files.len();
    let mut docs = vec![];
    for (i, f) in c.files.iter().enumerate() {
        set_current_file_of_pos(i);
        docs.push(parse_operation_document(&f.text).ok()?);
    }
    let root_idx = c.files.iter().position(|f| f.path == c.root_path && f.text == c.root_text).unwrap_or(n);
    set_current_file_of_pos(root_idx);
    let root_doc = parse_operation_document(&c.root_text).ok()?;
    let file_items: Vec<Vec<RItem>> = docs.iter().map(items_of).collect();
    let root_items = items_of(&root_doc);

    let mut map: HashMap<PathBuf, (OperationDocument, OperationExtension)> = HashMap::new();
    for (i, d) in docs.into_iter().enumerate() {
        match resolve_operation_extensions(d) {
            Ok(de) => {
                if map.insert(PathBuf::from(&c.files[i].path), de).is_some() {
                    return None; // two spellings of one key: not generated on purpose
                }
            }
            Err(_) => return run_ext(&c.files[i].text, i, &c.label),
        }
    }
    let (root_doc, root_ext) = match resolve_operation_extensions(root_doc) {
        Ok(de) => de,
        Err(_) => return run_ext(&c.root_text, root_idx, &c.label),
    };
    let root_path = PathBuf::from(&c.root_path);
    let res = catch(AssertUnwindSafe(|| {
        resolve_operation_imports((&root_path, &root_doc, &root_ext), &MapResolver(&map))
            .map(|d| d.definitions.iter().map(rdef_of).collect::<Vec<_>>())
            .map_err(|e| {
                let pe: PositionedError = e.into();
                let pos = pe.position().map(|p| p_of(&p)).unwrap_or((0, 0, 0));
                (pe.into_inner().to_string(), pos)
            })
    }));
    let out = match res {
        Ok(Ok(ds)) => Outcome::Ok(ds),
        Ok(Err((m, p))) => Outcome::Err(m, p),
        Err(m) => Outcome::Panic(m),
    };
    let out_term = match &out {
        Outcome::Ok(ds) => format!("(OOk {})", coq_list(ds, coq_def)),
        Outcome::Err(m, p) => format!("(OErr {} {})", istr(m), coq_pos(p)),
        Outcome::Panic(m) => format!("(OPanic {})", istr(m)),
    };
    let files_term = coq_list(&(0..n).collect::<Vec<_>>(), |i| format!("({}, {})", istr(&c.files[*i].path), coq_items(&file_items[*i])));
    let term = format!("CImp {} {} {} {}", files_term, istr(&c.root_path), coq_items(&root_items), out_term);
    let ana = analyse(c, &file_items, &root_items, &out);
    let out_json = match &out {
        Outcome::Ok(ds) => json!({"ok": ds.iter().map(|d| json!({"name": d.name, "id": d.id})).collect::<Vec<_>>()}),
        Outcome::Err(m, p) => json!({"err": m, "pos": [p.0, p.1, p.2]}),
        Outcome::Panic(m) => json!({"panic": m}),
    };
    let failing = ana.kind == "ok-wrong" || ana.kind == "panic";
    let descr = if c.label.starts_with("exhaustive") && (!failing || !ana.classes.is_empty()) {
        // half a million of these in the thorough tier: the texts are written on one line each
        // ("path: text-with-newlines-as-' / '"); a failure that no known class explains keeps the full form
        json!({
            "kind": "imports", "label": c.label,
            "out": match &out {
                Outcome::Ok(ds) => format!("ok:{}", ds.iter().map(|d| d.id.to_string()).collect::<Vec<_>>().join(",")),
                Outcome::Err(m, p) => format!("err@{}:{}:{} {}", p.2, p.0, p.1, m),
                Outcome::Panic(m) => format!("panic {}", m),
            },
            "classes": ana.classes, "guard": ana.guard, "shape": ana.shape,
        })
    } else {
        json!({
            "kind": "imports", "label": c.label,
            "files": c.files.iter().map(|f| json!({"path": f.path, "text": f.text})).collect::<Vec<_>>(),
            "root_path": c.root_path, "root_text": c.root_text,
            "out": out_json,
            "reference": ana.reference, "classes": ana.classes, "guard": ana.guard, "shape": ana.shape,
        })
    };
    Some(Ran { term, descr, kind: ana.kind })
}

// ------------------------------------------------------------------ reference analysis (labels only)
//
// An independent computation of the reference closure over the raw import lines; it is used to label a
// failing case with the known-finding class that explains it (all discrepancies must be explained by a
// class, otherwise the class list is empty and the failure is reported as a violation), and for the
// input-distribution statistics.  Pass/fail itself is decided by Coq (`holds` in C13/Corr.v).

struct Line {
    src: usize, // index of the node the line stands in (0 = root)
    key: PathBuf,
    path: String,
    found: bool,
    wanted: BTreeSet<u64>,
    missing: Vec<String>,
}
struct Analysis {
    reference: Value,
    classes: Vec<String>,
    guard: bool,
    shape: &'static str,
    kind: &'static str,
}

fn defs_of(items: &[RItem]) -> Vec<RDef> {
    items.iter().filter_map(|i| if let RItem::Def(d) = i { Some(d.clone()) } else { None }).collect()
}

fn analyse(c: &GCase, file_items: &[Vec<RItem>], root_items: &[RItem], out: &Outcome) -> Analysis {
    let keys: Vec<PathBuf> = c.files.iter().map(|f| PathBuf::from(&f.path)).collect();
    let find = |k: &Path| keys.iter().position(|x| x.as_path() == k);
    // nodes: 0 = root, then reached files in discovery order
    let mut nodes: Vec<(PathBuf, &[RItem])> = vec![(PathBuf::from(&c.root_path), root_items)];
    let mut reached: Vec<PathBuf> = vec![];
    let mut lines: Vec<Line> = vec![];
    let mut q = 0;
    while q < nodes.len() {
        let (doc, items) = (nodes[q].0.clone(), nodes[q].1);
        for it in items {
            if let RItem::Import { targets, path, .. } = it {
                let key = resolve_relative_path(&doc, Path::new(path));
                let fi = find(&key);
                let (mut wanted, mut missing) = (BTreeSet::new(), vec![]);
                if let Some(fi) = fi {
                    let defs = defs_of(&file_items[fi]);
                    for t in targets {
                        match t {
                            None => wanted.extend(defs.iter().filter(|d| d.frag).map(|d| d.id)),
                            Some((n, _)) => {
                                let m: Vec<u64> = defs.iter().filter(|d| d.frag && &d.name == n).map(|d| d.id).collect();
                                if m.is_empty() { missing.push(n.clone()); }
                                wanted.extend(m);
                            }
                        }
                    }
                }
                if !reached.contains(&key) {
                    reached.push(key.clone());
                    if let Some(fi) = fi { nodes.push((key.clone(), &file_items[fi])); }
                }
                lines.push(Line { src: q, key, path: path.clone(), found: fi.is_some(), wanted, missing });
            }
        }
        q += 1;
    }
    let root_defs = defs_of(root_items);
    let root_ids: BTreeSet<u64> = root_defs.iter().map(|d| d.id).collect();
    let mut expected: BTreeSet<u64> = root_ids.clone();
    for l in &lines { expected.extend(l.wanted.iter().copied()); }
    let bad: Vec<&Line> = lines.iter().filter(|l| !l.found || !l.missing.is_empty()).collect();
    let expected_ok = bad.is_empty();
    let lines_to = |k: &Path| lines.iter().filter(|l| l.key.as_path() == k).collect::<Vec<_>>();
    let differing = |k: &Path| {
        let ls = lines_to(k);
        ls.iter().any(|a| ls.iter().any(|b| a.wanted != b.wanted || a.missing.is_empty() != b.missing.is_empty()))
    };
    // merged lines per (node, path string): duplicate target names
    let mut dup_target = false;
    for (qi, (_, items)) in nodes.iter().enumerate() {
        let mut by_path: BTreeMap<&str, Vec<&str>> = BTreeMap::new();
        for it in items.iter() {
            if let RItem::Import { targets, path, .. } = it {
                let e = by_path.entry(path.as_str()).or_default();
                for t in targets { if let Some((n, _)) = t { e.push(n.as_str()); } }
            }
        }
        let _ = qi;
        for (_, names) in by_path { let s: HashSet<_> = names.iter().collect(); if s.len() < names.len() { dup_target = true; } }
    }
    let dup_frag_names = |fi: usize| {
        let ds = defs_of(&file_items[fi]);
        let names: Vec<_> = ds.iter().filter(|d| d.frag).map(|d| &d.name).collect();
        names.iter().collect::<HashSet<_>>().len() < names.len()
    };
    // the guard of C13_imports_exact / C13_error_complete, recomputed here for the statistics
    let multi_key = reached.iter().any(|k| differing(k));
    let root_hit = lines.iter().any(|l| l.wanted.iter().any(|id| root_ids.contains(id)));
    let any_dup_frag = reached.iter().filter_map(|k| find(k)).any(|fi| dup_frag_names(fi));
    let _ = (dup_target, any_dup_frag);
    let guard = !multi_key && !root_hit;
    let shape = {
        let multi = reached.iter().any(|k| lines_to(k).len() > 1);
        let root_cycle = find(Path::new(&c.root_path)).is_some() && lines.iter().any(|l| l.key == PathBuf::from(&c.root_path));
        if lines.is_empty() { "no-import" } else if root_cycle { "through-root" } else if multi { "shared-target" } else { "tree" }
    };

    let mut classes: BTreeSet<String> = BTreeSet::new();
    let mut explained = true;
    let mut failing = false;
    let file_of_id = |id: u64| -> Option<usize> { (0..file_items.len()).find(|fi| defs_of(&file_items[*fi]).iter().any(|d| d.id == id)) };
    match out {
        Outcome::Ok(ds) => {
            let got: Vec<u64> = ds.iter().map(|d| d.id).collect();
            let got_set: BTreeSet<u64> = got.iter().copied().collect();
            for id in expected.difference(&got_set) {
                failing = true;
                match file_of_id(*id) {
                    Some(fi) if differing(&keys[fi]) => {
                        let ls = lines_to(&keys[fi]);
                        let same_node = ls.iter().any(|a| ls.iter().any(|b| a.src == b.src && a.path != b.path && a.wanted != b.wanted));
                        classes.insert(if same_node { "respelled-path-lost-import".into() } else { "diamond-lost-import".into() });
                    }
                    _ => explained = false,
                }
            }
            if got_set.difference(&expected).next().is_some() { failing = true; explained = false; }
            let mut seen = BTreeSet::new();
            for id in &got {
                if !seen.insert(*id) {
                    failing = true;
                    if root_ids.contains(id) && root_hit { classes.insert("root-reimported-duplicate".into()); } else { explained = false; }
                }
            }
            for l in &bad {
                failing = true;
                if !l.found { explained = false; continue; }
                let fi = find(&l.key).unwrap();
                let _ = fi;
                if lines_to(&l.key).len() > 1 && differing(&l.key) { classes.insert("skipped-line-error-unreported".into()); }
                else { explained = false; }
            }
        }
        Outcome::Panic(_) => {
            // no panic is a known finding any more (the `expect` is gone since /repo 3dc6a57)
            failing = true;
            explained = false;
        }
        Outcome::Err(_, _) => {
            if expected_ok { failing = true; explained = false; }
        }
    }
    if !explained { classes.clear(); }
    let kind = match out {
        Outcome::Ok(_) if !failing => "ok-exact",
        Outcome::Ok(_) => "ok-wrong",
        Outcome::Err(m, _) if m.starts_with("File") => "err-file",
        Outcome::Err(_, _) => "err-fragment",
        Outcome::Panic(_) => "panic",
    };
    Analysis {
        reference: json!({
            "expected_ok": expected_ok,
            "expected_ids": expected.iter().collect::<Vec<_>>(),
            "bad_lines": bad.iter().map(|l| json!({"path": l.path, "found": l.found, "missing": l.missing})).collect::<Vec<_>>(),
            "reachable_lines": lines.len(),
        }),
        classes: classes.into_iter().collect(),
        guard,
        shape,
        kind,
    }
}

// ------------------------------------------------------------------ generators

const POOL: &[&str] = &["A", "B", "C", "Frag1"];

struct GF {
    path: String,
    frags: Vec<String>,
    ops: usize,
    named_ops: Vec<(String, String)>, // (query|mutation|subscription, name): operations whose names may collide with requested names
    imports: Vec<(String, Vec<String>)>, // path as written, targets ("*" = wildcard)
    mixed: bool,                         // import lines interleaved with definitions
}
fn render(f: &GF, file_idx: usize, rng: Option<&mut Rng>) -> String {
    let mut lines: Vec<String> = vec![];
    let mut defs: Vec<String> = vec![];
    let mut id = file_idx as u64 * 100;
    for n in &f.frags { defs.push(format!("fragment {} on T {{ d{} }}", n, id)); id += 1; }
    for (kind, n) in &f.named_ops { defs.push(format!("{} {} {{ d{} }}", kind, n, id)); id += 1; }
    for k in 0..f.ops { defs.push(format!("query Q{}x{} {{ d{} }}", file_idx, k, id)); id += 1; }
    let imps: Vec<String> = f.imports.iter().map(|(p, ts)| format!("#import {} from \"{}\"", ts.join(", "), p)).collect();
    if f.mixed {
        let mut all: Vec<String> = imps.into_iter().chain(defs).collect();
        if let Some(r) = rng { r.shuffle(&mut all); }
        lines.extend(all);
    } else {
        lines.extend(imps);
        lines.extend(defs);
    }
    lines.join("\n") + "\n"
}

fn spell(rng: &mut Rng, from: &str, to: &str) -> String {
    let rel = relative_path(Path::new(from), Path::new(to)).to_str().unwrap().to_string();
    match rng.below(10) {
        0 => rel.trim_start_matches("./").to_string(),
        1 => format!("./{}", rel),
        2 => to.to_string(),
        3 => { if let Some(r) = rel.strip_prefix("./") { format!("./zz/../{}", r) } else { rel } }
        _ => rel,
    }
}

fn random_graph(rng: &mut Rng, max_files: usize) -> GCase {
    const DIRS: &[&str] = &["/p", "/p/sub", "/q"];
    let n = rng.range(1, max_files);
    let tree = rng.chance(2, 5);
    let ndirs = rng.range(1, 3);
    let mut gfs: Vec<GF> = (0..n)
        .map(|i| {
            let nf = if i == 0 { rng.range(0, 2) } else { rng.range(0, 3) };
            let mut frags: Vec<String> = vec![];
            for _ in 0..nf {
                let name = rng.pick(POOL).to_string();
                if !frags.contains(&name) || rng.chance(1, 25) { frags.push(name); }
            }
            // operations named like fragments (possibly like a fragment of the same file): only
            // FragmentDefinitions may be imported, whatever else carries the requested name
            let mut named_ops: Vec<(String, String)> = vec![];
            if rng.chance(1, 3) {
                for _ in 0..rng.range(1, 2) {
                    let kind = *rng.pick(&["query", "mutation", "subscription"]);
                    let name = if !frags.is_empty() && rng.chance(1, 3) { rng.pick(&frags).clone() } else { rng.pick(POOL).to_string() };
                    if !named_ops.iter().any(|(_, n)| n == &name) { named_ops.push((kind.to_string(), name)); }
                }
            }
            GF {
                path: format!("{}/f{}.graphql", DIRS[rng.below(ndirs)], i),
                frags,
                ops: if (i == 0 || nf == 0) && named_ops.is_empty() { 1 } else { rng.below(2) * rng.below(2) },
                named_ops,
                imports: vec![],
                mixed: rng.chance(1, 4),
            }
        })
        .collect();
    let gen_targets = |rng: &mut Rng, target_names: &[String]| -> Vec<String> {
        let target_frags = target_names;
        if rng.chance(1, 4) { return vec!["*".into()]; }
        let k = rng.range(1, 2);
        let mut ts = vec![];
        for _ in 0..k {
            let name = if !target_frags.is_empty() && rng.chance(9, 10) { rng.pick(target_frags).clone() } else if rng.chance(1, 2) { rng.pick(POOL).to_string() } else { "Zz".to_string() };
            if !ts.contains(&name) || rng.chance(1, 12) { ts.push(name); }
        }
        if rng.chance(1, 60) { ts.insert(rng.below(ts.len() + 1), "*".into()); }
        ts
    };
    if tree {
        // every non-root file is imported by exactly one earlier file, by one line
        for j in 1..n {
            let parent = rng.below(j);
            let (from, to) = (gfs[parent].path.clone(), gfs[j].path.clone());
            let p = spell(rng, &from, &to);
            let tf: Vec<String> = gfs[j].frags.iter().cloned().chain(gfs[j].named_ops.iter().map(|(_, n)| n.clone())).collect();
            let ts = gen_targets(rng, &tf);
            gfs[parent].imports.push((p, ts));
        }
        if rng.chance(1, 10) && n > 1 {
            let i = rng.below(n);
            let from = gfs[i].path.clone();
            gfs[i].imports.push((spell(rng, &from, "/p/nowhere.graphql"), vec!["A".into()]));
        }
    } else {
        for i in 0..n {
            let k = [0, 1, 1, 2, 2, 3][rng.below(6)];
            for _ in 0..k {
                let from = gfs[i].path.clone();
                if rng.chance(1, 30) {
                    gfs[i].imports.push((spell(rng, &from, "/p/nowhere.graphql"), vec!["A".into()]));
                    continue;
                }
                let j = if rng.chance(1, 14) { i } else { rng.below(n) };
                let to = gfs[j].path.clone();
                let p = spell(rng, &from, &to);
                let tf: Vec<String> = gfs[j].frags.iter().cloned().chain(gfs[j].named_ops.iter().map(|(_, n)| n.clone())).collect();
                let ts = gen_targets(rng, &tf);
                gfs[i].imports.push((p, ts));
            }
        }
    }
    let texts: Vec<String> = (0..n).map(|i| { let mut r = rng.clone(); let t = render(&gfs[i], i, Some(&mut r)); rng.next(); t }).collect();
    let root_in_store = rng.chance(3, 4);
    let files: Vec<GFile> = (0..n).filter(|i| *i != 0 || root_in_store).map(|i| GFile { path: gfs[i].path.clone(), text: texts[i].clone() }).collect();
    // when the root is not in the store its ids would collide with nothing: ids are by generation index
    GCase { files, root_path: gfs[0].path.clone(), root_text: texts[0].clone(), label: format!("random-{}", if tree { "tree" } else { "graph" }) }
}

/// fixed witnesses (the property text's diamond, the test-suite shapes, the other known defects)
fn corpus() -> Vec<GCase> {
    let f = |p: &str, t: &str| GFile { path: p.into(), text: t.into() };
    let mk = |label: &str, files: Vec<GFile>, root: usize| GCase { root_path: files[root].path.clone(), root_text: files[root].text.clone(), files, label: label.into() };
    vec![
        mk("diamond (property text)", vec![
            f("/p/main.graphql", "#import F from \"./y.graphql\"\n#import FA from \"./x.graphql\"\nquery Q { d0 }\n"),
            f("/p/x.graphql", "fragment FA on T { d100 }\nfragment FB on T { d101 }\n"),
            f("/p/y.graphql", "#import FB from \"./x.graphql\"\nfragment F on T { d200 }\n"),
        ], 0),
        mk("diamond, same request on both paths", vec![
            f("/p/main.graphql", "#import F from \"./y.graphql\"\n#import FB from \"./x.graphql\"\nquery Q { d0 }\n"),
            f("/p/x.graphql", "fragment FA on T { d100 }\nfragment FB on T { d101 }\n"),
            f("/p/y.graphql", "#import FB from \"./x.graphql\"\nfragment F on T { d200 }\n"),
        ], 0),
        mk("respelled path", vec![
            f("/p/main.graphql", "#import FA from \"./x.graphql\"\n#import FB from \"././x.graphql\"\nquery Q { d0 }\n"),
            f("/p/x.graphql", "fragment FA on T { d100 }\nfragment FB on T { d101 }\n"),
        ], 0),
        mk("cycle through the root", vec![
            f("/p/main.graphql", "#import FA from \"./x.graphql\"\nfragment R on T { d0 }\nquery Q { d1 }\n"),
            f("/p/x.graphql", "#import R from \"./main.graphql\"\nfragment FA on T { d100 }\n"),
        ], 0),
        mk("self import", vec![
            f("/p/main.graphql", "#import R from \"./main.graphql\"\nfragment R on T { d0 }\nquery Q { d1 }\n"),
        ], 0),
        mk("duplicate target on one line", vec![
            f("/p/main.graphql", "#import FA, FA from \"./x.graphql\"\nquery Q { d0 }\n"),
            f("/p/x.graphql", "fragment FA on T { d100 }\n"),
        ], 0),
        mk("repeated import line", vec![
            f("/p/main.graphql", "#import FA from \"./x.graphql\"\n#import FA from \"./x.graphql\"\nquery Q { d0 }\n"),
            f("/p/x.graphql", "fragment FA on T { d100 }\n"),
        ], 0),
        mk("duplicate fragment masks a missing one", vec![
            f("/p/main.graphql", "#import FA, FB from \"./x.graphql\"\nquery Q { d0 }\n"),
            f("/p/x.graphql", "fragment FA on T { d100 }\nfragment FA on T { d101 }\n"),
        ], 0),
        mk("skipped line with a missing name", vec![
            f("/p/main.graphql", "#import F from \"./y.graphql\"\n#import Nope from \"./x.graphql\"\nquery Q { d0 }\n"),
            f("/p/x.graphql", "fragment FA on T { d100 }\nfragment FB on T { d101 }\n"),
            f("/p/y.graphql", "#import FB from \"./x.graphql\"\nfragment F on T { d200 }\n"),
        ], 0),
        mk("recursive import (test suite shape)", vec![
            f("/p/main.graphql", "#import Frag1 from \"./rec/frag1.graphql\"\nquery Q { d0 }\n"),
            f("/p/rec/frag1.graphql", "#import Frag2 from \"frag2.graphql\"\nfragment Frag1 on T { d100 }\n"),
            f("/p/rec/frag2.graphql", "#import Frag1 from \"frag1.graphql\"\nfragment Frag2 on T { d200 }\n"),
        ], 0),
        mk("transitive + wildcard", vec![
            f("/p/main.graphql", "#import * from \"./a.graphql\"\nquery Q { d0 }\n"),
            f("/p/a.graphql", "#import Frag3 from \"./sub/b.graphql\"\nfragment A on T { d100 }\nfragment B on T { d101 }\nquery Other { d102 }\n"),
            f("/p/sub/b.graphql", "fragment Frag3 on T { d200 }\n"),
        ], 0),
        mk("file not found", vec![
            f("/p/main.graphql", "#import A from \"./nowhere.graphql\"\nquery Q { d0 }\n"),
        ], 0),
        mk("fragment not found", vec![
            f("/p/main.graphql", "#import A, Zz from \"./x.graphql\"\nquery Q { d0 }\n"),
            f("/p/x.graphql", "fragment A on T { d100 }\n"),
        ], 0),
        mk("wildcard twice", vec![
            f("/p/main.graphql", "#import * from \"./x.graphql\"\n#import * from \"./x.graphql\"\nquery Q { d0 }\n"),
            f("/p/x.graphql", "fragment A on T { d100 }\n"),
        ], 0),
        mk("operation named like the request, alone", vec![
            f("/p/main.graphql", "#import User from \"./user.graphql\"\nquery Main { d0 }\n"),
            f("/p/user.graphql", "query User { d100 }\nfragment Other on T { d101 }\n"),
        ], 0),
        mk("operation next to a same-named fragment", vec![
            f("/p/main.graphql", "#import User from \"./user.graphql\"\nquery Main { d0 }\n"),
            f("/p/user.graphql", "query User { d100 }\nfragment User on T { d101 }\nmutation User { d102 }\n"),
        ], 0),
        mk("operation name hides a second missing name", vec![
            f("/p/main.graphql", "#import User, Missing from \"./user.graphql\"\nquery Main { d0 }\n"),
            f("/p/user.graphql", "fragment User on T { d100 }\nquery User { d101 }\n"),
        ], 0),
        mk("operation names under a wildcard", vec![
            f("/p/main.graphql", "#import * from \"./user.graphql\"\nquery Main { d0 }\n"),
            f("/p/user.graphql", "subscription User { d100 }\nfragment User on T { d101 }\nquery Other { d102 }\n"),
        ], 0),
        mk("operation-name cycle back into the root", vec![
            f("/p/main.graphql", "#import F from \"./frag.graphql\"\nquery Main { d0 }\n"),
            f("/p/frag.graphql", "#import Main from \"./main.graphql\"\nfragment F on T { d100 }\n"),
        ], 0),
        mk("operation-name cycle back into the root, root also has the fragment", vec![
            f("/p/main.graphql", "#import F from \"./frag.graphql\"\nquery Main { d0 }\nfragment Main on T { d1 }\n"),
            f("/p/frag.graphql", "#import Main from \"./main.graphql\"\nfragment F on T { d100 }\n"),
        ], 0),
        mk("wildcard then name", vec![
            f("/p/main.graphql", "#import *, A from \"./x.graphql\"\nquery Q { d0 }\n"),
            f("/p/x.graphql", "fragment A on T { d100 }\n"),
        ], 0),
    ]
}

/// bounded-exhaustive graphs: files m (root, in the store), x, y[, z] in one directory with fixed fragment
/// sets; every file carries a sequence of at most `max_lines[i]` import lines, each `(target file, spec)`
/// with spec in {*, A, B}.
fn exhaustive(nfiles: usize, max_lines: &[usize], mut emit: impl FnMut(GCase)) {
    let names = ["m", "x", "y", "z"];
    let frags: [&[&str]; 4] = [&["A", "B"], &["A", "B"], &["A"], &[]];
    // operations whose names collide with the requested names: next to a same-named fragment (x), instead of
    // the missing fragment (y), alone (z)
    let named_ops: [&[(&str, &str)]; 4] = [&[], &[("query", "A")], &[("mutation", "B")], &[("subscription", "A")]];
    let specs = ["*", "A", "B"];
    let opts: Vec<(usize, &str)> = (0..nfiles).flat_map(|t| specs.iter().map(move |s| (t, *s))).collect();
    // all sequences of length <= k over opts
    let seqs = |k: usize| -> Vec<Vec<(usize, &str)>> {
        let mut out: Vec<Vec<(usize, &str)>> = vec![vec![]];
        let mut cur: Vec<Vec<(usize, &str)>> = vec![vec![]];
        for _ in 0..k {
            let mut next = vec![];
            for s in &cur { for o in &opts { let mut t = s.clone(); t.push(*o); next.push(t); } }
            out.extend(next.iter().cloned());
            cur = next;
        }
        out
    };
    let per_file: Vec<Vec<Vec<(usize, &str)>>> = (0..nfiles).map(|i| seqs(max_lines[i])).collect();
    let mut idx = vec![0usize; nfiles];
    loop {
        let files: Vec<GFile> = (0..nfiles)
            .map(|i| {
                let gf = GF {
                    path: format!("/p/{}.graphql", names[i]),
                    frags: frags[i].iter().map(|s| s.to_string()).collect(),
                    ops: if i == 0 { 1 } else { 0 },
                    named_ops: named_ops[i].iter().map(|(k, n)| (k.to_string(), n.to_string())).collect(),
                    imports: per_file[i][idx[i]].iter().map(|(t, s)| (format!("./{}.graphql", names[*t]), vec![s.to_string()])).collect(),
                    mixed: false,
                };
                GFile { path: gf.path.clone(), text: render(&gf, i, None) }
            })
            .collect();
        // compact rendering of the graph, e.g. "m:A<x,*<y|x:|y:B<m": file m has `#import A from "./x.graphql"` then
        // `#import * from "./y.graphql"`, x has no import, y has `#import B from "./m.graphql"`
        let compact = (0..nfiles)
            .map(|i| format!("{}:{}", names[i], per_file[i][idx[i]].iter().map(|(t, s)| format!("{}<{}", s, names[*t])).collect::<Vec<_>>().join(",")))
            .collect::<Vec<_>>()
            .join("|");
        emit(GCase { root_path: files[0].path.clone(), root_text: files[0].text.clone(), files, label: format!("exhaustive-{} {}", nfiles, compact) });
        let mut i = 0;
        loop {
            if i == nfiles { return; }
            idx[i] += 1;
            if idx[i] < per_file[i].len() { break; }
            idx[i] = 0;
            i += 1;
        }
    }
}

/// `depth` layers of two files; every file imports `*` from both files of the next layer; the root imports both
/// files of layer 0.  All lines that point at one file ask for the same thing, so the case is inside every guard.
fn layered(depth: usize) -> GCase {
    let name = |l: usize, s: usize| format!("/p/l{}{}.graphql", l, if s == 0 { "a" } else { "b" });
    let mut files = vec![GFile {
        path: "/p/main.graphql".into(),
        text: "#import * from \"./l0a.graphql\"\n#import * from \"./l0b.graphql\"\nquery Q { d0 }\n".into(),
    }];
    for l in 0..depth {
        for s in 0..2 {
            let id = (1 + 2 * l + s) * 100;
            let mut text = String::new();
            if l + 1 < depth {
                text.push_str(&format!("#import * from \"./l{}a.graphql\"\n#import * from \"./l{}b.graphql\"\n", l + 1, l + 1));
            }
            text.push_str(&format!("fragment F{}x{} on T {{ d{} }}\n", l, s, id));
            files.push(GFile { path: name(l, s), text });
        }
    }
    GCase { root_path: files[0].path.clone(), root_text: files[0].text.clone(), files, label: format!("layered-{}", depth) }
}

/// random sequences of items for resolve_operation_extensions alone (wildcard/specific state machine,
/// merging by path string, order of the merged imports)
fn random_ext(rng: &mut Rng) -> String {
    let paths = ["./x.graphql", "././x.graphql", "x.graphql", "./y.graphql"];
    let n = rng.range(0, 6);
    let mut lines = vec![format!("query Q {{ d{} }}", 99)];
    let mut id = 0;
    for _ in 0..n {
        match rng.below(5) {
            0 => { lines.push(format!("fragment {} on T {{ d{} }}", rng.pick(POOL), id)); id += 1; }
            1 => { lines.push(format!("query Q{} {{ d{} }}", id, id)); id += 1; }
            _ => {
                let k = rng.range(1, 3);
                let ts: Vec<String> = (0..k).map(|_| if rng.chance(1, 4) { "*".to_string() } else { rng.pick(POOL).to_string() }).collect();
                lines.push(format!("#import {} from \"{}\"", ts.join(if rng.chance(1, 2) { ", " } else { " " }), rng.pick(&paths)));
            }
        }
    }
    lines.join("\n") + "\n"
}


// ------------------------------------------------------------------ end to end through the real CLI
//
// `nitrogql check` on a project directory: every operation file is a root, the resolver is
// `Operations` of crates/cli/src/check.rs (keys = the paths the CLI globbed: `<cwd>/./ops/...`).
// Observed: per file, the import-stage messages and the checker's "Fragment 'X' is not defined".

struct EFile {
    opname: Option<String>, // name of the file's query when it is to collide with fragment names
    rel: String, // below ops/
    frags: Vec<String>,
    imports: Vec<(String, Vec<String>)>,
    spreads: Vec<String>,
}
fn render_e2e(f: &EFile, idx: usize) -> String {
    let mut lines: Vec<String> = f.imports.iter().map(|(p, ts)| format!("#import {} from \"{}\"", ts.join(", "), p)).collect();
    let mut id = idx * 100;
    for n in &f.frags { lines.push(format!("fragment {} on T {{ d{}: f }}", n, id)); id += 1; }
    let sp: Vec<String> = f.spreads.iter().map(|s| format!("...{}", s)).collect();
    let opname = f.opname.clone().unwrap_or(format!("Q{}", idx));
    lines.push(format!("query {} {{ d{}: t {{ f {} }} }}", opname, id, sp.join(" ")));
    lines.join("\n") + "\n"
}
fn e2e_fixed() -> Vec<(String, Vec<EFile>)> {
    let ef = |rel: &str, frags: &[&str], imports: &[(&str, &[&str])], spreads: &[&str]| EFile {
        opname: None,
        rel: rel.into(),
        frags: frags.iter().map(|s| s.to_string()).collect(),
        imports: imports.iter().map(|(p, ts)| (p.to_string(), ts.iter().map(|s| s.to_string()).collect())).collect(),
        spreads: spreads.iter().map(|s| s.to_string()).collect(),
    };
    vec![
        ("e2e diamond".into(), vec![
            ef("main.graphql", &[], &[("./y.graphql", &["F"]), ("./x.graphql", &["FA"])], &["F", "FA", "FB"]),
            ef("x.graphql", &["FA", "FB"], &[], &[]),
            ef("y.graphql", &["F"], &[("./x.graphql", &["FB"])], &["FB"]),
        ]),
        ("e2e tree".into(), vec![
            ef("main.graphql", &[], &[("./sub/y.graphql", &["F"]), ("x.graphql", &["*"])], &["F", "FA", "FB", "G"]),
            ef("x.graphql", &["FA", "FB"], &[], &[]),
            ef("sub/y.graphql", &["F"], &[("../z.graphql", &["G"])], &["G"]),
            ef("z.graphql", &["G", "H"], &[], &["H"]),
        ]),
        ("e2e respelled".into(), vec![
            ef("main.graphql", &[], &[("./x.graphql", &["FA"]), ("././x.graphql", &["FB"])], &["FA", "FB"]),
            ef("x.graphql", &["FA", "FB"], &[], &[]),
        ]),
        ("e2e cycle through root".into(), vec![
            ef("main.graphql", &["R"], &[("./x.graphql", &["FA"])], &["FA", "R"]),
            ef("x.graphql", &["FA"], &[("./main.graphql", &["R"])], &["R"]),
        ]),
        ("e2e duplicate target".into(), vec![
            ef("main.graphql", &[], &[("./x.graphql", &["FA", "FA"])], &["FA"]),
            ef("x.graphql", &["FA"], &[], &[]),
        ]),
        ("e2e missing file and fragment".into(), vec![
            ef("main.graphql", &[], &[("./x.graphql", &["FA", "Zz"])], &["FA"]),
            ef("x.graphql", &["FA"], &[("./nowhere.graphql", &["A"])], &[]),
        ]),
        ("e2e recursive".into(), vec![
            ef("main.graphql", &[], &[("./rec/frag1.graphql", &["Frag1"])], &["Frag1", "Frag2"]),
            ef("rec/frag1.graphql", &["Frag1"], &[("frag2.graphql", &["Frag2"])], &["Frag2"]),
            ef("rec/frag2.graphql", &["Frag2"], &[("frag1.graphql", &["Frag1"])], &["Frag1"]),
        ]),
        ("e2e operation named like the request".into(), vec![
            ef("main.graphql", &[], &[("./user.graphql", &["User"])], &["User"]),
            EFile { opname: Some("User".into()), ..ef("user.graphql", &["Other"], &[], &[]) },
        ]),
        ("e2e operation next to a same-named fragment, second name missing".into(), vec![
            ef("main.graphql", &[], &[("./user.graphql", &["User", "Missing"])], &["User"]),
            EFile { opname: Some("User".into()), ..ef("user.graphql", &["User"], &[], &[]) },
        ]),
    ]
}
fn e2e_random(rng: &mut Rng) -> Vec<EFile> {
    let n = rng.range(2, 6);
    let dirs = ["", "sub/", "other/"];
    let mut fs: Vec<EFile> = (0..n).map(|i| {
        let mut frags: Vec<String> = vec![];
        for _ in 0..rng.range(0, 3) { let nm = rng.pick(POOL).to_string(); if !frags.contains(&nm) { frags.push(nm); } }
        let opname = if rng.chance(1, 3) { Some(rng.pick(POOL).to_string()) } else { None };
        EFile { opname, rel: format!("{}f{}.graphql", dirs[rng.below(3)], i), frags, imports: vec![], spreads: vec![] }
    }).collect();
    for i in 0..n {
        for _ in 0..[0, 1, 1, 2, 2, 3][rng.below(6)] {
            let j = if rng.chance(1, 12) { i } else { rng.below(n) };
            let from = format!("/r/ops/{}", fs[i].rel);
            let to = if rng.chance(1, 25) { "/r/ops/nowhere.graphql".to_string() } else { format!("/r/ops/{}", fs[j].rel) };
            let p = spell(rng, &from, &to);
            let p = if p.starts_with('/') { relative_path(Path::new(&from), Path::new(&to)).to_str().unwrap().to_string() } else { p };
            let tf = fs[j].frags.clone();
            let ts: Vec<String> = if rng.chance(1, 4) { vec!["*".into()] } else {
                let mut v = vec![];
                for _ in 0..rng.range(1, 2) {
                    let nm = if !tf.is_empty() && rng.chance(9, 10) { rng.pick(&tf).clone() } else { rng.pick(POOL).to_string() };
                    if !v.contains(&nm) || rng.chance(1, 15) { v.push(nm); }
                }
                v
            };
            fs[i].imports.push((p, ts));
        }
    }
    for i in 0..n {
        let mut sp: Vec<String> = vec![];
        for nm in POOL { if rng.chance(1, 2) { sp.push(nm.to_string()); } }
        fs[i].spreads = sp;
    }
    fs
}

enum CliObs { Diags(Vec<Vec<String>>), Crash }

fn run_e2e(cli: &Path, base: &Path, idx: usize, label: &str, files: &[EFile]) -> Option<Ran> {
    let dir = base.join(format!("p{}", idx));
    let _ = std::fs::remove_dir_all(&dir);
    std::fs::create_dir_all(dir.join("ops")).ok()?;
    std::fs::write(dir.join("graphql.config.yaml"), "schema: ./schema.graphql\ndocuments: ./ops/**/*.graphql\n").ok()?;
    std::fs::write(dir.join("schema.graphql"), "type Query { t: T }\ntype T { f: Int }\n").ok()?;
    let texts: Vec<String> = files.iter().enumerate().map(|(i, f)| render_e2e(f, i)).collect();
    for (f, t) in files.iter().zip(&texts) {
        let p = dir.join("ops").join(&f.rel);
        std::fs::create_dir_all(p.parent()?).ok()?;
        std::fs::write(&p, t).ok()?;
    }
    // the key under which the CLI stores a file: <cwd>/./ops/<rel>
    let keys: Vec<String> = files.iter().map(|f| format!("{}/./ops/{}", dir.to_str().unwrap(), f.rel)).collect();
    let outp = std::process::Command::new(cli)
        .args(["check", "--config-file", "./graphql.config.yaml", "--output-format", "json"])
        .current_dir(&dir)
        .output()
        .ok()?;
    let stdout = String::from_utf8_lossy(&outp.stdout).to_string();
    let parsed: Option<Value> = serde_json::from_str(stdout.trim()).ok();
    let obs = match (&parsed, outp.status.code()) {
        (Some(v), Some(0)) | (Some(v), Some(1)) => {
            let mut per: Vec<BTreeSet<String>> = vec![BTreeSet::new(); files.len()];
            let mut foreign = false;
            for e in v["check"]["errors"].as_array().cloned().unwrap_or_default() {
                let msg = e["message"].as_str().unwrap_or("").to_string();
                let relevant = (msg.starts_with("Fragment '") && msg.ends_with("' is not defined"))
                    || (msg.starts_with("File '") && msg.ends_with("' not found."))
                    || msg.contains("' is not found in the imported file '");
                if !relevant { continue; }
                let path = e["file"]["path"].as_str().unwrap_or("");
                match keys.iter().position(|k| Path::new(k) == Path::new(path)) {
                    Some(i) => { per[i].insert(msg); }
                    None => foreign = true,
                }
            }
            if foreign { return None; }
            CliObs::Diags(per.into_iter().map(|s| s.into_iter().collect()).collect())
        }
        _ => CliObs::Crash,
    };
    // the parser's view of each file, for the model; file indices as the CLI assigns them are not
    // observable here, so positions carry the generation index
    let mut items: Vec<Vec<RItem>> = vec![];
    for (i, t) in texts.iter().enumerate() {
        set_current_file_of_pos(i);
        let doc = parse_operation_document(t).ok()?;
        items.push(items_of(&doc));
        resolve_operation_extensions(doc).ok()?; // projects whose files fail here are not generated on purpose
    }
    // labels: the in-process analysis of every file as a root
    let store: Vec<GFile> = keys.iter().zip(&texts).map(|(k, t)| GFile { path: k.clone(), text: t.clone() }).collect();
    let mut classes: BTreeSet<String> = BTreeSet::new();
    let mut explained = true;
    for i in 0..files.len() {
        let c = GCase { files: store.clone(), root_path: keys[i].clone(), root_text: texts[i].clone(), label: label.into() };
        if let Some(r) = run_case(&c) {
            let cs: Vec<String> = r.descr["classes"].as_array().map(|a| a.iter().map(|x| x.as_str().unwrap().to_string()).collect()).unwrap_or_default();
            if (r.kind == "ok-wrong" || r.kind == "panic") && cs.is_empty() { explained = false; }
            classes.extend(cs);
        }
    }
    if !explained { classes.clear(); }
    let files_term = coq_list(&(0..files.len()).collect::<Vec<_>>(), |i| {
        format!("({}, {}, {})", istr(&keys[*i]), coq_items(&items[*i]), coq_list(&files[*i].spreads, |s| istr(s)))
    });
    let (obs_term, obs_json) = match &obs {
        CliObs::Diags(per) => (format!("(CliDiags {})", coq_list(per, |ms| coq_list(ms, |m| istr(m)))), json!({"diags": per})),
        CliObs::Crash => ("CliCrash".to_string(), json!({"crash": String::from_utf8_lossy(&outp.stderr).lines().take(3).collect::<Vec<_>>()})),
    };
    let _ = std::fs::remove_dir_all(&dir);
    Some(Ran {
        term: format!("CCli {} {}", files_term, obs_term),
        descr: json!({"kind": "cli", "label": label,
                      "files": files.iter().zip(&texts).map(|(f, t)| json!({"path": format!("ops/{}", f.rel), "text": t})).collect::<Vec<_>>(),
                      "observed": obs_json, "classes": classes.into_iter().collect::<Vec<_>>()}),
        kind: "cli",
    })
}

// ------------------------------------------------------------------ main

fn main() {
    silence_panics();
    let args = parse_args();
    let mut rng = Rng::new(args.seed);
    let thorough = args.tier == "thorough";
    let mut cases = Out::new(&args.out, if thorough { 1500 } else { 400 });
    let mut distinct: HashSet<u64> = HashSet::new();
    let mut kinds: BTreeMap<String, u64> = BTreeMap::new();
    let mut shapes: BTreeMap<String, u64> = BTreeMap::new();
    let mut labels: BTreeMap<String, u64> = BTreeMap::new();
    let mut classes: BTreeMap<String, u64> = BTreeMap::new();
    let (mut n_guard, mut n_guard_ok, mut unparsed) = (0u64, 0u64, 0u64);
    let mut samples: Vec<Value> = vec![];
    let mut push = |cases: &mut Out, c: &GCase, r: Option<Ran>, keep_sample: bool| {
        let Some(r) = r else { unparsed += 1; return; };
        let key = format!("{}|{}|{:?}", c.root_path, c.root_text, c.files.iter().map(|f| (&f.path, &f.text)).collect::<Vec<_>>());
        { use std::hash::{Hash, Hasher}; let mut h = std::collections::hash_map::DefaultHasher::new(); key.hash(&mut h); distinct.insert(h.finish()); }
        *kinds.entry(r.kind.to_string()).or_default() += 1;
        let lab = c.label.split(' ').next().unwrap_or("").to_string();
        *labels.entry(lab).or_default() += 1;
        if let Some(s) = r.descr.get("shape").and_then(|s| s.as_str()) { *shapes.entry(s.to_string()).or_default() += 1; }
        if r.descr.get("guard").and_then(|g| g.as_bool()) == Some(true) {
            n_guard += 1;
            if r.kind == "ok-exact" || r.kind.starts_with("err") { n_guard_ok += 1; }
        }
        if let Some(cs) = r.descr.get("classes").and_then(|c| c.as_array()) { for c in cs { *classes.entry(c.as_str().unwrap().to_string()).or_default() += 1; } }
        if keep_sample && samples.len() < 4 { samples.push(r.descr.clone()); }
        cases.push(r.term, &r.descr);
    };
    // 1. corpus
    for c in corpus() { let r = run_case(&c); push(&mut cases, &c, r, true); }
    // 2. bounded-exhaustive graphs
    let plans: Vec<(usize, Vec<usize>)> = if thorough {
        vec![(2, vec![3, 3]), (3, vec![2, 2, 1]), (4, vec![2, 1, 1, 1])]
    } else {
        vec![(2, vec![2, 2]), (3, vec![2, 1, 1])]
    };
    for (nf, ml) in &plans {
        exhaustive(*nf, ml, |c| { let r = run_case(&c); push(&mut cases, &c, r, false); });
    }
    // 2b. termination within a bound: an acyclic graph in which every file is shared by both files of the layer
    // above (2^depth import paths, 2*depth+1 files).  The resolver enters every file once (C13_linear_work), so
    // this returns at once; a traversal whose work follows the number of paths does not come back.
    let mut direct_failures: Vec<Value> = vec![];
    for depth in [6usize, 30] {
        let c = layered(depth);
        let c2 = c.clone();
        let (tx, rx) = std::sync::mpsc::channel();
        std::thread::spawn(move || { let _ = run_case(&c2); let _ = tx.send(()); });
        match rx.recv_timeout(std::time::Duration::from_secs(30)) {
            Ok(()) => { let r = run_case(&c); push(&mut cases, &c, r, false); }
            Err(_) => direct_failures.push(json!({
                "what": format!("resolve_operation_imports did not return within 30 s on an acyclic layered import graph of {} files ({} layers of two files, each importing * from both files of the next layer): the property asks that resolution always terminates, and the traversal must enter each file once", 2 * depth + 1, depth),
                "classes": [],
                "files": c.files.iter().map(|f| json!({"path": f.path, "text": f.text})).collect::<Vec<_>>(),
                "root_path": c.root_path,
            })),
        }
    }
    // 3. random graphs up to 8 files
    let n_rand = if thorough { 40000 } else { 2500 };
    for i in 0..n_rand {
        let c = random_graph(&mut rng, if i % 3 == 0 { 4 } else { 8 });
        let r = run_case(&c);
        push(&mut cases, &c, r, i % 500 == 7);
    }
    // 4. resolve_operation_extensions alone
    let n_ext = if thorough { 6000 } else { 600 };
    for _ in 0..n_ext {
        let t = random_ext(&mut rng);
        let c = GCase { files: vec![], root_path: "/p/e.graphql".into(), root_text: t.clone(), label: "ext".into() };
        let r = run_ext(&t, 0, "ext");
        push(&mut cases, &c, r, false);
    }
    // 5. end to end through the real CLI binary (when the check hands one over)
    let mut n_cli = 0u64;
    if let Some(pos) = args.extra.iter().position(|a| a == "--cli") {
        let cli = PathBuf::from(&args.extra[pos + 1]);
        let base = args.out.join("e2e");
        let mut k = 0;
        for (label, files) in e2e_fixed() {
            let c = GCase { files: vec![], root_path: format!("e2e-{}", k), root_text: label.clone(), label: label.clone() };
            let r = run_e2e(&cli, &base, k, &label, &files);
            if r.is_some() { n_cli += 1; }
            push(&mut cases, &c, r, false);
            k += 1;
        }
        let n_rand = if thorough { 150 } else { 25 };
        for _ in 0..n_rand {
            let files = e2e_random(&mut rng);
            let c = GCase { files: vec![], root_path: format!("e2e-{}", k), root_text: format!("{:?}", files.iter().map(|f| (&f.rel, &f.imports, &f.spreads, &f.frags)).collect::<Vec<_>>()), label: "e2e-random".into() };
            let r = run_e2e(&cli, &base, k, "e2e-random", &files);
            if r.is_some() { n_cli += 1; }
            push(&mut cases, &c, r, false);
            k += 1;
        }
        let _ = std::fs::remove_dir_all(&base);
    }
    cases.finish();
    write_meta(&args.out, &json!({
        "evaluations": cases.len(),
        "distinct_nontrivial": distinct.len(),
        "rule": "exhaustive-N cases are described by their label: files m{fragment A d0, fragment B d1, query Q0x0 d2}, x{fragment A d100, fragment B d101, query A d102}, y{fragment A d200, mutation B d201}, z{subscription A d300} in /p (the operations named A/B must never be imported: only FragmentDefinitions are), 'm:A<x,*<y|x:|y:B<m' = m has `#import A from \"./x.graphql\"` then `#import * from \"./y.graphql\"`, x none, y `#import B from \"./m.graphql\"`; root = m; out 'ok:<ids>'. distinct = distinct (resolver content, root path, root text) tuples; every case runs the real parser, resolve_operation_extensions and resolve_operation_imports and is non-trivial in that sense; 'shape' and 'kind' give the split by graph shape and observed outcome",
        "samples": samples,
        "direct_failures": direct_failures,
        "distribution": {
            "by_generator": labels, "by_outcome": kinds, "by_shape": shapes,
            "cases_inside_theorem_guard": n_guard, "of_which_exact_or_due_error": n_guard_ok,
            "known_class_hits": classes, "texts_rejected_by_parser": unparsed,
            "projects_run_through_the_real_cli": n_cli,
            "exhaustive_plans(files, max import lines per file)": plans.iter().map(|(n, m)| json!([n, m])).collect::<Vec<_>>(),
        },
    }));
}
