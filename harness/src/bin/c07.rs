//! C07: runs nitrogql's parser (pest through the `RawParser` hook, and the public
//! parse_operation_document / parse_type_system_document) on generated texts and writes the case files
//! the Coq PEG interpreter + builder model is evaluated on.
//!
//! Per case: the text, pest's pair tree (rule, start, end, #children in pre-order, offsets in scalar
//! values), the AST (via ast_coq) or Err / Panic(class), and -- for texts that are a re-rendering of
//! another text with different trivia -- whether the position-erased AST equals the canonical one.
use nitrogql_ast::set_current_file_of_pos;
use nitrogql_parser::verif_hooks::{RawParser, Rule};
use nitrogql_parser::{parse_operation_document, parse_type_system_document};
use pest::iterators::Pair;
use pest::Parser;
use serde_json::json;
use std::collections::{BTreeMap, HashSet};
use verif_harness::gen::{gen_doc, gen_schema, render_schema, Doc, DocCfg, SchemaCfg};
use verif_harness::*;

// ------------------------------------------------------------------------------------------------
// running the implementation

#[derive(Clone, Copy, PartialEq, Debug)]
enum Kind { Op, Ts }

fn byte_to_char_map(s: &str) -> Vec<usize> {
    let mut m = vec![0usize; s.len() + 1];
    let mut ci = 0;
    for (bi, c) in s.char_indices() {
        for k in 0..c.len_utf8() { m[bi + k] = ci; }
        ci += 1;
    }
    m[s.len()] = ci;
    m
}

fn dump_pair(p: Pair<Rule>, b2c: &[usize], out: &mut Vec<String>, count: &mut usize) {
    let span = p.as_span();
    let rule = p.as_rule();
    let idx = out.len();
    out.push(String::new());
    *count += 1;
    let mut n = 0;
    for c in p.into_inner() { n += 1; dump_pair(c, b2c, out, count); }
    out[idx] = format!("T R_{:?} {} {} {}", rule, b2c[span.start()], b2c[span.end()], n);
}

/// pest's pair tree for `rule` on `text`, None = Err
fn pest_tree(kind: Kind, text: &str) -> Option<(String, usize)> {
    let rule = match kind { Kind::Op => Rule::ExecutableDocument, Kind::Ts => Rule::TypeSystemExtensionDocument };
    match RawParser::parse(rule, text) {
        Err(_) => None,
        Ok(pairs) => {
            let b2c = byte_to_char_map(text);
            let mut out = vec![];
            let mut count = 0;
            for p in pairs { dump_pair(p, &b2c, &mut out, &mut count); }
            Some((format!("[{}]", out.join("; ")), count))
        }
    }
}

fn panic_class(msg: &str) -> u64 {
    if msg.contains("Invalid character code") { 1 }
    else if msg.contains("ParseIntError") || msg.contains("Result::unwrap()") { 2 }
    else if msg.contains("Empty document") || msg.contains("Unexpected Rule") { 4 }
    else { 3 }
}

/// ("POk <term>" | "PErr" | "(PPanic k)", outcome label, erased AST if Ok)
fn impl_ast(kind: Kind, text: &str, file: usize) -> (String, String, Option<String>) {
    let t = text.to_string();
    let r = catch(move || {
        set_current_file_of_pos(file);
        let out = match kind {
            Kind::Op => parse_operation_document(&t).map(|d| ast_coq::opdoc_ext(&d)).map_err(|e| e.into_message()),
            Kind::Ts => parse_type_system_document(&t).map(|d| ast_coq::tsdoc_ext(&d)).map_err(|e| e.into_message()),
        };
        set_current_file_of_pos(0);
        out
    });
    set_current_file_of_pos(0);
    match r {
        Ok(Ok(term)) => { let er = erase_pos(&term); (format!("(POk {})", term), "ok".into(), Some(er)) }
        Ok(Err(_)) => ("PErr".into(), "err".into(), None),
        Err(msg) => { let k = panic_class(&msg); (format!("(PPanic {})", k), format!("panic{}", k), None) }
    }
}

/// replaces every `(mkPos l c f b)` by `P`
fn erase_pos(term: &str) -> String {
    let mut out = String::with_capacity(term.len());
    let mut rest = term;
    while let Some(i) = rest.find("(mkPos ") {
        out.push_str(&rest[..i]);
        let after = &rest[i..];
        let j = after.find(')').unwrap();
        out.push('P');
        rest = &after[j + 1..];
    }
    out.push_str(rest);
    out
}

// ------------------------------------------------------------------------------------------------
// a GraphQL lexer written from the specification (October 2021, section 2.1) + the #import extension;
// used only to re-render a text with different ignored tokens

#[derive(Clone, Debug, PartialEq)]
enum Tk {
    P(String),        // punctuator (also `*` inside an import statement)
    Name(String),
    Num(String),
    Str(String),      // quoted string, raw token text including the quotes
    Block(String),    // block string, raw token text including the triple quotes
    ImportHash,       // the `#` that starts an import statement
}

fn is_name_start(c: char) -> bool { c.is_ascii_alphabetic() || c == '_' }
fn is_name_cont(c: char) -> bool { c.is_ascii_alphanumeric() || c == '_' }

fn lex(src: &str) -> Option<Vec<Tk>> {
    let cs: Vec<char> = src.chars().collect();
    let mut i = 0;
    let mut out = vec![];
    let mut in_import = 0; // >0: tokens remaining context of an import statement (ends at the string)
    while i < cs.len() {
        let c = cs[i];
        match c {
            '\u{FEFF}' | '\t' | ' ' | '\n' | '\r' | ',' => { i += 1; }
            '#' => {
                // import statement?  `#` ` `* `import` !NameContinue
                let mut j = i + 1;
                while j < cs.len() && cs[j] == ' ' { j += 1; }
                let word: String = cs[j..].iter().take(6).collect();
                let after = cs.get(j + 6).copied();
                if word == "import" && !after.map_or(false, is_name_cont) && looks_like_import(&cs[j..]) {
                    out.push(Tk::ImportHash);
                    i = j;
                    in_import = 1;
                } else {
                    while i < cs.len() && cs[i] != '\n' && cs[i] != '\r' { i += 1; }
                }
            }
            '*' if in_import > 0 => { out.push(Tk::P("*".into())); i += 1; }
            '!' | '$' | '&' | '(' | ')' | ':' | '=' | '@' | '[' | ']' | '{' | '|' | '}' => { out.push(Tk::P(c.to_string())); i += 1; }
            '.' => {
                if i + 2 < cs.len() && cs[i + 1] == '.' && cs[i + 2] == '.' { out.push(Tk::P("...".into())); i += 3; } else { return None; }
            }
            '"' => {
                if i + 2 < cs.len() && cs[i + 1] == '"' && cs[i + 2] == '"' {
                    let mut j = i + 3;
                    loop {
                        if j + 3 > cs.len() { return None; }
                        if cs[j] == '"' && cs[j + 1] == '"' && cs[j + 2] == '"' { break; }
                        if j + 4 <= cs.len() && cs[j] == '\\' && cs[j + 1] == '"' && cs[j + 2] == '"' && cs[j + 3] == '"' { j += 4; continue; }
                        j += 1;
                    }
                    out.push(Tk::Block(cs[i..j + 3].iter().collect()));
                    i = j + 3;
                } else {
                    let mut j = i + 1;
                    loop {
                        if j >= cs.len() { return None; }
                        match cs[j] {
                            '"' => break,
                            '\n' | '\r' => return None,
                            '\\' => { if j + 1 >= cs.len() { return None; } j += 2; }
                            _ => j += 1,
                        }
                    }
                    out.push(Tk::Str(cs[i..=j].iter().collect()));
                    i = j + 1;
                    if in_import > 0 { in_import = 0; }
                }
            }
            c if is_name_start(c) => {
                let mut j = i;
                while j < cs.len() && is_name_cont(cs[j]) { j += 1; }
                out.push(Tk::Name(cs[i..j].iter().collect()));
                i = j;
            }
            c if c == '-' || c.is_ascii_digit() => {
                let mut j = i;
                if cs[j] == '-' { j += 1; }
                if j >= cs.len() || !cs[j].is_ascii_digit() { return None; }
                if cs[j] == '0' { j += 1; } else { while j < cs.len() && cs[j].is_ascii_digit() { j += 1; } }
                if j < cs.len() && cs[j] == '.' {
                    j += 1;
                    if j >= cs.len() || !cs[j].is_ascii_digit() { return None; }
                    while j < cs.len() && cs[j].is_ascii_digit() { j += 1; }
                }
                if j < cs.len() && (cs[j] == 'e' || cs[j] == 'E') {
                    j += 1;
                    if j < cs.len() && (cs[j] == '+' || cs[j] == '-') { j += 1; }
                    if j >= cs.len() || !cs[j].is_ascii_digit() { return None; }
                    while j < cs.len() && cs[j].is_ascii_digit() { j += 1; }
                }
                if j < cs.len() && (cs[j] == '.' || is_name_cont(cs[j])) { return None; }
                out.push(Tk::Num(cs[i..j].iter().collect()));
                i = j;
            }
            _ => return None,
        }
    }
    Some(out)
}

/// `import` (Name | `*`)+ `from` `"`: decides whether `# import ...` is a statement or a comment,
/// as the extension defines it (ignored tokens may separate the words)
fn looks_like_import(cs: &[char]) -> bool {
    let s: String = cs.iter().collect();
    let mut words = vec![];
    let mut i = 0;
    let b: Vec<char> = s.chars().collect();
    loop {
        // skip ignored (whitespace, commas, comments)
        loop {
            if i < b.len() && matches!(b[i], ' ' | '\t' | '\n' | '\r' | ',' | '\u{FEFF}') { i += 1; }
            else if i < b.len() && b[i] == '#' { while i < b.len() && b[i] != '\n' && b[i] != '\r' { i += 1; } }
            else { break; }
        }
        if i >= b.len() { return false; }
        if b[i] == '*' { words.push("*".to_string()); i += 1; }
        else if is_name_start(b[i]) { let mut j = i; while j < b.len() && is_name_cont(b[j]) { j += 1; } words.push(b[i..j].iter().collect()); i = j; }
        else if b[i] == '"' { break; }
        else { return false; }
        if words.len() > 64 { return false; }
    }
    // import X.. from "
    words.len() >= 3 && words[0] == "import" && words[words.len() - 1] == "from" && !words[1..words.len() - 1].iter().any(|w| w == "from")
}

fn tk_text(t: &Tk) -> &str {
    match t { Tk::P(s) | Tk::Name(s) | Tk::Num(s) | Tk::Str(s) | Tk::Block(s) => s, Tk::ImportHash => "#" }
}
fn wordlike(t: &Tk) -> bool { matches!(t, Tk::Name(_) | Tk::Num(_)) }
fn needs_sep(a: &Tk, b: &Tk) -> bool {
    (wordlike(a) && wordlike(b))
        || (matches!(a, Tk::Str(_) | Tk::Block(_)) && matches!(b, Tk::Str(_) | Tk::Block(_)))
        || (matches!(a, Tk::Num(_)) && matches!(b, Tk::P(p) if p == "..."))
}

struct Trivia { heavy: usize, lone_cr: bool, bom: bool, comments: bool, crlf: bool }

const COMMENT_TEXTS: &[&str] = &["", " c", "c", " a, b { }", " \"q\" \\ ", " é 日本 😀", "# nested", "\t tab", " important stuff", " import", " import x"];
/// inside an import statement a comment that itself starts like an import statement can change the meaning
const N_SAFE_COMMENT_TEXTS: usize = 9;

fn trivia_piece(rng: &mut Rng, t: &Trivia, in_import: bool, out: &mut String) {
    match rng.below(12) {
        0 | 1 | 2 => out.push(' '),
        3 => out.push('\t'),
        4 | 5 => out.push(','),
        6 => out.push('\n'),
        7 => if t.crlf { out.push_str("\r\n") } else { out.push('\n') },
        8 => if t.lone_cr { out.push('\r') } else { out.push(' ') },
        9 => if t.bom { out.push('\u{FEFF}') } else { out.push(' ') },
        _ => if t.comments {
            out.push('#');
            out.push_str(if in_import { COMMENT_TEXTS[rng.below(N_SAFE_COMMENT_TEXTS)] } else { *rng.pick(COMMENT_TEXTS) });
            match rng.below(6) { 0 if t.crlf => out.push_str("\r\n"), 1 if t.lone_cr => out.push('\r'), _ => out.push('\n') }
        } else { out.push(' ') },
    }
}

/// re-renders a token sequence with random ignored tokens in every gap
fn render_trivia(rng: &mut Rng, toks: &[Tk], t: &Trivia) -> String {
    let mut out = String::new();
    let gap = |rng: &mut Rng, out: &mut String, in_import: bool| {
        if rng.chance(t.heavy, 10) { for _ in 0..rng.range(1, 3) { trivia_piece(rng, t, in_import, out); } }
    };
    if t.bom && rng.chance(1, 3) { out.push('\u{FEFF}'); }
    gap(rng, &mut out, false);
    let mut in_import = false;
    for (i, tk) in toks.iter().enumerate() {
        if *tk == Tk::ImportHash { in_import = true; }
        if matches!(tk, Tk::Str(_)) { in_import = false; }
        out.push_str(tk_text(tk));
        if i + 1 == toks.len() { break; }
        if *tk == Tk::ImportHash {
            for _ in 0..rng.below(3) { out.push(' '); }
            continue;
        }
        let before = out.len();
        gap(rng, &mut out, in_import);
        if out.len() == before {
            // canonical-ish spacing: a space where needed, sometimes nothing, sometimes a newline
            if needs_sep(tk, &toks[i + 1]) { out.push(' '); }
            else if rng.chance(1, 2) { out.push(if rng.chance(1, 4) { '\n' } else { ' ' }); }
        }
    }
    gap(rng, &mut out, false);
    // a final comment without a line terminator
    if t.comments && rng.chance(1, 6) { out.push('#'); out.push_str(*rng.pick(COMMENT_TEXTS)); }
    out
}

// token-level rewrites that leave the denoted document unchanged -----------------------------------

/// optional leading `|` (union members, directive locations) and `&` (implements)
fn add_leading_separators(rng: &mut Rng, toks: &[Tk]) -> (Vec<Tk>, bool) {
    let mut out: Vec<Tk> = vec![];
    let mut changed = false;
    let mut ctx = ""; // "union" | "directive" | ""
    let mut depth = 0i32;
    for (i, t) in toks.iter().enumerate() {
        out.push(t.clone());
        match t {
            Tk::P(p) if p == "{" || p == "(" || p == "[" => depth += 1,
            Tk::P(p) if p == "}" || p == ")" || p == "]" => depth -= 1,
            _ => {}
        }
        if depth != 0 { continue; }
        let prev_is_at = i > 0 && toks[i - 1] == Tk::P("@".into());
        match t {
            Tk::Name(n) if n == "union" && !prev_is_at => ctx = "union",
            Tk::Name(n) if n == "directive" && !prev_is_at => ctx = "directive",
            Tk::Name(n) if (n == "type" || n == "interface" || n == "enum" || n == "input" || n == "scalar" || n == "schema" || n == "extend") && !prev_is_at => ctx = "",
            Tk::P(p) if p == "=" && ctx == "union" => {
                if matches!(toks.get(i + 1), Some(Tk::Name(_))) && rng.chance(1, 2) { out.push(Tk::P("|".into())); changed = true; }
                ctx = "";
            }
            Tk::Name(n) if n == "on" && ctx == "directive" => {
                if matches!(toks.get(i + 1), Some(Tk::Name(_))) && rng.chance(1, 2) { out.push(Tk::P("|".into())); changed = true; }
                ctx = "";
            }
            Tk::Name(n) if n == "implements" && !prev_is_at => {
                // `implements` as a keyword: preceded by the type name, which is preceded by type/interface
                let kw = i >= 2 && matches!(&toks[i - 2], Tk::Name(k) if k == "type" || k == "interface");
                if kw && matches!(toks.get(i + 1), Some(Tk::Name(_))) && rng.chance(1, 2) { out.push(Tk::P("&".into())); changed = true; }
            }
            _ => {}
        }
    }
    (out, changed)
}

/// `query { .. }` at definition level without name/variables/directives -> `{ .. }`
fn to_shorthand(toks: &[Tk]) -> (Vec<Tk>, bool) {
    let mut out = vec![];
    let mut depth = 0i32;
    let mut changed = false;
    for (i, t) in toks.iter().enumerate() {
        if depth == 0 && *t == Tk::Name("query".into()) && toks.get(i + 1) == Some(&Tk::P("{".into()))
            && (i == 0 || toks[i - 1] == Tk::P("}".into()) || matches!(toks[i - 1], Tk::Str(_))) {
            changed = true;
            continue;
        }
        match t {
            Tk::P(p) if p == "{" || p == "(" || p == "[" => depth += 1,
            Tk::P(p) if p == "}" || p == ")" || p == "]" => depth -= 1,
            _ => {}
        }
        out.push(t.clone());
    }
    (out, changed)
}

/// decoded value of a quoted string token (GraphQL escapes), None if it uses something odd
fn decode_quoted(raw: &str) -> Option<String> {
    let cs: Vec<char> = raw.chars().collect();
    let mut out = String::new();
    let mut i = 1;
    while i + 1 < cs.len() {
        if cs[i] == '\\' {
            match cs[i + 1] {
                '"' => out.push('"'), '\\' => out.push('\\'), '/' => out.push('/'), 'b' => out.push('\u{8}'), 'f' => out.push('\u{c}'),
                'n' => out.push('\n'), 'r' => out.push('\r'), 't' => out.push('\t'),
                'u' => {
                    if cs.get(i + 2) == Some(&'{') { return None; }
                    let h: String = cs.get(i + 2..i + 6)?.iter().collect();
                    out.push(char::from_u32(u32::from_str_radix(&h, 16).ok()?)?);
                    i += 4;
                }
                _ => return None,
            }
            i += 2;
        } else { out.push(cs[i]); i += 1; }
    }
    Some(out)
}

/// BlockStringValue(raw) of the specification (section 2.9.4), on the text between the triple quotes
fn block_string_value(raw: &str) -> String {
    let raw = raw.replace("\\\"\"\"", "\"\"\"");
    // lines split at LF, CRLF, CR
    let mut lines: Vec<String> = vec![];
    let mut cur = String::new();
    let cs: Vec<char> = raw.chars().collect();
    let mut i = 0;
    while i < cs.len() {
        match cs[i] {
            '\r' => { lines.push(std::mem::take(&mut cur)); if cs.get(i + 1) == Some(&'\n') { i += 1; } }
            '\n' => lines.push(std::mem::take(&mut cur)),
            c => cur.push(c),
        }
        i += 1;
    }
    lines.push(cur);
    let ws = |c: char| c == ' ' || c == '\t';
    let mut common: Option<usize> = None;
    for l in lines.iter().skip(1) {
        let indent = l.chars().take_while(|c| ws(*c)).count();
        if indent < l.chars().count() && common.map_or(true, |c| indent < c) { common = Some(indent); }
    }
    if let Some(c) = common {
        for l in lines.iter_mut().skip(1) { *l = l.chars().skip(c).collect(); }
    }
    while !lines.is_empty() && lines[0].chars().all(ws) { lines.remove(0); }
    while !lines.is_empty() && lines[lines.len() - 1].chars().all(ws) { lines.pop(); }
    lines.join("\n")
}

/// quoted string -> block string with the same value under the specification.
/// `indent`: wrap in newlines and indentation (which the specification strips again).
fn to_block(rng: &mut Rng, toks: &[Tk], indent: bool) -> (Vec<Tk>, bool) {
    let mut out = vec![];
    let mut changed = false;
    let mut in_import = false;
    for t in toks {
        if *t == Tk::ImportHash { in_import = true; }
        if let Tk::Str(raw) = t {
            let was_import = in_import;
            in_import = false;
            if !was_import && rng.chance(2, 3) {
                if let Some(v) = decode_quoted(raw) {
                    let simple = !v.is_empty() && !v.contains('"') && !v.contains('\\') && !v.contains('\r') && !v.contains('\n')
                        && !v.chars().all(|c| c == ' ' || c == '\t') && v.chars().all(|c| c >= ' ');
                    if simple {
                        let b = if indent {
                            let ind = ["  ", "    ", "\t"][rng.below(3)];
                            format!("\"\"\"\n{ind}{}\n{ind}\"\"\"", v.trim_start_matches(|c| c == ' ' || c == '\t'))
                        } else { format!("\"\"\"{v}\"\"\"") };
                        // only if the specification gives back exactly v
                        if block_string_value(&b[3..b.len() - 3]) == v { out.push(Tk::Block(b)); changed = true; continue; }
                    }
                }
            }
        }
        out.push(t.clone());
    }
    (out, changed)
}

// ------------------------------------------------------------------------------------------------
// production-coverage generator: token sequences straight from the grammar of the specification,
// all productions, names that look like keywords, nested values

struct PG<'a> { rng: &'a mut Rng, t: Vec<Tk>, budget: i32, constructs: Vec<&'static str> }
const NAMES: &[&str] = &["a", "b1", "foo", "A", "Bar", "_", "__typename", "_x9", "query", "mutation", "type", "input", "enum", "extend", "schema", "implements",
    "repeatable", "import", "from", "fragment", "interface", "union", "scalar", "directive", "subscription", "onX", "queryX", "trueish", "nullable", "Int", "String", "ID",
    // a keyword continued by a digit or underscore: one Name by maximal munch (spec 2.1.9), never keyword + rest
    "true1", "false0", "null2", "null0", "on1", "query2", "type9", "fragment_1", "extend3", "true_", "null_1", "on_", "input0", "implements2", "from1", "import_2", "schema4", "repeatable5", "mutation6", "subscription7", "union8", "enum_9", "scalar0", "interface1", "directive2"];
const TYPE_NAMES: &[&str] = &["Int", "String", "A", "Bar", "T_1", "on", "query", "type", "null", "true", "ID", "Float", "on1", "true1", "null0", "type9", "false_2", "extend3"];
const LOCS: &[&str] = &["QUERY", "MUTATION", "SUBSCRIPTION", "FIELD", "FRAGMENT_DEFINITION", "FRAGMENT_SPREAD", "INLINE_FRAGMENT", "VARIABLE_DEFINITION",
    "SCHEMA", "SCALAR", "OBJECT", "FIELD_DEFINITION", "ARGUMENT_DEFINITION", "INTERFACE", "UNION", "ENUM", "ENUM_VALUE", "INPUT_OBJECT", "INPUT_FIELD_DEFINITION"];
const STRS: &[&str] = &["\"\"", "\"s\"", "\"a b\"", "\"q\\\"q\"", "\"\\u00e9\\n\\t\"", "\"é日本😀\"", "\"\\\\ \\/ \\b\\f\\r\"", "\"\\u{1F600}\"", "\"\\u{e9}x\"", "\"\\uD83D\\uDE00\"", "\"a\\uDBFF\\uDFFFb\\uD83D\\uDE00\"", "\"\\u{10FFFF}\"", "\"\\u{000000041}\"", "\"\\uD7FF\\uE000\"", "\"#not a comment\"", "\"a,b\""];
const BLOCKS: &[&str] = &["\"\"\"\"\"\"", "\"\"\"b\"\"\"", "\"\"\"two\nlines\"\"\"", "\"\"\"\n  indented\n    more\n  \"\"\"", "\"\"\"esc \\\"\"\" q\"\"\"", "\"\"\" \"one\" \"\"two \"\"\"",
    "\"\"\"\r\n\tcrlf\r\n\"\"\"", "\"\"\"é 😀 # , \"\"\"", "\"\"\"\n\n  x\n\n\"\"\""];
const NUMS: &[&str] = &["0", "-0", "7", "-12", "1234567890123456789012", "1.5", "-0.25", "2e3", "1.0E-2", "0.0", "9E+9", "-1e0", "6.02e23"];

/// Coq terms of Gql/Ast.v with dummy positions, built from the generator's own choices (never by parsing)
const P0: &str = "pos0";
fn t_id(n: &str) -> String { format!("(mkId {} {P0})", coq_str(n)) }
fn t_list(xs: &[String]) -> String { format!("[{}]", xs.join("; ")) }
fn t_opt(x: &Option<String>) -> String { match x { None => "None".into(), Some(v) => format!("(Some {})", v) } }
fn t_kw(n: &str) -> String { format!("(mkKw {} {P0})", coq_str(n)) }

/// value of a quoted string token as the specification defines it (all escape forms, surrogate pairs)
fn spec_quoted_value(raw: &str) -> String {
    let cs: Vec<char> = raw.chars().collect();
    let mut out = String::new();
    let mut i = 1;
    let hex = |s: &[char]| u32::from_str_radix(&s.iter().collect::<String>(), 16).unwrap_or(0xFFFD);
    while i + 1 < cs.len() {
        if cs[i] != '\\' { out.push(cs[i]); i += 1; continue; }
        match cs[i + 1] {
            '"' => { out.push('"'); i += 2; } '\\' => { out.push('\\'); i += 2; } '/' => { out.push('/'); i += 2; }
            'b' => { out.push('\u{8}'); i += 2; } 'f' => { out.push('\u{c}'); i += 2; } 'n' => { out.push('\n'); i += 2; }
            'r' => { out.push('\r'); i += 2; } 't' => { out.push('\t'); i += 2; }
            'u' => {
                if cs.get(i + 2) == Some(&'{') {
                    let mut j = i + 3; while j < cs.len() && cs[j] != '}' { j += 1; }
                    out.push(char::from_u32(hex(&cs[i + 3..j])).unwrap_or('\u{FFFD}')); i = j + 1;
                } else {
                    let v = hex(&cs[i + 2..i + 6]);
                    if (0xD800..0xDC00).contains(&v) && cs.get(i + 6) == Some(&'\\') && cs.get(i + 7) == Some(&'u') {
                        let w = hex(&cs[i + 8..i + 12]);
                        out.push(char::from_u32(0x10000 + ((v - 0xD800) << 10) + (w - 0xDC00)).unwrap_or('\u{FFFD}')); i += 12;
                    } else { out.push(char::from_u32(v).unwrap_or('\u{FFFD}')); i += 6; }
                }
            }
            _ => { i += 2; }
        }
    }
    out
}

impl<'a> PG<'a> {
    fn p(&mut self, s: &str) { self.t.push(Tk::P(s.into())); }
    fn n(&mut self, s: &str) { self.t.push(Tk::Name(s.into())); }
    fn name(&mut self) -> String { let s = *self.rng.pick(NAMES); self.n(s); s.to_string() }
    fn name_not(&mut self, bad: &[&str]) -> String { loop { let s = *self.rng.pick(NAMES); if !bad.contains(&s) { self.n(s); return s.to_string(); } } }
    fn tname(&mut self) -> String { let s = *self.rng.pick(TYPE_NAMES); self.n(s); s.to_string() }
    /// pushes a string token, returns the value it denotes
    fn string(&mut self) -> String {
        if self.rng.chance(1, 4) { let s = *self.rng.pick(BLOCKS); self.t.push(Tk::Block(s.into())); block_string_value(&s[3..s.len() - 3]) }
        else { let s = *self.rng.pick(STRS); self.t.push(Tk::Str(s.into())); spec_quoted_value(s) }
    }
    fn desc(&mut self) -> String { if self.rng.chance(1, 4) { let v = self.string(); format!("(Some (mkDesc {P0} {}))", coq_str(&v)) } else { "None".into() } }
    fn ty(&mut self, d: usize) -> String {
        let mut t = match self.rng.below(if d > 2 { 2 } else { 4 }) {
            0 | 1 => { let n = self.tname(); format!("(TNamed {})", t_id(&n)) }
            _ => { self.p("["); let inner = self.ty(d + 1); self.p("]"); format!("(TList {P0} {inner})") }
        };
        if self.rng.chance(1, 3) { self.p("!"); t = format!("(TNonNull {t})"); }
        t
    }
    fn value(&mut self, d: usize, konst: bool) -> String {
        self.budget -= 1;
        let k = if d > 2 || self.budget < 0 { self.rng.below(7) } else { self.rng.below(10) };
        match k {
            0 => if konst { self.t.push(Tk::Num("1".into())); format!("(VInt {P0} (s \"1\"))") } else { self.p("$"); let n = self.name(); format!("(VVar {} {P0})", coq_str(&n)) },
            1 => { let s = *self.rng.pick(NUMS); self.t.push(Tk::Num(s.into()));
                   if s.contains('.') || s.contains('e') || s.contains('E') { format!("(VFloat {P0} {})", coq_str(s)) } else { format!("(VInt {P0} {})", coq_str(s)) } }
            2 => { let v = self.string(); format!("(VString {P0} {})", coq_str(&v)) }
            3 => { let s = *self.rng.pick(&["true", "false"]); self.n(s); format!("(VBool {P0} {s})") }
            4 => { self.n("null"); format!("(VNull {P0})") }
            5 | 6 => { let n = self.name_not(&["true", "false", "null"]); format!("(VEnum {P0} {})", coq_str(&n)) }
            7 | 8 => { self.p("["); let mut vs = vec![]; for _ in 0..self.rng.below(3) { vs.push(self.value(d + 1, konst)); } self.p("]"); format!("(VList {P0} {})", t_list(&vs)) }
            _ => { self.p("{"); let mut fs = vec![]; for _ in 0..self.rng.below(3) { let n = self.name(); self.p(":"); let v = self.value(d + 1, konst); fs.push(format!("({}, {})", t_id(&n), v)); } self.p("}"); format!("(VObject {P0} {})", t_list(&fs)) }
        }
    }
    fn args(&mut self, konst: bool) -> String {
        self.p("(");
        let mut xs = vec![];
        for _ in 0..self.rng.range(1, 2) { let n = self.name(); self.p(":"); let v = self.value(0, konst); xs.push(format!("({}, {})", t_id(&n), v)); }
        self.p(")");
        format!("(mkArgs {P0} {})", t_list(&xs))
    }
    fn dir1(&mut self, konst: bool) -> String {
        self.p("@"); let n = self.name();
        let a = if self.rng.chance(1, 2) { Some(self.args(konst)) } else { None };
        format!("(mkDir {P0} {} {})", t_id(&n), t_opt(&a))
    }
    fn dirs(&mut self, konst: bool) -> String {
        if !self.rng.chance(1, 3) { return "[]".into(); }
        let mut ds = vec![];
        for _ in 0..self.rng.range(1, 2) { ds.push(self.dir1(konst)); }
        t_list(&ds)
    }
    fn dirs1(&mut self, konst: bool) -> String { let d = self.dir1(konst); t_list(&[d]) }
    fn selset(&mut self, d: usize) -> String {
        self.p("{");
        let mut sels = vec![];
        for _ in 0..self.rng.range(1, 3) {
            self.budget -= 1;
            match self.rng.below(if d > 2 || self.budget < 0 { 6 } else { 9 }) {
                0..=5 => {
                    let alias = if self.rng.chance(1, 4) { let a = self.name(); self.p(":"); Some(t_id(&a)) } else { None };
                    let n = self.name();
                    let args = if self.rng.chance(1, 4) { Some(self.args(false)) } else { None };
                    let ds = self.dirs(false);
                    let sub = if d <= 2 && self.budget > 0 && self.rng.chance(1, 3) { Some(self.selset(d + 1)) } else { None };
                    sels.push(format!("(SField {} {} {} {} {})", t_opt(&alias), t_id(&n), t_opt(&args), ds, t_opt(&sub)));
                }
                6 => { self.p("..."); let n = self.name_not(&["on"]); let ds = self.dirs(false); sels.push(format!("(SSpread {P0} {} {})", t_id(&n), ds)); }
                _ => {
                    self.p("...");
                    let cond = if self.rng.chance(2, 3) { self.n("on"); let t = self.tname(); Some(t_id(&t)) } else { None };
                    let ds = self.dirs(false);
                    let sub = self.selset(d + 1);
                    sels.push(format!("(SInline {P0} {} {} {})", t_opt(&cond), ds, sub));
                }
            }
        }
        self.p("}");
        format!("(SelSet {P0} {})", t_list(&sels))
    }
    /// default value and directives of a variable / argument / input field definition; both together now and then
    fn default_and_dirs(&mut self) -> (String, String) {
        if self.rng.chance(1, 4) {
            self.p("="); let v = self.value(0, true);
            let mut ds = vec![]; for _ in 0..self.rng.range(1, 2) { ds.push(self.dir1(true)); }
            return (format!("(Some {v})"), t_list(&ds));
        }
        let dv = if self.rng.chance(1, 3) { self.p("="); let v = self.value(0, true); format!("(Some {v})") } else { "None".into() };
        let ds = self.dirs(true);
        (dv, ds)
    }
    fn vardefs(&mut self) -> String {
        self.p("(");
        let mut vs = vec![];
        for _ in 0..self.rng.range(1, 3) {
            self.p("$"); let n = self.name(); self.p(":"); let t = self.ty(0);
            let (dv, ds) = self.default_and_dirs();
            vs.push(format!("(mkVarDef {P0} {} {P0} {} {} {})", coq_str(&n), t, dv, ds));
        }
        self.p(")");
        format!("(mkVarDefs {P0} {})", t_list(&vs))
    }
    fn op_doc(&mut self) -> String {
        let mut defs = vec![];
        for _ in 0..self.rng.range(1, 3) {
            match self.rng.below(8) {
                0 => { let ss = self.selset(0); defs.push(format!("(DOp (mkOp {P0} Query None None [] {ss}))")); }
                1 | 2 | 3 => {
                    let k = *self.rng.pick(&["query", "mutation", "subscription"]);
                    self.n(k);
                    let ot = match k { "query" => "Query", "mutation" => "Mutation", _ => "Subscription" };
                    let name = if self.rng.chance(2, 3) { Some(t_id(&self.name())) } else { None };
                    let vars = if self.rng.chance(1, 3) { Some(self.vardefs()) } else { None };
                    let ds = self.dirs(false);
                    let ss = self.selset(0);
                    defs.push(format!("(DOp (mkOp {P0} {ot} {} {} {} {}))", t_opt(&name), t_opt(&vars), ds, ss));
                }
                4 | 5 => {
                    self.n("fragment"); let n = self.name_not(&["on"]); self.n("on"); let t = self.tname(); let ds = self.dirs(false); let ss = self.selset(0);
                    defs.push(format!("(DFrag (mkFrag {P0} {} {} {} {}))", t_id(&n), t_id(&t), ds, ss));
                }
                _ => {
                    self.t.push(Tk::ImportHash);
                    self.n("import");
                    let mut ts = vec![];
                    for _ in 0..self.rng.range(1, 3) { if self.rng.chance(1, 4) { self.p("*"); ts.push("ImpWildcard".to_string()); } else { let n = self.name_not(&["from"]); ts.push(format!("(ImpName {})", t_id(&n))); } }
                    self.n("from");
                    let s = *self.rng.pick(&["\"./frag.graphql\"", "\"../a b/é.graphql\"", "\"x\"", "\"\""]);
                    self.t.push(Tk::Str(s.into()));
                    defs.push(format!("(DImport (mkImport {P0} {} {} {P0}))", t_list(&ts), coq_str(&spec_quoted_value(s))));
                }
            }
        }
        format!("(mkOpDoc {P0} {})", t_list(&defs))
    }
    fn argsdef(&mut self) -> String {
        self.p("(");
        let mut xs = vec![];
        for _ in 0..self.rng.range(1, 2) { xs.push(self.input_value()); }
        self.p(")");
        t_list(&xs)
    }
    fn input_value(&mut self) -> String {
        let d = self.desc(); let n = self.name(); self.p(":"); let t = self.ty(0);
        let (dv, ds) = self.default_and_dirs();
        format!("(mkInputVal {d} {P0} {} {t} {dv} {ds})", t_id(&n))
    }
    fn fields(&mut self) -> String {
        self.p("{");
        let mut fs = vec![];
        for _ in 0..self.rng.range(1, 3) {
            let d = self.desc(); let n = self.name();
            let a = if self.rng.chance(1, 3) { Some(self.argsdef()) } else { None };
            self.p(":"); let t = self.ty(0); let ds = self.dirs(true);
            fs.push(format!("(mkFieldDef {d} {} {} {t} {ds})", t_id(&n), t_opt(&a)));
        }
        self.p("}");
        t_list(&fs)
    }
    fn implements(&mut self) -> String {
        self.n("implements");
        if self.rng.chance(1, 4) { self.p("&"); }
        let mut is = vec![t_id(&self.tname())];
        for _ in 0..self.rng.below(3) { self.p("&"); is.push(t_id(&self.tname())); }
        t_list(&is)
    }
    fn enum_values(&mut self) -> String {
        self.p("{");
        let mut vs = vec![];
        for _ in 0..self.rng.range(1, 3) { let d = self.desc(); let n = self.name_not(&["true", "false", "null"]); let ds = self.dirs(true); vs.push(format!("(mkEnumVal {d} {} {ds})", t_id(&n))); }
        self.p("}");
        t_list(&vs)
    }
    fn input_fields(&mut self) -> String { self.p("{"); let mut xs = vec![]; for _ in 0..self.rng.range(1, 3) { xs.push(self.input_value()); } self.p("}"); t_list(&xs) }
    fn roots(&mut self) -> String {
        self.p("{");
        let mut rs = vec![];
        for _ in 0..self.rng.range(1, 3) {
            let k = *self.rng.pick(&["query", "mutation", "subscription"]); self.n(k); self.p(":"); let t = self.tname();
            let ot = match k { "query" => "Query", "mutation" => "Mutation", _ => "Subscription" };
            rs.push(format!("({ot}, {})", t_id(&t)));
        }
        self.p("}");
        t_list(&rs)
    }
    fn members(&mut self, max_more: usize) -> String {
        if self.rng.chance(1, 4) { self.p("|"); }
        let mut ms = vec![t_id(&self.tname())];
        for _ in 0..self.rng.below(max_more) { self.p("|"); ms.push(t_id(&self.tname())); }
        t_list(&ms)
    }
    /// one type-system definition or extension, with the tsdef it denotes
    fn ts_def(&mut self) -> String {
        match self.rng.below(16) {
            0 => { let d = self.desc(); self.n("schema"); let ds = self.dirs(true); let rs = self.roots(); format!("(TSSchema (mkSchemaDef {d} {P0} {ds} {rs}))") }
            1 => { let d = self.desc(); self.n("scalar"); let n = self.tname(); let ds = self.dirs(true); format!("(TSType (TDScalar {d} {P0} {} {ds} {}))", t_id(&n), t_kw("scalar")) }
            2 | 3 => {
                let d = self.desc(); self.n("type"); let n = self.tname();
                let im = if self.rng.chance(1, 3) { self.implements() } else { "[]".into() };
                let (ds, fs) = if self.rng.chance(1, 12) { self.constructs.push("object-type-without-fields"); ("[]".to_string(), "[]".to_string()) }
                    else if self.rng.chance(1, 5) { let ds = self.dirs1(true); let fs = if self.rng.chance(1, 2) { self.fields() } else { "[]".into() }; (ds, fs) }
                    else { let ds = self.dirs(true); let fs = self.fields(); (ds, fs) };
                format!("(TSType (TDObject {d} {P0} {} {im} {ds} {fs} {}))", t_id(&n), t_kw("type"))
            }
            4 => {
                let d = self.desc(); self.n("interface"); let n = self.tname();
                let im = if self.rng.chance(1, 3) { self.implements() } else { "[]".into() };
                let ds = self.dirs(true);
                let fs = if self.rng.chance(4, 5) { self.fields() } else { "[]".into() };
                format!("(TSType (TDInterface {d} {P0} {} {im} {ds} {fs} {}))", t_id(&n), t_kw("interface"))
            }
            5 => {
                let d = self.desc(); self.n("union"); let n = self.tname(); let ds = self.dirs(true);
                let ms = if self.rng.chance(1, 10) { self.constructs.push("union-without-members"); "[]".to_string() } else { self.p("="); self.members(3) };
                format!("(TSType (TDUnion {d} {P0} {} {ds} {ms} {}))", t_id(&n), t_kw("union"))
            }
            6 => { let d = self.desc(); self.n("enum"); let n = self.tname(); let ds = self.dirs(true); let vs = if self.rng.chance(4, 5) { self.enum_values() } else { "[]".into() };
                   format!("(TSType (TDEnum {d} {P0} {} {ds} {vs} {}))", t_id(&n), t_kw("enum")) }
            7 => { let d = self.desc(); self.n("input"); let n = self.tname(); let ds = self.dirs(true); let fs = if self.rng.chance(4, 5) { self.input_fields() } else { "[]".into() };
                   format!("(TSType (TDInput {d} {P0} {} {ds} {fs} {}))", t_id(&n), t_kw("input")) }
            8 | 9 => {
                let d = self.desc(); self.n("directive"); self.p("@"); let n = self.name();
                let a = if self.rng.chance(1, 3) { Some(self.argsdef()) } else { None };
                let rep = if self.rng.chance(1, 3) { self.n("repeatable"); Some(t_id("repeatable")) } else { None };
                self.n("on");
                if self.rng.chance(1, 4) { self.p("|"); }
                let mut ls = vec![]; let l = *self.rng.pick(LOCS); self.n(l); ls.push(t_id(l));
                for _ in 0..self.rng.below(3) { self.p("|"); let l = *self.rng.pick(LOCS); self.n(l); ls.push(t_id(l)); }
                format!("(TSDirective (mkDirDef {d} {P0} {} {} {} {} {}))", t_id(&n), t_opt(&a), t_opt(&rep), t_list(&ls), t_kw("directive"))
            }
            10 => { self.n("extend"); self.n("schema");
                    let (ds, rs) = if self.rng.chance(1, 2) { let ds = self.dirs1(true); let rs = if self.rng.chance(1, 2) { self.roots() } else { "[]".into() }; (ds, rs) } else { ("[]".to_string(), self.roots()) };
                    format!("(TSSchemaExt (mkSchemaExt {P0} {ds} {rs}))") }
            11 => { self.n("extend"); self.n("scalar"); let n = self.tname(); let ds = self.dirs1(true); format!("(TSTypeExt (TEScalar {P0} {} {ds}))", t_id(&n)) }
            12 => {
                self.n("extend"); let k = *self.rng.pick(&["type", "interface"]); self.n(k); let n = self.tname();
                let (im, ds, fs) = match self.rng.below(3) {
                    0 => { let im = if self.rng.chance(1, 2) { self.implements() } else { "[]".into() }; let ds = self.dirs(true); let fs = self.fields(); (im, ds, fs) }
                    1 => { let im = if self.rng.chance(1, 2) { self.implements() } else { "[]".into() }; let ds = self.dirs1(true); (im, ds, "[]".to_string()) }
                    _ => { (self.implements(), "[]".to_string(), "[]".to_string()) }
                };
                format!("(TSTypeExt ({} {P0} {} {im} {ds} {fs}))", if k == "type" { "TEObject" } else { "TEInterface" }, t_id(&n))
            }
            13 => {
                self.n("extend"); self.n("union"); let n = self.tname();
                let (ds, ms) = if self.rng.chance(1, 2) { let ds = self.dirs(true); self.p("="); let ms = self.members(2); (ds, ms) } else { (self.dirs1(true), "[]".to_string()) };
                format!("(TSTypeExt (TEUnion {P0} {} {ds} {ms}))", t_id(&n))
            }
            14 => { self.n("extend"); self.n("enum"); let n = self.tname();
                    let (ds, vs) = if self.rng.chance(1, 2) { let ds = self.dirs(true); let vs = self.enum_values(); (ds, vs) } else { (self.dirs1(true), "[]".to_string()) };
                    format!("(TSTypeExt (TEEnum {P0} {} {ds} {vs}))", t_id(&n)) }
            _ => { self.n("extend"); self.n("input"); let n = self.tname();
                   let (ds, fs) = if self.rng.chance(1, 2) { let ds = self.dirs(true); let fs = self.input_fields(); (ds, fs) } else { (self.dirs1(true), "[]".to_string()) };
                   format!("(TSTypeExt (TEInput {P0} {} {ds} {fs}))", t_id(&n)) }
        }
    }
    fn ts_doc(&mut self) -> String { let mut ds = vec![]; for _ in 0..self.rng.range(1, 3) { ds.push(self.ts_def()); } t_list(&ds) }
}

fn render_plain(toks: &[Tk]) -> String {
    let mut out = String::new();
    for (i, t) in toks.iter().enumerate() {
        out.push_str(tk_text(t));
        if let Some(n) = toks.get(i + 1) {
            if *t == Tk::ImportHash { continue; }
            let tight = matches!(t, Tk::P(p) if p == "$" || p == "@" || p == "(" || p == "[" || p == "...") || matches!(n, Tk::P(p) if p == ")" || p == "]" || p == ":" || p == "!" || p == "(");
            if !tight || needs_sep(t, n) { out.push(' '); }
        }
    }
    out
}

// ------------------------------------------------------------------------------------------------
// malformed stream

fn mutate_tokens(rng: &mut Rng, toks: &[Tk]) -> Vec<Tk> {
    let mut v = toks.to_vec();
    for _ in 0..rng.range(1, 2) {
        if v.is_empty() { break; }
        let i = rng.below(v.len());
        match rng.below(6) {
            0 => { v.remove(i); }
            1 => { let t = v[i].clone(); v.insert(i, t); }
            2 => { let j = rng.below(v.len()); v.swap(i, j); }
            3 => { let p = *rng.pick(&["{", "}", "(", ")", "[", "]", "!", "$", "@", ":", "=", "|", "&", "..."]); v.insert(i, Tk::P(p.into())); }
            4 => { let n = *rng.pick(&["on", "query", "fragment", "true", "null", "extend", "type", "x"]); v[i] = Tk::Name(n.into()); }
            _ => { v.truncate(i); }
        }
    }
    v
}

fn random_soup(rng: &mut Rng) -> String {
    const PIECES: &[&str] = &["{", "}", "(", ")", "[", "]", "!", "$", "@", ":", "=", "|", "&", "...", "..", ".", "query", "fragment", "on", "type", "a", "B", "1", "-", "1.", "1e", "0x1", "00", "\"", "\"s\"", "\"\"\"", "#", "# import * from \"x\"\n",
        "#import", " ", "\n", "\r", ",", "\u{FEFF}", "é", "😀", "\\", "\"\\u00\"", "\"\\uD800\"", "\"\\uDE00\\uD83D\"", "\"\\uD83D\\uDE00\"", "\"\\uD83D\\u{DE00}\"", "\"\\u{100000000}\"", "\"\\u{000000041}\"", "\"\\u{110000}\"", "\"\\u{}\"", "\"\\q\"", "*", "true", "null", "extend", "schema", "union", "enum", "input", "directive", "implements", "-1", "1.5e+3"];
    let n = rng.range(1, 14);
    let mut s = String::new();
    for _ in 0..n { s.push_str(*rng.pick(PIECES)); if rng.chance(1, 2) { s.push(' '); } }
    s
}

// ------------------------------------------------------------------------------------------------
// the repository's own parser test inputs: string literals passed to parse_* in crates/parser/src/tests/mod.rs

fn rust_string_literals_after(src: &str, marker: &str) -> Vec<String> {
    let mut out = vec![];
    let cs: Vec<char> = src.chars().collect();
    let mk: Vec<char> = marker.chars().collect();
    let mut i = 0;
    while i + mk.len() < cs.len() {
        if cs[i..i + mk.len()] == mk[..] {
            let mut j = i + mk.len();
            while j < cs.len() && cs[j].is_whitespace() { j += 1; }
            if j < cs.len() && cs[j] == '"' {
                j += 1;
                let mut s = String::new();
                let mut ok = false;
                while j < cs.len() {
                    match cs[j] {
                        '"' => { ok = true; break; }
                        '\\' => {
                            j += 1;
                            match cs.get(j) {
                                Some('n') => s.push('\n'), Some('r') => s.push('\r'), Some('t') => s.push('\t'), Some('\\') => s.push('\\'), Some('"') => s.push('"'),
                                Some('0') => s.push('\0'), Some('\'') => s.push('\''),
                                Some('\n') => { while j + 1 < cs.len() && cs[j + 1].is_whitespace() { j += 1; } }
                                Some('u') => {
                                    let mut k = j + 2; let mut h = String::new();
                                    while k < cs.len() && cs[k] != '}' { h.push(cs[k]); k += 1; }
                                    if let Some(c) = u32::from_str_radix(&h, 16).ok().and_then(char::from_u32) { s.push(c); }
                                    j = k;
                                }
                                _ => {}
                            }
                        }
                        c => s.push(c),
                    }
                    j += 1;
                }
                if ok { out.push(s); }
            } else if j + 1 < cs.len() && cs[j] == 'r' && (cs[j + 1] == '#' || cs[j + 1] == '"') {
                let mut k = j + 1; let mut hashes = 0;
                while k < cs.len() && cs[k] == '#' { hashes += 1; k += 1; }
                if k < cs.len() && cs[k] == '"' {
                    k += 1;
                    let close: String = std::iter::once('"').chain(std::iter::repeat('#').take(hashes)).collect();
                    let rest: String = cs[k..].iter().collect();
                    if let Some(e) = rest.find(&close) { out.push(rest[..e].to_string()); }
                }
            }
            i = j;
        } else { i += 1; }
    }
    out
}

fn rs_files(dir: &std::path::Path, out: &mut Vec<std::path::PathBuf>) {
    if let Ok(rd) = std::fs::read_dir(dir) {
        let mut es: Vec<_> = rd.filter_map(|e| e.ok()).map(|e| e.path()).collect();
        es.sort();
        for p in es {
            if p.is_dir() { if p.file_name().map_or(false, |n| n != "target" && n != "node_modules") { rs_files(&p, out); } }
            else if p.extension().map_or(false, |e| e == "rs") { out.push(p); }
        }
    }
}

/// quick tier: the parser crate's own tests; thorough tier: every literal passed to parse_* anywhere under crates/
fn repo_test_inputs(all: bool) -> Vec<(Kind, String)> {
    let repo = std::env::var("VERIF_REPO").unwrap_or_else(|_| "/repo".into());
    let mut files = vec![];
    if all { rs_files(std::path::Path::new(&format!("{repo}/crates")), &mut files); }
    else { files.push(std::path::PathBuf::from(format!("{repo}/crates/parser/src/tests/mod.rs"))); }
    let mut out = vec![];
    let mut seen = HashSet::new();
    for f in files {
        if let Ok(src) = std::fs::read_to_string(&f) {
            for s in rust_string_literals_after(&src, "parse_operation_document(") { if seen.insert((0, s.clone())) { out.push((Kind::Op, s)); } }
            for s in rust_string_literals_after(&src, "parse_type_system_document(") { if seen.insert((1, s.clone())) { out.push((Kind::Ts, s)); } }
        }
    }
    out
}

/// strips the common indentation the repo's test literals carry, to keep the model's work small
fn dedent(s: &str) -> String {
    let lines: Vec<&str> = s.split('\n').collect();
    let ind = lines.iter().filter(|l| !l.trim().is_empty()).map(|l| l.len() - l.trim_start_matches(' ').len()).min().unwrap_or(0);
    lines.iter().map(|l| if l.len() >= ind && l[..ind].chars().all(|c| c == ' ') { &l[ind..] } else { *l }).collect::<Vec<_>>().join("\n")
}

// ------------------------------------------------------------------------------------------------

/// corpus entries that are not documents of the language and must be rejected (Err, not Ok, not a panic)
const MUST_FAIL: &[&str] = &["surrogate-escape", "brace-escape-too-big", "brace-escape-overflow", "trailing-surrogate-alone", "reversed-surrogates", "interrupted-surrogates",
    "surrogate-then-brace", "brace-surrogate", "nine-digit-overflow", "bad-escape-in-description", "union-eq-no-members", "empty-selection", "empty-doc", "only-comment", "int-then-name", "enum-true"];

/// fixed witnesses and regression inputs, always run first
fn corpus() -> Vec<(Kind, &'static str, &'static str, bool)> {
    vec![
        (Kind::Op, "shorthand", "{ a }", true),
        (Kind::Op, "shorthand-nested", "{ a { x } }", true),
        (Kind::Op, "trailing-comment-no-newline", "query { a } # c", true),
        (Kind::Op, "lone-cr", "query Q {\r  x\r}", true),
        (Kind::Op, "crlf", "query Q {\r\n  x\r\n}", true),
        (Kind::Op, "astral-column", "{ x(s: \"😀\") y }", true),
        (Kind::Op, "surrogate-escape", "{ a(s: \"\\uD800\") }", false),
        (Kind::Op, "brace-escape-too-big", "{ a(s: \"\\u{110000}\") }", false),
        (Kind::Op, "brace-escape-overflow", "{ a(s: \"\\u{FFFFFFFFF}\") }", false),
        (Kind::Op, "surrogate-pair", "{ a(s: \"\\uD83D\\uDE00\") }", true),
        (Kind::Op, "trailing-surrogate-alone", "{ a(s: \"\\uDE00\") }", false),
        (Kind::Op, "reversed-surrogates", "{ a(s: \"\\uDE00\\uD83D\") }", false),
        (Kind::Op, "interrupted-surrogates", "{ a(s: \"\\uD83Dx\\uDE00\") }", false),
        (Kind::Op, "surrogate-then-brace", "{ a(s: \"\\uD83D\\u{DE00}\") }", false),
        (Kind::Op, "brace-surrogate", "{ a(s: \"\\u{D800}\") }", false),
        (Kind::Op, "nine-digit-overflow", "{ a(s: \"\\u{100000000}\") }", false),
        (Kind::Ts, "bad-escape-in-description", "\"\\uD800\" type A { \"ok\" f: Int }", false),
        (Kind::Op, "surrogate-pairs-valid", "{ a(s: \"x\\uD83D\\uDE00y\\uDBFF\\uDFFF\") }", true),
        (Kind::Op, "nine-digit-leading-zeros", "{ a(s: \"\\u{000000041}\") }", true),
        (Kind::Ts, "surrogate-pair-description", "\"\\uD83D\\uDE00\" type A { f(a: String = \"\\uD83D\\uDE00\"): Int }", true),
        (Kind::Op, "brace-escape-ok", "{ a(s: \"\\u{1F600}\\u{41}\") }", true),
        (Kind::Op, "block-string-raw", "{ a(s: \"\"\"\n    hello\n      world\n  \"\"\") }", true),
        (Kind::Op, "block-string-escape", "{ a(s: \"\"\"x \\\"\"\" y\"\"\") }", true),
        (Kind::Op, "block-string-simple", "{ a(s: \"\"\"simple\"\"\") }", true),
        (Kind::Op, "empty-string", "{ a(s: \"\") }", true),
        (Kind::Op, "bom", "\u{FEFF}query { a }", true),
        (Kind::Op, "commas", ",,query,Q,{,a,,b,},", true),
        (Kind::Op, "import", "#import F, G from \"./f.graphql\"\nquery { ...F }", true),
        (Kind::Op, "import-wildcard", "# import * from \"x\"\n{ a }", true),
        (Kind::Op, "import-multiline", "#import A,\n  B # c\n from \"x\" { a }", true),
        (Kind::Op, "important-comment", "# important\n{ a }", true),
        (Kind::Op, "keyword-names", "query query($on: on = on) { on: on fragment: type ...query ... on on { on } }", true),
        (Kind::Op, "keyword-digit-names", "query query2($true1: on1 = null0 @false0) { true1: null2(x: true1, y: [null0, false0, on1], z: {true_: false0}) @on1 ...fragment_1 ... on on1 { type9 } }", true),
        (Kind::Op, "keyword-digit-fragment", "fragment on1 on true1 { null_1 } fragment fragment_1 on on_ { query2 }", true),
        (Kind::Op, "numbers", "{ a(i: -0, j: 12, f: 1.5e-3, g: 1E5, h: 0.0) }", true),
        (Kind::Op, "int-then-name", "{ a(i: 1x) }", false),
        (Kind::Op, "float-dot", "{ a(i: 1.) }", false),
        (Kind::Op, "var-space", "query ($ a : Int) { f(x: $ a) @ d }", true),
        (Kind::Op, "empty-doc", "", false),
        (Kind::Op, "only-comment", "# nothing", false),
        (Kind::Op, "empty-selection", "{ }", false),
        (Kind::Op, "deep", "{a{b{c{d{e{f{g{h}}}}}}}}", true),
        (Kind::Op, "values", "{ a(l: [], o: {}, n: null, t: true, f: false, e: E, ll: [[1], [{k: [$v]}]]) }", true),
        (Kind::Ts, "type-no-body", "type A", true),
        (Kind::Ts, "type-implements-no-body", "type A implements I", true),
        (Kind::Ts, "type-directive-no-body", "type A @d", true),
        (Kind::Ts, "union-no-members", "union U", true),
        (Kind::Ts, "union-directive-no-members", "union U @d", true),
        (Kind::Ts, "union-desc-no-members-then-type", "\"d\" union U type A implements I scalar S", true),
        (Kind::Ts, "union-eq-no-members", "union U =", false),
        (Kind::Ts, "union-leading-bar", "union U = | A | B", true),
        (Kind::Ts, "implements-leading-amp", "type A implements & I & J { f: Int }", true),
        (Kind::Ts, "interface-no-body", "interface I", true),
        (Kind::Ts, "enum-no-body", "enum E", true),
        (Kind::Ts, "input-no-body", "input X @d", true),
        (Kind::Ts, "schema", "\"d\" schema @a { query: Q mutation: M }", true),
        (Kind::Ts, "extend-schema", "extend schema @x", true),
        (Kind::Ts, "extend-all", "extend scalar S @d extend type A implements I extend interface I @d extend union U = A extend enum E { X } extend input In { a: Int = 1 }", true),
        (Kind::Ts, "directive-def", "\"\"\"doc\"\"\" directive @d(a: Int = 1 @x, \"d\" b: [String!]!) repeatable on | FIELD | QUERY", true),
        (Kind::Ts, "descriptions", "\"\"\"\n  Type doc\n\"\"\"\ntype A {\n  \"field doc\"\n  f(\"arg doc\" a: Int): Int @deprecated(reason: \"\"\"why\"\"\")\n}", true),
        (Kind::Ts, "lone-cr-schema", "type A {\r  f: Int\r}\rscalar S", true),
        (Kind::Ts, "crlf-schema", "type A {\r\n  f: Int\r\n}\r\nscalar S", true),
        (Kind::Ts, "two-types", "type A { f: Int } type B { g: [A!]! }", true),
        (Kind::Ts, "arg-default-and-directive", "type Q { f(limit: Int = 10 @deprecated(reason: \"x\")): Int }", true),
        (Kind::Ts, "directive-arg-default-and-directive", "directive @x(arg: T = 1 @d, \"doc\" b: [Int!] = [1] @e @f) repeatable on FIELD | QUERY", true),
        (Kind::Ts, "input-field-default-and-directive", "input I { a: Int = 1 @d b: String = \"s\" @e(x: 1) }", true),
        (Kind::Op, "variable-default-and-directive", "query Q($v: Int = 1 @d, $w: [Int] = [1, 2] @e @f) { a }", true),
        (Kind::Ts, "enum-true", "enum E { true }", false),
        (Kind::Ts, "keyword-digit-enum", "enum true1 { true1 false0 null2 on1 type9 } extend enum null0 { null_1 }", true),
        (Kind::Ts, "keyword-digit-types", "type type9 implements on1 & implements2 { true1(null0: input0 = true1): [on1!] @extend3 } union union8 = true1 | null0 directive @on1 repeatable on FIELD", true),
        (Kind::Ts, "keyword-digit-schema", "schema { query: query2 mutation: mutation6 } scalar scalar0 interface interface1 input input0 { from1: import_2 = null0 }", true),
        (Kind::Ts, "op-in-schema", "query { a }", false),
    ]
}

struct Ctx { cases: Cases, distinct: HashSet<String>, stats: BTreeMap<String, u64>, max_len: usize, samples: Vec<serde_json::Value> }

impl Ctx {
    fn bump(&mut self, k: &str) { *self.stats.entry(k.to_string()).or_insert(0) += 1; }
    /// runs one text; `canon`: erased AST of the canonical rendering this text must agree with
    fn add(&mut self, kind: Kind, src: &str, stream: &str, file: usize, canon: Option<&Option<String>>, expect: u8, expected: Option<&str>, extra: serde_json::Value) -> (bool, Option<String>) {
        // expect: 0 = nothing known, 1 = a document of the language (must parse, property applies), 2 = not in the language (must be rejected)
        let in_lang = expect == 1;
        let nchars = src.chars().count();
        if nchars > self.max_len { self.bump("skipped_too_long"); return (false, None); }
        let tree = pest_tree(kind, src);
        let (ast_term, outcome, erased) = impl_ast(kind, src, file);
        let canon_same = match canon { None => true, Some(c) => *c == erased };
        let lone_cr = { let b: Vec<char> = src.chars().collect(); (0..b.len()).any(|i| b[i] == '\r' && b.get(i + 1) != Some(&'\n')) };
        let toks = lex(src);
        let mut block_raw_ne_cooked = false;
        // the computable in-fragment predicate of the parse_render theorems, at text level: whitespace trivia only
        // (no comments), no block strings, no \u / \/ escapes; every type, value, argument list and directive of such
        // a text is an instance of C07_parse_render_{type,value,arguments,directive_*}
        let mut render_fragment = toks.is_some();
        // ... and of the whole-document theorem C07_parse_render_operation_document: an executable document of that kind
        // without import statements (the quoted strings are renderings of Strings.quote: no raw tab inside)
        let mut render_document = toks.is_some() && matches!(kind, Kind::Op);
        if let Some(ts) = &toks {
            let hashes_src = src.matches('#').count();
            let mut hashes_tok = 0usize;
            for t in ts {
                match t {
                    Tk::Block(_) => render_fragment = false,
                    Tk::Str(x) => { hashes_tok += x.matches('#').count(); if x.contains("\\u") || x.contains("\\/") { render_fragment = false; } if x.contains('\t') { render_document = false; } }
                    Tk::ImportHash => { hashes_tok += 1; render_document = false; }
                    _ => {}
                }
            }
            if hashes_src > hashes_tok { render_fragment = false; }
        }
        if let Some(ts) = &toks {
            for t in ts { if let Tk::Block(b) = t { if block_string_value(&b[3..b.len() - 3]) != b[3..b.len() - 3] { block_raw_ne_cooked = true; } } }
        }
        let term = format!("{} {} {} {} {} {} {} {}",
            match kind { Kind::Op => "COp", Kind::Ts => "CTs" }, file, coq_str(src),
            match &tree { None => "None".to_string(), Some((t, _)) => format!("(Some {})", t) }, ast_term, coq_bool(canon_same), expect, match expected { Some(e) => format!("(Some {})", e), None => "None".to_string() });
        // known-finding classes: a flag set by the generator for a construct + the failure mode that construct has
        let mut spec_classes: Vec<String> = vec![];
        if let Some(fl) = extra.get("constructs").and_then(|v| v.as_array()) {
            for f in fl {
                match (f.as_str().unwrap_or(""), outcome.as_str()) {
                    _ => {}
                }
            }
        }
        let mut d = json!({"kind": match kind { Kind::Op => "operation", Kind::Ts => "type-system" }, "stream": stream, "text": src, "file": file,
            "impl_outcome": outcome, "pairs": tree.as_ref().map(|t| t.1), "canon_same": canon_same,
            "has_lone_cr": lone_cr, "block_raw_ne_cooked": block_raw_ne_cooked, "spec_lexable": toks.is_some(), "render_fragment": render_fragment, "in_lang": in_lang, "expect": expect, "has_expected_document": expected.is_some(), "spec_classes": spec_classes});
        if let (Some(o), Some(e)) = (d.as_object_mut(), extra.as_object()) { for (k, v) in e { o.insert(k.clone(), v.clone()); } }
        self.bump(&format!("stream:{stream}"));
        self.bump(&format!("outcome:{outcome}"));
        self.bump(&format!("len:{:03}-{:03}", nchars / 50 * 50, nchars / 50 * 50 + 49));
        if lone_cr { self.bump("with_lone_cr"); }
        if block_raw_ne_cooked { self.bump("with_block_string_needing_cooking"); }
        if !canon_same { self.bump("canon_differs"); }
        if in_lang { self.bump("in_language"); if outcome != "ok" { self.bump("in_language_but_not_parsed"); }
                     if render_fragment { self.bump("in_language_and_in_parse_render_fragment"); }
                     if render_fragment && render_document { self.bump("in_language_and_whole_document_in_parse_render_fragment"); } }
        if tree.is_some() != (outcome != "err") { self.bump("INCONSISTENT_tree_vs_ast"); }
        if outcome == "ok" && nchars >= 8 { self.distinct.insert(src.to_string()); }
        if self.samples.len() < 6 && self.cases.len() % 97 == 5 { self.samples.push(d.clone()); }
        self.cases.push(term, d);
        (true, erased)
    }
}

fn main() {
    silence_panics();
    let args = parse_args();
    let mut rng = Rng::new(args.seed);
    let thorough = args.tier == "thorough";
    let mut cx = Ctx {
        cases: Cases::new("From V Require Import Base.Util Gql.Ast Peg.Peg Gen.C07_grammar_gen C07.Builder C07.Model C07.Corr.", "case", "agree", "holds", if thorough { 120 } else { 170 }),
        distinct: HashSet::new(), stats: BTreeMap::new(), max_len: if thorough { 700 } else { 420 }, samples: vec![],
    };

    // 0. corpus
    for (kind, name, text, in_lang) in corpus() {
        let constructs: Vec<&str> = match name {
            _ => vec![],
        };
        cx.add(kind, text, "corpus", 0, None, if MUST_FAIL.contains(&name) { 2 } else if in_lang { 1 } else { 0 }, None, json!({"corpus": name, "constructs": constructs}));
    }
    // 0b. deep nesting (the model's fuel must suffice: a PFuel result never agrees)
    for depth in [40usize, 120] {
        let list = format!("{{a(x:{}1{})}}", "[".repeat(depth), "]".repeat(depth));
        cx.add(Kind::Op, &list, "corpus", 0, None, 1, None, json!({"corpus": format!("deep-list-{depth}")}));
        let sel = format!("{}x{}", "{a".repeat(depth), "}".repeat(depth));
        cx.add(Kind::Op, &sel, "corpus", 0, None, 1, None, json!({"corpus": format!("deep-selection-{depth}")}));
        let ty = format!("type A{{f:{}Int{}}}", "[".repeat(depth), "]!".repeat(depth));
        cx.add(Kind::Ts, &ty, "corpus", 0, None, 1, None, json!({"corpus": format!("deep-type-{depth}")}));
        let obj = format!("{{a(x:{}1{})}}", "{k:".repeat(depth), "}".repeat(depth));
        cx.add(Kind::Op, &obj, "corpus", 0, None, 1, None, json!({"corpus": format!("deep-object-{depth}")}));
    }
    // 1. the repository's own parser test inputs (dedented; original too when short enough)
    for (kind, text) in repo_test_inputs(thorough) {
        let d = dedent(&text);
        cx.add(kind, &d, "repo-tests", 0, None, 1, None, json!({}));
        if let Some(toks) = lex(&d) {
            let canon = render_plain(&toks);
            let (added, ce) = cx.add(kind, &canon, "repo-tests-canonical", 0, None, 1, None, json!({}));
            if !added { continue; }
            let tv = Trivia { heavy: 5, lone_cr: false, bom: true, comments: true, crlf: true };
            let t = render_trivia(&mut rng, &toks, &tv);
            cx.add(kind, &t, "repo-tests-trivia", 1, Some(&ce), 1, None, json!({"canonical": canon}));
        }
    }

    // 2. gen.rs schemas and documents, one definition (or a few) at a time, canonical + trivia variants
    let n_schemas = if thorough { 320 } else { 30 };
    for _ in 0..n_schemas {
        let s = gen_schema(&mut rng, &SchemaCfg::default());
        // schema pieces
        let n_types = s.types.len();
        let mut pieces: Vec<String> = vec![];
        let mut idx: Vec<usize> = (0..n_types).collect();
        rng.shuffle(&mut idx);
        for ch in idx.chunks(2).take(if thorough { 6 } else { 3 }) {
            let set: std::collections::BTreeSet<usize> = ch.iter().cloned().collect();
            pieces.push(render_schema(&s, Some(&set)));
        }
        let set: std::collections::BTreeSet<usize> = [usize::MAX].into_iter().collect();
        let head = render_schema(&s, Some(&set));
        if !head.is_empty() { pieces.push(head); }
        for text in pieces { variants(&mut cx, &mut rng, Kind::Ts, &text, "gen-schema", &[], None); }
        for _ in 0..(if thorough { 4 } else { 2 }) {
            let d = gen_doc(&mut rng, &s, &DocCfg { max_depth: 3, shorthand: true, ..DocCfg::default() });
            for o in &d.ops { let one = Doc { ops: vec![o.clone()], frags: vec![], features: vec![] }; variants(&mut cx, &mut rng, Kind::Op, &one.render(), "gen-doc", &[], None); }
            for f in d.frags.iter().take(2) { let one = Doc { ops: vec![], frags: vec![f.clone()], features: vec![] }; variants(&mut cx, &mut rng, Kind::Op, &one.render(), "gen-doc", &[], None); }
        }
    }

    // 3. production-coverage generator
    let n_pg = if thorough { 8000 } else { 700 };
    for i in 0..n_pg {
        let kind = if i % 2 == 0 { Kind::Op } else { Kind::Ts };
        let mut pg = PG { rng: &mut rng, t: vec![], budget: 14, constructs: vec![] };
        let expected = if kind == Kind::Op { pg.op_doc() } else { pg.ts_doc() };
        let toks = pg.t;
        let constructs = pg.constructs;
        let text = render_plain(&toks);
        variants(&mut cx, &mut rng, kind, &text, "grammar-gen", &constructs, Some(&expected));
    }

    // 4. malformed stream
    let n_mal = if thorough { 7000 } else { 600 };
    for i in 0..n_mal {
        let kind = if i % 2 == 0 { Kind::Op } else { Kind::Ts };
        let text = if i % 3 == 0 { random_soup(&mut rng) } else {
            let mut pg = PG { rng: &mut rng, t: vec![], budget: 8, constructs: vec![] };
            if kind == Kind::Op { pg.op_doc(); } else { pg.ts_doc(); }
            let toks = pg.t;
            let m = mutate_tokens(&mut rng, &toks);
            if rng.chance(1, 2) { render_plain(&m) } else { let lc = rng.chance(1, 6); render_trivia(&mut rng, &m, &Trivia { heavy: 3, lone_cr: lc, bom: true, comments: true, crlf: true }) }
        };
        // an operation text through the type-system entry point and vice versa, now and then
        let kind = if rng.chance(1, 10) { if kind == Kind::Op { Kind::Ts } else { Kind::Op } } else { kind };
        cx.add(kind, &text, "malformed", rng.below(3), None, 0, None, json!({}));
    }

    let n = cx.cases.len();
    cx.cases.write(&args.out);
    let stats: serde_json::Value = cx.stats.iter().map(|(k, v)| (k.clone(), json!(v))).collect::<serde_json::Map<_, _>>().into();
    write_meta(&args.out, &json!({
        "evaluations": n,
        "distinct_nontrivial": cx.distinct.len(),
        "rule": "distinct texts of at least 8 characters that the implementation parses successfully (both the pest pair tree and the AST with all positions are compared with the model); rejected and panicking texts are compared too but not counted as non-trivial",
        "samples": cx.samples,
        "distribution": stats,
    }));
}

/// canonical text + variants with the same denotation (trivia, leading separators, shorthand, block strings)
fn variants(cx: &mut Ctx, rng: &mut Rng, kind: Kind, text: &str, stream: &str, constructs: &[&str], expected: Option<&str>) {
    let Some(toks) = lex(text) else { cx.add(kind, text, stream, 0, None, 0, None, json!({"note": "not lexable by the spec lexer"})); cx.bump("GENERATOR_TEXT_NOT_LEXABLE"); return; };
    let canon = render_plain(&toks);
    let (added, ce) = cx.add(kind, &canon, stream, 0, None, 1, expected, json!({"variant": "canonical", "constructs": constructs}));
    if !added || ce.is_none() { return; }
    let base = json!({"canonical": canon, "constructs": constructs});
    // trivia only
    let tv = Trivia { heavy: rng.range(2, 8), lone_cr: false, bom: rng.chance(1, 2), comments: true, crlf: rng.chance(1, 2) };
    let t = render_trivia(rng, &toks, &tv);
    cx.add(kind, &t, stream, rng.below(3), Some(&ce), 1, expected, merge(&base, json!({"variant": "trivia"})));
    // lone CR as line terminator (known finding: positions)
    if rng.chance(1, 6) {
        let tv = Trivia { heavy: 4, lone_cr: true, bom: false, comments: rng.chance(1, 2), crlf: false };
        let t = render_trivia(rng, &toks, &tv);
        cx.add(kind, &t, stream, 0, Some(&ce), 1, expected, merge(&base, json!({"variant": "trivia-lone-cr"})));
    }
    // leading | and &
    let (t2, ch) = if kind == Kind::Ts { add_leading_separators(rng, &toks) } else { (vec![], false) };
    if ch {
        let tv = Trivia { heavy: 2, lone_cr: false, bom: false, comments: false, crlf: false };
        let t = render_trivia(rng, &t2, &tv);
        cx.add(kind, &t, stream, 0, Some(&ce), 1, expected, merge(&base, json!({"variant": "leading-separators"})));
    }
    // anonymous query shorthand
    if kind == Kind::Op {
        let (t2, ch) = to_shorthand(&toks);
        if ch { let t = render_plain(&t2); cx.add(kind, &t, stream, 0, Some(&ce), 1, expected, merge(&base, json!({"variant": "shorthand"}))); }
    }
    // block strings for quoted strings of the same value
    if rng.chance(1, 2) {
        let indent = rng.chance(1, 2);
        let (t2, ch) = to_block(rng, &toks, indent);
        if ch {
            let t = render_plain(&t2);
            cx.add(kind, &t, stream, 0, Some(&ce), 1, expected, merge(&base, json!({"variant": if indent { "block-string-indented" } else { "block-string-simple" }})));
        }
    }
}

fn merge(a: &serde_json::Value, b: serde_json::Value) -> serde_json::Value {
    let mut o = a.as_object().cloned().unwrap_or_default();
    if let Some(m) = b.as_object() { for (k, v) in m { o.insert(k.clone(), v.clone()); } }
    serde_json::Value::Object(o)
}
